#!/usr/bin/env python3
# Generates MANIFEST.json from checks/*.json plus the per-property texts in manifest_texts.json.
import json, os, glob
base = '/verif'
texts = json.load(open(os.path.join(base, 'manifest_texts.json')))
props = [json.loads(l)['id'] for l in open(os.path.join(base, 'properties.jsonl'))]
checks = []
na = []
for pid in props:
    cfgp = os.path.join(base, 'checks', pid + '.json')
    t = texts.get(pid, {})
    if os.path.exists(cfgp) and pid in texts and not t.get('not_applicable'):
        cfg = json.load(open(cfgp))
        checks.append({
            "property_id": pid,
            "quick_cmd": f"/verif/bin/gosym check {pid} --tier quick",
            "thorough_cmd": f"/verif/bin/gosym check {pid} --tier thorough",
            "evidence_file": f"/verif/evidence/{pid}.json",
            "replay_cmd_template": "/verif/bin/gosym replay {path}",
            "engine": "gosym",
            "level_claimed": {"category": cfg.get("level", "model_checking"), "text": t.get("text", ""), "design_ref": t.get("design_ref", "DESIGN.md section 5 " + pid)},
            "level_note": t.get("note", ""),
            "technique": t.get("technique", "bounded symbolic execution of go/ssa (real code) + SMT (z3): unsat on every path obligation within stated bounds; sat models replayed natively"),
        })
    else:
        na.append({"property_id": pid, "reason": t.get("not_applicable", "no check registered yet in this round (harness not built); nothing is claimed for it")})
m = {
    "version": 1,
    "setup_cmd": "cd /verif/engine && GOFLAGS=-mod=vendor GOPROXY=off GOSUMDB=off GOTOOLCHAIN=local go build -o /verif/bin/gosym ./cmd/gosym && /verif/bin/gosym selftest",
    "hooks": {
        "guard": "verif",
        "enable": "no source hooks are committed to /repo: harnesses and the verifnd package are injected at check time with go/packages overlays and `go test -overlay` (files under /verif/harness); the tag name `verif` is reserved",
        "baseline_off_cmd": "cd /repo && GOFLAGS=-mod=mod go test -json -vet=off -count=1 -timeout 25m ./...",
        "source_commits": [],
        "add_only": True,
    },
    "engines": [{"name": "gosym", "path": "/verif/engine", "serves_properties": [c["property_id"] for c in checks],
                 "kind_free_text": "path-forking symbolic executor for go/ssa (fork of x/tools go/ssa/interp v0.29.0) with SMT-LIB2 back end (z3 -in), native replay of models through go test -overlay"}],
    "checks": checks,
    "not_applicable": na,
    "notes": "See DESIGN.md. Every check rebuilds the SSA of /repo's working tree on each run; bounds are in checks/<id>.json and repeated in the evidence.",
}
json.dump(m, open(os.path.join(base, 'MANIFEST.json'), 'w'), indent=1)
print("checks:", [c["property_id"] for c in checks], "na:", len(na))
