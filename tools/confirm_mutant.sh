#!/bin/bash
# usage: confirm_mutant.sh <seeded dir>  -- confirms a seeded change in the scratch worktree /tmp/repo_conf:
# applies, builds, existing suite passes, demonstration fails with it and passes without it.
d=$1; R=/tmp/repo_conf
export GOFLAGS=-mod=mod GOPROXY=off GOSUMDB=off GOTOOLCHAIN=local
[ -d $R ] || git -C /repo worktree add -q --detach $R HEAD
cd $R && git checkout -q -- . && git clean -fdq
demo=$(ls $d/*_test.go | head -1)
pkgdir=$(grep -o "\(pkg\|internal\)/[A-Za-z0-9_/]*" $demo | head -1)
[ -z "$pkgdir" ] && pkgdir=$(dirname $(jq -r '.files[0]' $d/meta_agent.json))
pkgdir=${pkgdir%/}
[ -d "$R/$pkgdir" ] || { echo "cannot locate demo package dir ($pkgdir)"; exit 2; }
cp $demo $R/$pkgdir/zz_demo_test.go
without=$(go test -vet=off -count=1 ./$pkgdir 2>&1 | tail -1)
git apply $d/patch.diff || { echo "patch does not apply"; exit 2; }
build=$(go build ./... 2>&1 | tail -1)
with=$(go test -vet=off -count=1 ./$pkgdir 2>&1 | tail -1)
rm -f $R/$pkgdir/zz_demo_test.go
suite=$(go test -vet=off -count=1 ./... 2>&1 | grep -c "^FAIL")
echo "pkg=$pkgdir | without: $without | build: ${build:-ok} | with: $with | existing-suite-failures: $suite"
git checkout -q -- . && git clean -fdq
