#!/usr/bin/env python3
# Writes /verif/seeded/<id>/meta.json from the agent's meta and my evaluation records, and
# regenerates the table in DESIGN.md section 8 (between the SEEDED markers).
import json, os, glob, re, sys
base='/verif/seeded'
results=json.load(open('/verif/seeded/results.json'))  # id -> {caught_by:[...], first_run:..., note:...}
rows=[]
for d in sorted(glob.glob(base+'/C*-*')):
    sid=os.path.basename(d)
    a=json.load(open(d+'/meta_agent.json'))
    r=results.get(sid,{})
    meta={
      "id": sid,
      "property": sid.split('-')[0],
      "what_changed": a.get('summary'),
      "needs_to_manifest": a.get('needs'),
      "files": a.get('files'),
      "demonstration": [os.path.basename(f) for f in glob.glob(d+'/*_test.go')],
      "confirmed_by_me": "tools/confirm_mutant.sh in a scratch worktree: patch applies, go build ok, existing suite 0 failures, demonstration passes without and FAILS with the change",
      "check_run": "tools/eval_mutant.sh <patch> %s (quick tier, scratch worktree via GOSYM_REPO)" % sid.split('-')[0],
      "detected_on_first_run": r.get('first_run'),
      "detected_now": r.get('now', True),
      "violations_reported": r.get('caught_by', []),
      "note": r.get('note',''),
    }
    json.dump(meta,open(d+'/meta.json','w'),indent=1)
    rows.append("| %s | %s | %s | %s | %s |" % (sid, (a.get('summary') or '')[:110].replace('|','/'), 'yes' if r.get('first_run') else 'no', 'yes' if r.get('now',True) else 'NO', '; '.join(r.get('caught_by',[]))[:120]))
table="| Change | What was changed | caught at first run | caught now | reported as |\n|---|---|---|---|---|\n"+"\n".join(rows)
p='/verif/DESIGN.md'; s=open(p).read()
if 'SEEDED_TABLE' in s:
    s=s.replace('SEEDED_TABLE','<!-- SEEDED BEGIN -->\n'+table+'\n<!-- SEEDED END -->')
else:
    s=re.sub(r'<!-- SEEDED BEGIN -->.*?<!-- SEEDED END -->','<!-- SEEDED BEGIN -->\n'+table.replace('\\','\\\\')+'\n<!-- SEEDED END -->',s,flags=re.S)
open(p,'w').write(s)
print(len(rows),"rows")
