#!/bin/bash
# usage: eval_mutant.sh <patch.diff> <property> [tier]   -- tries one seeded change in the scratch worktree /tmp/repo_mut
set -u
patch=$1; prop=$2; tier=${3:-quick}
R=/tmp/repo_mut
export GOFLAGS=-mod=mod GOPROXY=off GOSUMDB=off GOTOOLCHAIN=local
[ -d $R ] || git -C /repo worktree add -q --detach $R HEAD
cd $R && git checkout -q -- . && git clean -fdq
if ! git apply "$patch" 2>/tmp/apply_err.txt; then echo "PATCH-DOES-NOT-APPLY: $(head -2 /tmp/apply_err.txt)"; exit 2; fi
if ! go build ./... 2>/tmp/build_err.txt; then echo "BUILD-FAILS"; head -5 /tmp/build_err.txt; git checkout -q -- .; exit 2; fi
out=$(cd /verif && GOSYM_REPO=$R timeout 3000 /verif/bin/gosym check $prop --tier $tier 2>&1)
code=$?
echo "$out" | grep -E "^(VIOLATION|KNOWN-FINDING|INCONCLUSIVE|check )" | cut -c1-260 | sort | uniq -c | sort -rn | head -12
echo "exit=$code"
[ -d $R ] || git -C /repo worktree add -q --detach $R HEAD
cd $R && git checkout -q -- . && git clean -fdq
