#!/bin/bash
# usage: stage_seeded.sh <scratch-prefix> <prop>...   e.g. stage_seeded.sh /tmp/m4_ C01 C03
# copies <prefix><prop>/OUT/{1,2,3} (patch.diff, *_test.go, meta.json) to /verif/seeded/<prop>-<n>
# with the next free n and prints the new ids.
pre=$1; shift
for p in "$@"; do
  n=$(ls -d /verif/seeded/${p}-* 2>/dev/null | sed 's/.*-//' | sort -n | tail -1); n=${n:-0}
  for k in 1 2 3 4; do
    src=$pre$p/OUT/$k; [ -f $src/patch.diff ] || continue
    n=$((n+1)); d=/verif/seeded/$p-$n; mkdir -p $d
    cp $src/patch.diff $d/; cp $src/*_test.go $d/ 2>/dev/null; cp $src/meta.json $d/meta_agent.json
    echo $p-$n
  done
done
