#!/bin/bash
# runs every registered quick (or $1=thorough) check against /repo and summarises
tier=${1:-quick}
cd /verif
for id in $(jq -r '.checks[].property_id' MANIFEST.json); do
  t0=$(date +%s)
  out=$(/verif/bin/gosym check $id --tier $tier 2>&1); code=$?
  t1=$(date +%s)
  echo "== $id exit=$code time=$((t1-t0))s $(echo "$out" | grep -c '^INCONCLUSIVE') inconclusive, $(echo "$out" | grep -c '^VIOLATION') violations, $(echo "$out" | grep -c '^KNOWN-FINDING') known"
  echo "$out" | grep -E "^(INCONCLUSIVE|VIOLATION|KNOWN-FINDING)" | cut -c1-240 | head -8
done
