#!/bin/bash
# usage: eval_patch.sh <patch.diff> <property> <scratch-worktree> [tier]
# applies a change in the given scratch worktree of /repo (created on demand), builds, runs the
# existing suite, runs the registered check against it (GOSYM_REPO) and restores the worktree.
set -u
patch=$1; prop=$2; R=$3; tier=${4:-quick}
export GOFLAGS=-mod=mod GOPROXY=off GOSUMDB=off GOTOOLCHAIN=local
[ -d $R ] || git -C /repo worktree add -q --detach $R HEAD
cd $R && git checkout -q -- . && git clean -fdq && git checkout -q --detach $(git -C /repo rev-parse HEAD)
if ! git apply "$patch" 2>/tmp/apply_err_$$.txt; then echo "PATCH-DOES-NOT-APPLY: $(head -2 /tmp/apply_err_$$.txt)"; exit 2; fi
if ! go build ./... 2>/tmp/build_err_$$.txt; then echo "BUILD-FAILS"; head -5 /tmp/build_err_$$.txt; git checkout -q -- .; exit 2; fi
suite=$(go test -vet=off -count=1 ./... 2>&1 | grep -c "^FAIL")
echo "existing-suite-failures=$suite"
t0=$(date +%s)
out=$(cd /verif && GOSYM_REPO=$R GOSYM_WORKERS=${GOSYM_WORKERS:-8} timeout 3000 /verif/bin/gosym check $prop --tier $tier 2>&1)
code=$?
echo "$out" | grep -E "^(VIOLATION|KNOWN-FINDING|INCONCLUSIVE)" | cut -c1-300 | sort | uniq -c | sort -rn | head -12
echo "exit=$code time=$(( $(date +%s)-t0 ))s"
cd $R && git checkout -q -- . && git clean -fdq
