// Package verifnd supplies nondeterministic inputs to verification harnesses.
//
// Under the symbolic engine (gosym) every function here is intercepted: values
// become SMT variables, Assume/Assert become solver obligations. Compiled
// natively the same functions read a tape of concrete values, so that a
// solver model can be replayed against the real build as an ordinary test.
package verifnd

import (
	"fmt"
	"io/fs"
	"math"
	"os"
	"time"
)

// Tape holds the values returned by successive calls (native replay only).
var Tape []int64
var Params map[string]int
var pos int

// Trace records Reach/Assert labels in call order (native replay only).
var Trace []string

// Reset rewinds the tape for a new replay.
func Reset(t []int64, p map[string]int) { Tape, Params, pos, Trace = t, p, 0, nil }

type TapeExhausted struct{}
type AssumeViolated struct{}
type AssertFailed struct{ Label string }

func (a AssertFailed) Error() string { return "ASSERT:" + a.Label }

func next() int64 {
	if pos >= len(Tape) {
		panic(TapeExhausted{})
	}
	v := Tape[pos]
	pos++
	return v
}

func Int64() int64     { return next() }
func Byte() byte       { return byte(next()) }
func Bool() bool       { return next() != 0 }
func Float64() float64 { return math.Float64frombits(uint64(next())) }

// Int returns a value in [lo,hi]; the engine forks over every feasible value.
func Int(lo, hi int) int {
	v := int(next())
	if v < lo || v > hi {
		panic(AssumeViolated{})
	}
	return v
}

// Choice returns a value in [0,n).
func Choice(n int) int { return Int(0, n-1) }

// Bytes returns a string of n arbitrary bytes.
func Bytes(n int) string {
	b := make([]byte, n)
	for i := range b {
		b[i] = Byte()
	}
	return string(b)
}

// Pick* force the engine to enumerate the concrete values of a symbolic value;
// natively they are the identity.
func Pick(x int64) int64          { return x }
func PickByte(x byte) byte        { return x }
func PickBool(x bool) bool        { return x }
func PickString(x string) string  { return x }

// Param returns a harness parameter (bound) configured by the check, else def.
func Param(name string, def int) int {
	if v, ok := Params[name]; ok {
		return v
	}
	return def
}

func Assume(c bool) {
	if !c {
		panic(AssumeViolated{})
	}
}

func Assert(c bool, label string) {
	Trace = append(Trace, "A:"+label)
	if !c {
		panic(AssertFailed{label})
	}
}

// And / Or evaluate all operands (no short-circuit): under the engine the result is one
// boolean term instead of a chain of forking branches.
func And(c ...bool) bool {
	r := true
	for _, x := range c {
		r = r && x
	}
	return r
}

func Or(c ...bool) bool {
	r := false
	for _, x := range c {
		r = r || x
	}
	return r
}

// Implies is !a || b without a branch.
func Implies(a, b bool) bool { return !a || b }

func Reach(label string) { Trace = append(Trace, "R:"+label) }

// NondetMapOrder makes the engine explore every iteration order of Go maps.
func NondetMapOrder(on bool) {}

// Freeze marks everything reachable from the arguments and from package-level variables as
// shared: under the engine a later store into shared memory is reported (C16). No-op natively.
func Freeze(roots ...any) {}

// Symbolic reports whether the harness runs under the symbolic engine.
func Symbolic() bool { return false }

// IsSymbolic reports whether v is (or wraps) a symbolic value in the engine.
func IsSymbolic(v any) bool { return false }

// ---- a small file system for harnesses of the command-line runner ----
// Under the engine the files live in an in-engine map that os.ReadFile / os.ReadDir consult;
// natively they are real files under a fresh temporary directory.

var vfsRoot string

// VFSRoot returns the directory under which VFSWrite / VFSMkdir paths must lie.
func VFSRoot() string {
	if vfsRoot == "" {
		d, err := os.MkdirTemp("", "verif-vfs-")
		if err != nil {
			panic(err)
		}
		vfsRoot = d
	}
	return vfsRoot
}

func VFSWrite(path, content string) {
	if err := os.WriteFile(path, []byte(content), 0o644); err != nil {
		panic(err)
	}
}

func VFSMkdir(path string) {
	if err := os.MkdirAll(path, 0o755); err != nil {
		panic(err)
	}
}

// VFSCleanup removes the temporary directory (native) and forgets it.
func VFSCleanup() {
	if vfsRoot != "" {
		os.RemoveAll(vfsRoot)
		vfsRoot = ""
	}
}

// DirEnt is the os.DirEntry the engine's os.ReadDir hands out.
type DirEnt struct {
	N string
	D bool
}

func (d DirEnt) Name() string { return d.N }
func (d DirEnt) IsDir() bool  { return d.D }
func (d DirEnt) Type() fs.FileMode {
	if d.D {
		return fs.ModeDir
	}
	return 0
}
func (d DirEnt) Info() (fs.FileInfo, error) { return nil, fs.ErrInvalid }

func init() { _ = fmt.Sprint }

// FileInf is the os.FileInfo the engine's os.Stat / os.Lstat hand out.
type FileInf struct {
	N string
	D bool
	S int64
}

func (f FileInf) Name() string { return f.N }
func (f FileInf) Size() int64  { return f.S }
func (f FileInf) Mode() fs.FileMode {
	if f.D {
		return fs.ModeDir | 0o755
	}
	return 0o644
}
func (f FileInf) ModTime() time.Time { return time.Time{} }
func (f FileInf) IsDir() bool        { return f.D }
func (f FileInf) Sys() any           { return nil }
