package run

import (
	"time"

	"github.com/GuanceCloud/platypus/internal/verifnd"
	"github.com/GuanceCloud/platypus/pkg/engine"
	"github.com/GuanceCloud/platypus/pkg/inimpl/guancecloud/funcs"
	"github.com/GuanceCloud/platypus/pkg/inimpl/guancecloud/input"
)

// ---- C12 (partial): grok / add_pattern ----

const vgDef = "add_pattern(\"_a\", \"\\\\d+\")\n"
const vgDefB = "add_pattern(\"_b\", \"%{_a}x\")\n" // refers to _a: needs it visible where _b is declared
const vgUse = "grok(_, \"%{_a:num:int}\")\n"
const vgUseB = "grok(_, \"%{_b:bx}\")\n"

// VerifGrokScope: add_pattern definitions are visible only inside the block that declares
// them (after the declaration) and in blocks nested in it; a grok or add_pattern that refers to
// a name that is not visible (and is not a global pattern) is rejected at load time; a script
// whose references are all visible loads.
func VerifGrokScope() {
	pick := func() bool { return verifnd.Int(0, 1) == 1 }
	p0, p1, g1, pin, gin, g2, p2 := pick(), pick(), pick(), pick(), pick(), pick(), pick()
	b0, gb := pick(), pick()
	outerKind := verifnd.Choice(3) // if / else branch / for-in body
	src := ""
	ok := true
	aTop, bTop := false, false
	if p0 {
		src += vgDef
		aTop = true
	}
	if b0 { // _b declared at top level: its body refers to _a
		src += vgDefB
		if !aTop {
			ok = false
		}
		bTop = true
	}
	switch outerKind {
	case 0:
		src += "if true {\n"
	case 1:
		src += "if false {\n} else {\n"
	case 2:
		src += "for x in [1] {\n"
	}
	aBlk := aTop
	if p1 {
		src += vgDef
		aBlk = true
	}
	if g1 {
		src += vgUse
		if !aBlk {
			ok = false
		}
	}
	// a block nested one level deeper
	src += "if true {\n"
	aIn := aBlk
	if pin {
		src += vgDef
		aIn = true
	}
	if gin {
		src += vgUse
		if !aIn {
			ok = false
		}
	}
	src += "}\n"
	if gb { // uses _b inside the outer block: visible iff declared at top level
		src += vgUseB
		if !bTop {
			ok = false
		}
	}
	src += "}\n"
	if g2 { // after the block: only the top-level declaration made before counts
		src += vgUse
		if !aTop {
			ok = false
		}
	}
	if p2 {
		src += vgDef
	}
	src += "grok(_, \"%{WORD:w} %{NUMBER:n:float}\")\n" // global patterns are always visible
	_, errs := engine.ParseScript(map[string]string{"a.p": src}, funcs.FuncsMap, funcs.FuncsCheckMap)
	if ok {
		verifnd.Reach("all-visible")
		verifnd.Assert(len(errs) == 0, "visible-patterns-load")
	} else {
		verifnd.Reach("invisible-reference")
		verifnd.Assert(len(errs) == 1, "invisible-pattern-rejected-at-load")
	}
}

// VerifGrokRun: on a match every capture is stored under its name with its annotated type
// (trimmed unless trim_space is false) and grok returns true; on a non-match, an absent
// subject or a subject that does not match, the point is unchanged and grok returns false.
func VerifGrokRun() {
	type tc struct {
		pattern string
		subject string
		match   bool
		want    map[string]any // with trimming
		wantRaw map[string]any // trim_space = false (nil: same as want)
	}
	cases := []tc{
		{"%{_a:num:int} %{WORD:w}", "42 hello", true, map[string]any{"num": int64(42), "w": "hello"}, nil},
		{"%{NUMBER:f:float},%{WORD:b:bool},%{WORD:s:str}", "2.5,true,xyz", true, map[string]any{"f": 2.5, "b": true, "s": "xyz"}, nil},
		{"%{_a:num:int}%{GREEDYDATA:rest}", "7  padded ", true, map[string]any{"num": int64(7), "rest": "padded"}, map[string]any{"num": int64(7), "rest": "  padded "}},
		{"%{_a:num:int} %{WORD:w}", "no digits here", false, nil, nil},
		{"^%{WORD:only}$", "two words", false, nil, nil},
	}
	c := cases[verifnd.Choice(len(cases))]
	trim := verifnd.Choice(3) // 0 absent, 1 true, 2 false
	subj := verifnd.Choice(5) // 0 `_` (message), 1 a string field, 2 a tag, 3 a variable, 4 absent key
	arg := "_"
	fields := map[string]any{"message": "unrelated", "keep": int64(1)}
	tags := map[string]string{"tg": "tv"}
	pre := ""
	switch subj {
	case 0:
		fields["message"] = c.subject
	case 1:
		arg = "sf"
		fields["sf"] = c.subject
	case 2:
		arg = "st"
		tags["st"] = c.subject
	case 3:
		arg = "v"
		pre = "v = get_key(src)\n"
		fields["src"] = c.subject
	case 4:
		arg = "nosuchkey"
	}
	call := "grok(" + arg + ", \"" + c.pattern + "\""
	if trim == 1 {
		call += ", true"
	} else if trim == 2 {
		call += ", false"
	}
	call += ")"
	src := vgDef + pre + "ok = " + call + "\nadd_key(matched, ok)\n"
	scripts, errs := engine.ParseScript(map[string]string{"a.p": src}, funcs.FuncsMap, funcs.FuncsCheckMap)
	verifnd.Assert(len(errs) == 0, "script-loads")
	if len(errs) != 0 {
		return
	}
	pt := &input.Point{}
	input.InitPt(pt, "m", tags, fields, time.Time{})
	before := map[string]any{}
	for k, v := range pt.Fields {
		before[k] = v
	}
	errR := scripts["a.p"].Run(pt, nil)
	verifnd.Assert(errR == nil, "run-ok")
	matched := c.match && subj != 4
	verifnd.Assert(pt.Fields["matched"] == any(matched), "grok-returns-whether-it-matched")
	want := c.want
	if trim == 2 && c.wantRaw != nil {
		want = c.wantRaw
	}
	if matched {
		verifnd.Reach("match")
		for k, v := range want {
			verifnd.Assert(pt.Fields[k] == v, "capture-stored-with-type")
		}
		verifnd.Assert(len(pt.Fields) == len(before)+len(want)+1, "only-captures-added")
	} else {
		verifnd.Reach("no-match")
		verifnd.Assert(len(pt.Fields) == len(before)+1, "non-match-adds-nothing")
	}
	for k, v := range before {
		if _, captured := want[k]; !captured || !matched {
			verifnd.Assert(pt.Fields[k] == v, "other-fields-unchanged")
		}
	}
	verifnd.Assert(len(pt.Tags) == len(tags) && pt.Tags["tg"] == "tv", "tags-unchanged")
}

// VerifGrokHistory: C15 for grok - loading and running a script does not depend on scripts
// loaded earlier in the process: two scripts with the identical grok text whose local
// add_pattern alias differs extract what their own alias says, in either load order.
func VerifGrokHistory() {
	digits := "add_pattern(\"_v\", \"[0-9]+\")\ngrok(_, \"%{_v:val}-\")\n"
	letters := "add_pattern(\"_v\", \"[a-z]+\")\ngrok(_, \"%{_v:val}-\")\n"
	var wantD, wantL any = "123", "abc"
	switch verifnd.Choice(4) {
	case 1:
		// the grok call sits in a nested block, the alias is declared outside it
		digits = "add_pattern(\"_v\", \"[0-9]+\")\nif true {\n for x in [1] {\n  grok(_, \"%{_v:val}-\")\n }\n}\n"
		letters = "add_pattern(\"_v\", \"[a-z]+\")\nif true {\n for x in [1] {\n  grok(_, \"%{_v:val}-\")\n }\n}\n"
	case 2:
		// the alias the call names has the same text in both scripts, the alias IT refers to differs
		verifnd.Reach("nested-alias")
		digits = "add_pattern(\"_d\", \"[0-9]+\")\nadd_pattern(\"_v\", \"%{_d}\")\ngrok(_, \"%{_v:val}-\")\n"
		letters = "add_pattern(\"_d\", \"[a-z]+\")\nadd_pattern(\"_v\", \"%{_d}\")\nif true {\n grok(_, \"%{_v:val}-\")\n}\n"
	case 3:
		// the same expression once with a typed and once with an untyped capture
		verifnd.Reach("typed-and-untyped")
		digits = "add_pattern(\"_v\", \"[0-9]+\")\ngrok(_, \"%{_v:val:int}-\")\n"
		letters = "add_pattern(\"_v\", \"[0-9]+\")\ngrok(_, \"%{_v:val}-\")\n"
		wantD, wantL = int64(123), "123"
	}
	first := verifnd.Int(0, 1) // which of the two is loaded (and run) first
	run := func(src, msg string) any {
		scripts, errs := engine.ParseScript(map[string]string{"s.p": src}, funcs.FuncsMap, funcs.FuncsCheckMap)
		verifnd.Assert(len(errs) == 0, "script-loads")
		if len(errs) != 0 {
			return nil
		}
		pt := &input.Point{}
		input.InitPt(pt, "m", nil, map[string]any{"message": msg}, time.Time{})
		verifnd.Assert(scripts["s.p"].Run(pt, nil) == nil, "run-ok")
		return pt.Fields["val"]
	}
	const msg = "123-abc-"
	var d, l any
	if first == 0 {
		d = run(digits, msg)
		l = run(letters, msg)
	} else {
		l = run(letters, msg)
		d = run(digits, msg)
	}
	verifnd.Reach("both-ran")
	verifnd.Assert(d == wantD, "digits-alias-extracts-digits")
	verifnd.Assert(l == wantL, "letters-alias-extracts-letters")
	// a script with the same expression text and no alias of its own is still rejected at load time
	for _, src := range []string{"grok(_, \"%{_v:val}-\")\n", "if true {\n for x in [1] {\n  grok(_, \"%{_v:val}-\")\n }\n}\n", "grok(_, \"%{_v:val:int}-\")\n"} {
		_, errs := engine.ParseScript(map[string]string{"u.p": src}, funcs.FuncsMap, funcs.FuncsCheckMap)
		verifnd.Assert(errs["u.p"] != nil, "unknown-pattern-rejected-after-history")
	}
}
