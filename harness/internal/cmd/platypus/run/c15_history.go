package run

// C15 (b): two-operation non-interference on whole operations. An operation is
// "load the script text (engine.ParseScript with the registered functions and
// checkers: pooled parser, pooled task for the check) and, if it loaded, run it on a point
// taken from the point pool (pooled task, pooled point, pooled index entries)".
//
// History: op2 in the fresh process state (all four pools empty) -> outcome A;
//          op1 (a predecessor of every kind; LEN=2: two of them) on its own point;
//          op2 again, loaded again, on an equal point                  -> outcome B;
//          the script object loaded for A run once more on an equal point -> outcome C.
// Asserted: A = B = C (load verdict, returned error, final point).

import (
	"time"

	"github.com/GuanceCloud/platypus/internal/verifnd"
	"github.com/GuanceCloud/platypus/pkg/ast"
	"github.com/GuanceCloud/platypus/pkg/engine"
	"github.com/GuanceCloud/platypus/pkg/engine/runtime"
	"github.com/GuanceCloud/platypus/pkg/errchain"
	"github.com/GuanceCloud/platypus/pkg/inimpl/guancecloud/funcs"
	"github.com/GuanceCloud/platypus/pkg/inimpl/guancecloud/input"
)

// predecessors (op1)
var vc15Pred = []string{
	// 0 syntax error
	"add_key(k_leak, 1)\nif a2 == {\n",
	// 1 run-time error inside nested loops, after effects on variables, point and registers
	"z = 0\nundefined_var = \"leak\"\nfor i = 0; i < 3; i += 1 {\n for x in [1, 2] {\n  a2 = \"leak\"\n  add_key(k_leak, len(\"abc\"))\n  b = i / z\n }\n}\n",
	// 2 exit() inside an endless loop
	"a2 = \"leak\"\nundefined_var = 7\nfor i = 0; ; i += 1 {\n set_tag(t_leak, \"v\")\n if i == 2 { exit() }\n}\n",
	// 3 success, leaving variables, tags, fields, a dropped point, deleted keys
	"a2 = \"leak\"\nundefined_var = 7\nv = 3\nx = len(\"abc\")\nadd_key(k_leak, x)\nset_tag(score, \"tagged\")\nrename(msg2, message)\ndrop_key(host)\nset_measurement(\"leak_m\")\ncast(k_leak, \"str\")\n",
	// 4 load-time check failure (wrong argument count) after valid calls
	"add_key(k_leak, 1)\nset_tag(t_leak, \"v\")\nfor x in [1] { add_key() }\n",
	// 5 unknown function
	"a2 = 1\nno_such_function(a2)\n",
	// 6 success ending inside loop control (break and continue executed)
	"for x in [1, 2, 3] {\n a2 = x\n if x == 2 { break }\n continue\n}\nadd_key(k_leak, a2)\n",
	// 7 cancelled by its signal inside nested loops (run with vc15Cancel)
	"a2 = \"leak\"\nfor i = 0; ; i += 1 {\n for x in [1, 2] {\n  undefined_var = x\n  set_tag(t_leak, \"v\")\n }\n}\nadd_key(after_cancel, 1)\n",
	// 8 run-time error inside a called script (two pooled tasks in use, both returned on the error path)
	"a2 = \"leak\"\nundefined_var = 1\nuse(\"lib.p\")\nfor x in [1] {\n use(\"lib2.p\")\n}\n",
}

// library scripts loaded together with every operation (targets of use())
const vc15Lib = "lv = undefined_var\nif lv == nil {\n add_key(lib_saw_nil, true)\n}\nadd_key(from_lib, a2)\na2 = \"lib\"\nadd_key(lib_len, len(\"xyz\"))\n"
const vc15Lib2 = "z = 0\nfor x in [1, 2] {\n set_tag(t_leak, \"lib2\")\n q = 1 / z\n}\n"

// vc15Cancel: a cancellation signal that fires on the n-th poll.
type vc15Cancel struct{ n int }

func (c *vc15Cancel) ExitSignal() bool {
	c.n--
	return c.n <= 0
}

// successors (op2): scripts whose result changes if anything leaked - undefined
// variables, variables a predecessor assigned, loop flags, exit flag, registers (a call
// used as a value with and without result), point keys a predecessor created.
var vc15Succ = []string{
	// 0 straight-line
	"add_key(score, 10)\nset_tag(host2, \"h1\")\nif message == \"m\" {\n rename(msg2, message)\n}\nx = len(msg2)\nadd_key(ln, x)\nadd_key(copy_a, a)\nadd_key(seen_undefined, undefined_var)\nadd_key(seen_a2, a2)\nadd_key(k_leak)\nif k_leak == nil && t_leak == nil && a2 == nil {\n add_key(clean, true)\n}\n",
	// 1 loops with continue and break
	"n = 0\nfor i = 0; i < 4; i += 1 {\n if i == 1 { continue }\n if i == 3 { break }\n n = n + i\n add_key(last_i, i)\n}\nadd_key(total, n)\nfor c in \"ab\" {\n add_key(last_c, c)\n}\ndrop_key(a)\nset_measurement(\"mm\")\n",
	// 2 exit in the middle
	"add_key(before, 1)\nv = undefined_var\nif v == nil {\n add_key(was_nil, true)\n}\nexit()\nadd_key(after, 1)\n",
	// 3 run-time error in the middle of a loop
	"z = 0\nadd_key(before, 1)\nfor i = 1; i < 3; i += 1 {\n add_key(it, i)\n b = a / z\n}\nadd_key(after, 1)\n",
	// 4 a call used as a value: without a result, with one, without one again
	"r = set_tag(t1, \"v\")\nadd_key(r_is, r)\nq = len(\"abcd\")\nadd_key(q_is, q)\nr2 = drop_key(nothing)\nif r2 == nil { add_key(r2_nil, true) }\n",
	// 5 syntax error
	"add_key(x, 1)\nadd_key(y, \n",
	// 6 calls another script twice (nested pooled tasks)
	"a2 = \"outer\"\nuse(\"lib.p\")\nadd_key(outer_a2, a2)\nfor x in [1, 2] {\n use(\"lib.p\")\n}\nadd_key(k_leak)\n",
	// 7 collection literals modified in place (a literal's value must be built afresh on every run)
	"l = [1, 2, 3]\nl[0] = l[0] + 10\nm = {\"k\": 1}\nm[\"k\"] = m[\"k\"] + 5\nm[\"n\"] = l[0]\nfor i = 0; i < 2; i += 1 {\n t = [0]\n t[0] = t[0] + 1\n add_key(inner, t[0])\n}\nadd_key(first, l[0])\nadd_key(mk, m[\"k\"])\nadd_key(mlen, len(m))\n",
	// 8, 9, 10 texts without any token (shorter than every predecessor): whatever the loader
	// says about them, it says the same after any history
	"",
	"# todo\n",
	"  \n\n",
	// 11 a syntax error right at the start, another at the very end of a short text
	") x\n",
	"a = (\n",
}

// vc15Point: the input point; `a` is any int64, `f` any non-NaN float64.
type vc15Pt struct {
	a int64
	f float64
}

func (p vc15Pt) build() (string, map[string]string, map[string]any, time.Time) {
	return "meas", map[string]string{"host": "h0"}, map[string]any{"message": "m", "a": p.a, "f": p.f, "flag": true, "nothing": nil}, time.Time{}
}

// vc15Result: load verdict, returned error, final point.
type vc15Result struct {
	loaded  bool
	loadErr error
	runErr  *errchain.PlError
	meas    string
	drop    bool
	tm      time.Time
	tags    map[string]string
	fields  map[string]any
	metaK   []string
	metaD   []ast.DType
	metaF   []input.PtFlag
}

func vc15Load(name, src string) (*runtime.Script, error) {
	ok, errs := engine.ParseScript(map[string]string{name: src, "lib.p": vc15Lib, "lib2.p": vc15Lib2}, funcs.FuncsMap, funcs.FuncsCheckMap)
	if s, has := ok[name]; has {
		return s, nil
	}
	return nil, errs[name]
}

func vc15RunOn(s *runtime.Script, p vc15Pt, r *vc15Result, sig runtime.Signal) {
	m, t, f, tn := p.build()
	pt := input.InitPt(input.GetPoint(), m, t, f, tn)
	r.runErr = s.Run(pt, sig)
	r.meas, r.drop, r.tm, r.tags, r.fields = pt.Measurement, pt.Drop, pt.Time, pt.Tags, pt.Fields
	for k, md := range pt.Meta {
		r.metaK = append(r.metaK, k)
		r.metaD = append(r.metaD, md.DType)
		r.metaF = append(r.metaF, md.PtFlag)
	}
	input.PutPoint(pt)
}

func vc15Operation(name, src string, p vc15Pt, sig runtime.Signal) (*vc15Result, *runtime.Script) {
	r := &vc15Result{}
	s, err := vc15Load(name, src)
	if err != nil {
		r.loadErr = err
		return r, nil
	}
	r.loaded = true
	vc15RunOn(s, p, r, sig)
	return r, s
}

func vc15SameAny(a, b any) bool {
	switch x := a.(type) {
	case nil:
		return b == nil
	case int64:
		y, ok := b.(int64)
		return verifnd.And(ok, x == y)
	case float64:
		y, ok := b.(float64)
		return verifnd.And(ok, x == y)
	case bool:
		y, ok := b.(bool)
		return verifnd.And(ok, x == y)
	case string:
		y, ok := b.(string)
		return verifnd.And(ok, x == y)
	}
	return false
}

func vc15SamePlErr(a, b *errchain.PlError) bool {
	if a == nil || b == nil {
		return a == nil && b == nil
	}
	if len(a.PosChain) != len(b.PosChain) {
		return false
	}
	ok := a.Err == b.Err
	for i := range a.PosChain {
		p, q := a.PosChain[i], b.PosChain[i]
		ok = verifnd.And(ok, p.File == q.File, p.Pos == q.Pos, p.Ln == q.Ln, p.Col == q.Col)
	}
	return ok
}

func vc15SameResult(tag string, a, b *vc15Result) {
	verifnd.Assert(a.loaded == b.loaded, tag+":same-load-verdict")
	if a.loaded != b.loaded {
		return
	}
	if !a.loaded {
		verifnd.Reach(tag + ":load-rejected")
		pa, oka := a.loadErr.(*errchain.PlError)
		pb, okb := b.loadErr.(*errchain.PlError)
		verifnd.Assert(oka && okb && vc15SamePlErr(pa, pb), tag+":same-load-error")
		// C05: whatever ran before, a load error names a line and column inside the source
		if okb && pb != nil {
			okPos := len(pb.PosChain) >= 1
			for _, q := range pb.PosChain {
				okPos = verifnd.And(okPos, q.Ln >= 1, q.Col >= 1, q.Pos >= 0)
			}
			verifnd.Assert(okPos, tag+":load-error-has-a-position-inside-the-source")
		}
		return
	}
	if a.runErr != nil {
		verifnd.Reach(tag + ":run-failed")
	} else {
		verifnd.Reach(tag + ":run-ended-normally")
	}
	verifnd.Assert(vc15SamePlErr(a.runErr, b.runErr), tag+":same-run-error")
	verifnd.Assert(verifnd.And(a.meas == b.meas, a.drop == b.drop, a.tm.Equal(b.tm)), tag+":same-measurement-drop-time")
	verifnd.Assert(len(a.tags) == len(b.tags), tag+":same-tag-set")
	for k, v := range a.tags {
		w, ok := b.tags[k]
		verifnd.Assert(verifnd.And(ok, v == w), tag+":same-tags")
	}
	verifnd.Assert(len(a.fields) == len(b.fields), tag+":same-field-set")
	for k, v := range a.fields {
		w, ok := b.fields[k]
		verifnd.Assert(verifnd.And(ok, vc15SameAny(v, w)), tag+":same-fields")
	}
	// key index: same keys with the same kind and type (order of map iteration aside)
	verifnd.Assert(len(a.metaK) == len(b.metaK), tag+":same-index-size")
	for i, k := range a.metaK {
		found := false
		for j, k2 := range b.metaK {
			if k == k2 {
				found = true
				verifnd.Assert(verifnd.And(a.metaD[i] == b.metaD[j], a.metaF[i] == b.metaF[j]), tag+":same-index-entries")
			}
		}
		verifnd.Assert(found, tag+":same-index-keys")
	}
}

// VerifHistoryPair: see the file comment. PRED / SUCC select one predecessor / successor
// (-1 = all, by Choice).
func VerifHistoryPair() {
	k2 := verifnd.Param("SUCC", -1)
	if k2 < 0 {
		k2 = verifnd.Choice(len(vc15Succ))
	}
	k1 := verifnd.Param("PRED", -1)
	if k1 < 0 {
		k1 = verifnd.Choice(len(vc15Pred))
	}
	p := vc15Pt{a: verifnd.Int64(), f: verifnd.Float64()}
	verifnd.Assume(p.f == p.f)

	resA, sA := vc15Operation("op2.p", vc15Succ[k2], p, nil)
	verifnd.Reach("first-run-in-fresh-state")

	// the predecessor(s) work on their own point; LEN=2: two predecessors in a row
	for n := 0; n < verifnd.Param("LEN", 1); n++ {
		if n > 0 {
			k1 = verifnd.Choice(len(vc15Pred))
		}
		vc15Predecessor(k1)
	}

	// first the script loaded before the predecessor ran, with nothing in between: loading
	// takes a pooled task through the check pass, which resets more than a run does and can
	// hide what the predecessor left behind
	if sA != nil {
		resC := &vc15Result{loaded: true}
		vc15RunOn(sA, p, resC, nil)
		vc15SameResult("rerun", resA, resC)
	}
	resB, _ := vc15Operation("op2.p", vc15Succ[k2], p, nil)
	vc15SameResult("reloaded", resA, resB)
}

func vc15Predecessor(k1 int) {
	var sig runtime.Signal
	if k1 == 7 {
		sig = &vc15Cancel{n: 9}
	}
	resP, _ := vc15Operation("op1.p", vc15Pred[k1], vc15Pt{a: 1234, f: 0.5}, sig)
	if k1 == 7 {
		_, done := resP.fields["after_cancel"]
		verifnd.Assert(resP.loaded && resP.runErr == nil && !done, "predecessor-was-cancelled")
	}
	if resP.loaded {
		if resP.runErr != nil {
			verifnd.Reach("predecessor-failed-at-run-time")
		} else {
			verifnd.Reach("predecessor-ran")
		}
	} else {
		verifnd.Reach("predecessor-rejected-at-load")
	}
}
