package run

import (
	"strings"
	"time"

	"github.com/GuanceCloud/platypus/internal/verifnd"
	"github.com/GuanceCloud/platypus/pkg/engine"
	"github.com/GuanceCloud/platypus/pkg/inimpl/guancecloud/funcs"
	"github.com/GuanceCloud/platypus/pkg/inimpl/guancecloud/input"
)

// VerifBuiltinArgShapes: C08 for the real builtins - a call is accepted at load time only if
// it satisfies the function's argument-shape rules. The builtins validate argument count and
// literal kind again at run time, so the two validations can be played against each other
// without a hand-written rule table: whenever the load-time checker accepts a call, running it
// must not fail with an argument-shape complaint (a message about the number of args or about
// an expected StringLiteral / BoolLiteral / Identifier). Calls of 0..3 arguments, each argument
// an identifier, a string literal, an integer literal, a boolean literal or an attribute expression.
func VerifBuiltinArgShapes() {
	names := []string{"add_key", "cast", "drop_key", "exit", "get_key", "len", "load_json", "rename", "set_tag",
		"set_measurement", "strfmt", "trim", "uppercase", "url_decode", "printf", "replace", "add_pattern", "use"}
	name := names[verifnd.Choice(len(names))]
	kinds := []string{"k", "\"int\"", "5", "true", "a.b"}
	nargs := verifnd.Int(0, 3)
	args := make([]string, nargs)
	for i := range args {
		args[i] = kinds[verifnd.Choice(len(kinds))]
	}
	src := name + "(" + strings.Join(args, ", ") + ")\n"
	scripts, errs := engine.ParseScript(map[string]string{"s.p": src, "int": "x = 1\n"}, funcs.FuncsMap, funcs.FuncsCheckMap)
	if errs["s.p"] != nil {
		verifnd.Reach("rejected-at-load")
		return
	}
	verifnd.Reach("accepted-at-load")
	pt := &input.Point{}
	input.InitPt(pt, "m", map[string]string{"tg": "v"}, map[string]any{"message": "hello%20w", "k": " Some Text ", "a.b": "attr value"}, time.Time{})
	err := scripts["s.p"].Run(pt, nil)
	if err == nil {
		return
	}
	verifnd.Reach("run-error")
	msg := err.Err
	shape := strings.Contains(msg, " args") || strings.Contains(msg, "StringLiteral") || strings.Contains(msg, "BoolLiteral") || strings.Contains(msg, "Identifier")
	verifnd.Assert(!shape, "load-accepted-call-has-valid-argument-shape")
}
