package run

// C14 - a running script stops promptly when its cancellation signal fires (text programs,
// both interpreters, real entry points Script.Run).
//
// The Signal is the harness object ccSignal: it counts polls and starts reporting true either
// from poll number k on (poll clock) or from the moment the j-th probe effect happens (effect
// clock: the signal fires DURING a statement); once true it stays true. Every program is run
// twice on the same data: a base run (terminating programs: the signal never fires;
// non-terminating programs: the signal fires at the last admissible poll KN) and a cancelled run
// with the firing moment chosen by verifnd.Choice over every poll 1..K and every effect 1..E of
// the base run. No generated infinite loop is ever run with a signal that cannot fire.
//
// v1 programs go through engine.ParseScript (real parser, checker, linker; use() bound by the
// loader) and Script.Run(point, signal); v2 programs through engine.ParseV2 and
// Script.Run(signal). The program texts are the same for both interpreters except that the use()
// programs exist for v1 only.

import (
	"time"

	"github.com/GuanceCloud/platypus/internal/verifnd"
	"github.com/GuanceCloud/platypus/pkg/ast"
	"github.com/GuanceCloud/platypus/pkg/engine"
	"github.com/GuanceCloud/platypus/pkg/engine/runtime"
	"github.com/GuanceCloud/platypus/pkg/engine/runtimev2"
	"github.com/GuanceCloud/platypus/pkg/errchain"
	"github.com/GuanceCloud/platypus/pkg/inimpl/guancecloud/input"
)

// ---- the signal ----

type ccSignal struct {
	atPoll    int // > 0: true from this poll on
	atEffect  int // > 0: true once this many probe effects have happened
	polls     int
	firstTrue int // number of the first poll that was answered true (0: none yet)
}

func (s *ccSignal) on() bool {
	return (s.atPoll > 0 && s.polls >= s.atPoll) || (s.atEffect > 0 && len(ccTrace) >= s.atEffect)
}

func (s *ccSignal) ExitSignal() bool {
	s.polls++
	if s.on() {
		if s.firstTrue == 0 {
			s.firstTrue = s.polls
		}
		return true
	}
	return false
}

// ---- observation ----

type ccEv struct {
	script   string
	id       int
	v        any
	polls    int  // polls answered so far when the effect happened
	observed bool // a poll had already been answered true
	firing   bool // the signal was already reporting true (asked or not)
}

var (
	ccTrace []ccEv
	ccSig   *ccSignal
	ccLim   int64
)

func ccRecord(script string, id int, v any) {
	// "firing" is judged before the effect is counted: the effect that makes the effect clock
	// fire is the statement in progress
	ccTrace = append(ccTrace, ccEv{script, id, v, ccSig.polls, ccSig.firstTrue != 0, ccSig.on()})
}

func ccV1Tables() (map[string]runtime.FuncCall, map[string]runtime.FuncCheck) {
	call, check := ucTables()
	call["probe"] = func(ctx *runtime.Task, e *ast.CallExpr) *errchain.PlError {
		v, _, err := runtime.RunStmt(ctx, e.Param[1])
		if err != nil {
			return err
		}
		ccRecord(ctx.Name(), int(e.Param[0].IntegerLiteral().Val), v)
		return nil
	}
	call["lim"] = func(ctx *runtime.Task, e *ast.CallExpr) *errchain.PlError {
		ctx.Regs.ReturnAppend(ccLim, ast.Int)
		return nil
	}
	check["lim"] = func(ctx *runtime.Task, e *ast.CallExpr) *errchain.PlError { return nil }
	return call, check
}

func ccV2Ok(ctx *runtimev2.Task, e *ast.CallExpr) *errchain.PlError { return nil }

func ccV2Tables() map[string]*runtimev2.Fn {
	return map[string]*runtimev2.Fn{
		"probe": {CallCheck: ccV2Ok, Call: func(ctx *runtimev2.Task, e *ast.CallExpr) *errchain.PlError {
			if err := runtimev2.RunExpr(ctx, e.Param[1]); err != nil {
				return err
			}
			v, rerr := ctx.Regs.GetRet()
			if rerr != nil {
				return runtimev2.NewRunError(ctx, rerr.Error(), e.NamePos)
			}
			ctx.Regs.Reset()
			ccRecord("main.p", int(e.Param[0].IntegerLiteral().Val), v.V)
			return nil
		}},
		"lim": {CallCheck: ccV2Ok, Call: func(ctx *runtimev2.Task, e *ast.CallExpr) *errchain.PlError {
			ctx.Regs.ReturnAppend(runtimev2.V{V: ccLim, T: ast.Int})
			return nil
		}},
	}
}

// ---- programs ----

type ccProg struct {
	name    string
	texts   [][2]string // (script name, text); the first one is run
	endless bool
	// the base run must have polled at least lim()+3 times between the effects with these ids
	// (an empty-bodied loop of lim()+3 iterations stands between them)
	emptyLoop [2]int
}

// terminating programs, both interpreters
var ccTerminating = []ccProg{
	{name: "straight-line", texts: [][2]string{{"main.p", `a = 1
probe(1, a)
b = a + 1
probe(2, b)
a = b + a
probe(3, a)
b = b + 1
probe(4, b)
probe(5, a + b)
a = 0
probe(6, a)
`}}},
	{name: "counted-loops", emptyLoop: [2]int{1, 2}, texts: [][2]string{{"main.p", `n = lim()
probe(1, n)
for i = 0; i < n + 3; i = i + 1 {
}
probe(2, n)
for i = 0; i < n; i = i + 1 {
  probe(3, i)
}
probe(4, 0)
`}}},
	{name: "effect-in-post-clause", texts: [][2]string{{"main.p", `n = lim()
i = 0
for ; i < n; probe(1, i) {
  i = i + 1
  probe(2, i)
}
probe(3, n)
`}}},
	{name: "nested-break-continue", texts: [][2]string{{"main.p", `n = lim()
for i = 0; i < n; i = i + 1 {
  for j = 0; j < 3; j = j + 1 {
    if j == 1 {
      continue
    }
    if j == 2 {
      break
    }
    probe(1, j)
  }
  probe(2, i)
}
probe(3, n)
`}}},
	{name: "for-in", texts: [][2]string{{"main.p", `n = lim()
for x in [0, 1, 2] {
  probe(1, x)
  if x == n {
    break
  }
  probe(2, x)
}
for c in "ab" {
  probe(3, c)
}
probe(4, n)
`}}},
	{name: "for-in-map", texts: [][2]string{{"main.p", `m = {"k0": 1, "k1": 2, "k2": 3}
for k in m {
  probe(1, 0)
  probe(2, 0)
}
probe(3, 0)
`}}},
	{name: "while-style", texts: [][2]string{{"main.p", `n = lim()
i = 0
for ;; {
  if i >= n {
    break
  } else {
    probe(1, i)
  }
  i = i + 1
}
probe(2, i)
`}}},
}

// terminating programs with use(): v1 only
var ccTerminatingUse = []ccProg{
	{name: "loops-in-callee", texts: [][2]string{{"main.p", `probe(1, 0)
use("loop.p")
probe(2, 0)
`}, {"loop.p", `n = lim()
for i = 0; i < n; i = i + 1 {
  probe(3, i)
}
for x in [1, 2] {
  probe(4, x)
}
`}}},
	{name: "callee-in-loop", texts: [][2]string{{"main.p", `for i = 0; i < 2; i = i + 1 {
  use("mid.p")
  probe(1, i)
}
probe(2, 0)
`}, {"mid.p", `probe(3, 0)
use("loop.p")
probe(4, 0)
`}, {"loop.p", `n = lim()
for i = 0; i < n; i = i + 1 {
  probe(5, i)
}
`}}},
}

// non-terminating programs, both interpreters
var ccEndless = []ccProg{
	{name: "empty-infinite-loop", endless: true, texts: [][2]string{{"main.p", `for ;; {
}
probe(9, 0)
`}}},
	{name: "nested-empty-infinite-loops", endless: true, texts: [][2]string{{"main.p", `for ;; {
  for ;; {
  }
}
probe(9, 0)
`}}},
	{name: "deeply-nested-empty-infinite-loops", endless: true, texts: [][2]string{{"main.p", `for ;; {
  for ;; {
    for ;; {
      for ;; {
      }
    }
  }
}
probe(9, 0)
`}}},
	{name: "infinite-loop-with-probe", endless: true, texts: [][2]string{{"main.p", `i = 0
for ;; {
  probe(1, i)
  i = i + 1
}
probe(9, 0)
`}}},
	{name: "infinite-loops-with-clauses", endless: true, texts: [][2]string{{"main.p", `for i = 0; 1 == 1; i = i + 1 {
  for ; 1 == 1; {
    continue
  }
}
probe(9, 0)
`}}},
	{name: "infinite-loop-in-for-in", endless: true, texts: [][2]string{{"main.p", `for x in [1, 2] {
  probe(1, x)
  for ;; {
    if x == 1 {
    }
  }
  probe(8, x)
}
probe(9, 0)
`}}},
}

// non-terminating programs with use(): v1 only
var ccEndlessUse = []ccProg{
	{name: "callee-spins", endless: true, texts: [][2]string{{"main.p", `probe(1, 0)
use("spin.p")
probe(9, 0)
`}, {"spin.p", `for ;; {
}
probe(8, 0)
`}}},
	{name: "infinite-loop-calling", endless: true, texts: [][2]string{{"main.p", `for ;; {
  use("body.p")
}
probe(9, 0)
`}, {"body.p", `probe(1, 0)
`}}},
	{name: "depth-3-callee-spins", endless: true, texts: [][2]string{{"main.p", `use("mid.p")
probe(9, 0)
`}, {"mid.p", `for x in [1, 2] {
  use("spin.p")
  probe(8, x)
}
probe(7, 0)
`}, {"spin.p", `i = 0
for ;; {
  probe(1, i)
  i = i + 1
  for ;; {
  }
}
`}}},
}

// ---- one run ----

type ccRunner func(sig *ccSignal) *errchain.PlError

type ccResult struct {
	err   *errchain.PlError
	trace []ccEv
	sig   *ccSignal
}

func ccRun(run ccRunner, sig *ccSignal) ccResult {
	ccTrace = nil
	ccSig = sig
	err := run(sig)
	return ccResult{err, ccTrace, sig}
}

func ccLoadV1(p ccProg) ccRunner {
	texts := map[string]string{}
	for _, t := range p.texts {
		texts[t[0]] = t[1]
	}
	call, check := ccV1Tables()
	oks, errs := engine.ParseScript(texts, call, check)
	verifnd.Assert(len(errs) == 0 && oks[p.texts[0][0]] != nil, "loader-accepts-program")
	main := oks[p.texts[0][0]]
	return func(sig *ccSignal) *errchain.PlError {
		pt := input.InitPt(&input.Point{}, "m", nil, map[string]any{}, time.Time{})
		return main.Run(pt, sig)
	}
}

func ccLoadV2(p ccProg) ccRunner {
	s, err := engine.ParseV2(p.texts[0][0], p.texts[0][1], ccV2Tables())
	verifnd.Assert(err == nil && s != nil, "loader-accepts-program")
	return func(sig *ccSignal) *errchain.PlError { return s.Run(sig) }
}

func ccSameEv(a, b ccEv) bool {
	if a.script != b.script || a.id != b.id {
		return false
	}
	switch x := a.v.(type) {
	case int64:
		y, ok := b.v.(int64)
		return verifnd.And(ok, x == y)
	case string:
		y, ok := b.v.(string)
		return ok && x == y
	}
	return a.v == nil && b.v == nil
}

// ccCheck: the property on one program.
func ccCheck(p ccProg, run ccRunner) {
	KN := verifnd.Param("KN", 12)
	ccLim = ucSmall(0, int64(verifnd.Param("NMAX", 2)))

	// base run
	base := &ccSignal{}
	if p.endless {
		base.atPoll = KN
	}
	r0 := ccRun(run, base)
	verifnd.Assert(r0.err == nil, "base-run-returns-nil")
	K, E := base.polls, len(r0.trace)
	if p.endless {
		K = KN
		verifnd.Reach("endless-program-stopped")
	}

	// the firing moment: any poll of the base run, or any effect of it
	c := verifnd.Choice(K + E)
	sig := &ccSignal{}
	if c < K {
		sig.atPoll = c + 1
		verifnd.Reach("fires-at-a-poll")
	} else {
		sig.atEffect = c - K + 1
		verifnd.Reach("fires-during-a-statement")
		if p.endless {
			sig.atPoll = KN // a run that misses the effect clock is still stopped
		}
	}
	r1 := ccRun(run, sig)

	// returns without error
	verifnd.Assert(r1.err == nil, "cancelled-run-returns-nil")
	if sig.firstTrue != 0 {
		verifnd.Reach("signal-observed")
	}
	// its effects are a prefix of the effects of the uninterrupted run
	verifnd.Assert(len(r1.trace) <= len(r0.trace), "effects-are-a-prefix")
	if len(r1.trace) <= len(r0.trace) {
		same := true
		for i := range r1.trace {
			same = verifnd.And(same, ccSameEv(r1.trace[i], r0.trace[i]))
		}
		verifnd.Assert(same, "effects-are-a-prefix")
	}
	// nothing executes after the signal was observed
	for _, e := range r1.trace {
		verifnd.Assert(!e.observed, "no-effect-after-signal-observed")
	}
	// at most the statement in progress completes: no effect starts while the signal is
	// already reporting true
	for _, e := range r1.trace {
		verifnd.Assert(!e.firing, "at-most-the-statement-in-progress-completes")
	}
	if len(r1.trace) < len(r0.trace) {
		verifnd.Reach("effects-cut-short")
	}
	if len(r1.trace) == 0 {
		verifnd.Reach("cancelled-before-first-effect")
	}

	// promptness seen from the base run: the signal is asked between two effects of
	// different statements and in every loop iteration
	for i := 1; i < len(r0.trace); i++ {
		verifnd.Assert(r0.trace[i].polls > r0.trace[i-1].polls, "poll-between-effects")
	}
	if p.emptyLoop[0] != 0 {
		var a, b *ccEv
		for i := range r0.trace {
			if r0.trace[i].id == p.emptyLoop[0] && a == nil {
				a = &r0.trace[i]
			}
			if r0.trace[i].id == p.emptyLoop[1] && b == nil {
				b = &r0.trace[i]
			}
		}
		verifnd.Assert(a != nil && b != nil && int64(b.polls-a.polls) >= ccLim+3, "poll-in-every-loop-iteration")
		if ccLim > 0 {
			verifnd.Reach("empty-loop-iterated")
		}
	}
}

func ccPick(set []ccProg) ccProg {
	p := set[verifnd.Choice(len(set))]
	verifnd.Reach("program:" + p.name)
	return p
}

// VerifCancelV1: SET 0 terminating, 1 terminating with use(), 2 non-terminating, 3 non-terminating with use().
func VerifCancelV1() {
	var p ccProg
	switch verifnd.Param("SET", 0) {
	case 0:
		p = ccPick(ccTerminating)
	case 1:
		p = ccPick(ccTerminatingUse)
	case 2:
		p = ccPick(ccEndless)
	default:
		p = ccPick(ccEndlessUse)
	}
	ccCheck(p, ccLoadV1(p))
}

// VerifCancelV2: SET 0 terminating, 2 non-terminating (v2 has no use()).
func VerifCancelV2() {
	var p ccProg
	switch verifnd.Param("SET", 0) {
	case 0:
		p = ccPick(ccTerminating)
	default:
		p = ccPick(ccEndless)
	}
	ccCheck(p, ccLoadV2(p))
}
