package run

// VerifCapture replaces the runner's logger by a capturing one and returns accessors.
func VerifCapture() (infos func() []string, errs func() []string) {
	lg := &vcLog{}
	l = lg
	return func() []string { return lg.infos }, func() []string { return lg.errs }
}
