package run

import (
	"context"
	"encoding/json"
	"sort"
	"strconv"
	"strings"
	"time"

	"github.com/GuanceCloud/platypus/internal/verifnd"
	"github.com/GuanceCloud/platypus/pkg/engine"
	"github.com/GuanceCloud/platypus/pkg/inimpl/guancecloud/funcs"
	"github.com/GuanceCloud/platypus/pkg/inimpl/guancecloud/input"
)

// ---- C20: text and line-protocol input x JSON and line-protocol output ----

// vlInput: an input file and the point the reference says it describes.
type vlInput struct {
	lp     bool
	text   string
	bad    bool // not valid line protocol: an error is reported instead of output
	meas   string
	tags   map[string]string
	fields map[string]any
	ns     int64 // time in Unix nanoseconds (line protocol only)
}

var vlInputs = []vlInput{
	{text: "hello w\xc3\xb6rld", meas: "default_name", fields: map[string]any{"message": "hello w\xc3\xb6rld"}},
	{lp: true, text: "nginx,host=h1 msg=\"first\nline\",n=3i,f=2.5,b=true 1700000000000000000\n",
		meas: "nginx", tags: map[string]string{"host": "h1"},
		fields: map[string]any{"msg": "first\nline", "n": int64(3), "f": 2.5, "b": true}, ns: 1700000000000000000},
	{lp: true, text: "m1,a=1 v=1i 1600000000000000000\nm2 v=2i 1600000000000000001\n",
		meas: "m1", tags: map[string]string{"a": "1"}, fields: map[string]any{"v": int64(1)}, ns: 1600000000000000000},
	{lp: true, text: "cpu\\,x,ta\\ g=v\\=1,host=h1 svc=\"\",q=\"a\\\"b\",n=3i 1700000000123456789",
		meas: "cpu,x", tags: map[string]string{"ta g": "v=1", "host": "h1"},
		fields: map[string]any{"svc": "", "q": "a\"b", "n": int64(3)}, ns: 1700000000123456789},
	{lp: true, text: "# a comment line\n\nnginx,host=h1 n=-7i,ts=\"2021-12-02 11:55:34\" 1700000000000000000",
		meas: "nginx", tags: map[string]string{"host": "h1"},
		fields: map[string]any{"n": int64(-7), "ts": "2021-12-02 11:55:34"}, ns: 1700000000000000000},
	{lp: true, bad: true, text: "nginx,host= n=\n"},
	{lp: true, bad: true, text: "nginx,host=h1 msg=\"unbalanced 1700000000000000000\n"},
}

type vlScript struct {
	files  map[string]string
	script string
	ok     bool
}

var vlScripts = []vlScript{
	{files: map[string]string{"a.p": "add_key(x, 1)\nset_tag(t1, \"v\")\n"}, script: "a.p", ok: true},
	{files: map[string]string{"a.p": "set_measurement(\"renamed\")\nadd_key(fl, 1.25)\nadd_key(bo, false)\nadd_key(st, \"a b,c=\\\"d\\\"\")\n"}, script: "a.p", ok: true},
	{files: map[string]string{"a.p": "set_measurement(svc, true)\n"}, script: "a.p", ok: true}, // "" where svc is empty, else unchanged
	{files: map[string]string{"a.p": "add_key(ts2, \"2021-12-02 11:55:34\")\ndefault_time(ts2)\n"}, script: "a.p", ok: true},
	{files: map[string]string{"a.p": "default_time(ts, \"+8\")\nset_tag(host, \"re tagged\")\ndrop_key(n)\nadd_key(kept, 0)\n"}, script: "a.p", ok: true},
	{files: map[string]string{"a.p": "use(\"b.ppl\")\nadd_key(after, 2)\n", "b.ppl": "set_measurement(\"from b\")\nset_tag(who, \"b\")\n"}, script: "a.p", ok: true},
	{files: map[string]string{"a.p": "use(\"b.p\")\n", "b.p": "add_key(from_b, 1)\n", "zz.p": "add_key(y, = )\n"}, script: "a.p", ok: true},
	{files: map[string]string{"a.p": "l = [1]\ny = l[5]\n"}, script: "a.p", ok: false},
	{files: map[string]string{"a.p": "add_key(x, 1)\nnosuch(1)\n"}, script: "a.p", ok: false}, // load (check) error
	{files: map[string]string{"svc.access.ppl": "set_tag(t9, \"dotted\")\n"}, script: "svc.access.ppl", ok: true},
}

// vlRender: the reference line-protocol text of a point (InfluxDB line protocol v1: escaped
// measurement, tags sorted by key, fields sorted by key with type suffix, nanoseconds).
func vlRender(pt *input.Point) string {
	esc := func(s string, chars string) string {
		var sb strings.Builder
		for k := 0; k < len(s); k++ {
			if strings.IndexByte(chars, s[k]) >= 0 {
				sb.WriteByte('\\')
			}
			sb.WriteByte(s[k])
		}
		return sb.String()
	}
	out := esc(pt.Measurement, ", ")
	var tk []string
	for k := range pt.Tags {
		tk = append(tk, k)
	}
	sort.Strings(tk)
	for _, k := range tk {
		out += "," + esc(k, ",= ") + "=" + esc(pt.Tags[k], ",= ")
	}
	var fk []string
	for k := range pt.Fields {
		fk = append(fk, k)
	}
	sort.Strings(fk)
	for n, k := range fk {
		if n == 0 {
			out += " "
		} else {
			out += ","
		}
		out += esc(k, ",= ") + "="
		switch v := pt.Fields[k].(type) {
		case int64:
			out += strconv.FormatInt(v, 10) + "i"
		case float64:
			out += strconv.FormatFloat(v, 'f', -1, 64)
		case bool:
			out += strconv.FormatBool(v)
		case string:
			out += "\"" + esc(v, "\"\\") + "\""
		}
	}
	return out + " " + strconv.FormatInt(pt.Time.UnixNano(), 10)
}

// VerifCliFormats: {text, line protocol} input x {JSON, line protocol} output x {workspace,
// single file}: the output equals the library's point rendered by the reference.
func VerifCliFormats() {
	time.Local = time.UTC
	in := vlInputs[verifnd.Choice(len(vlInputs))]
	sc := vlScripts[verifnd.Choice(len(vlScripts))]
	workspace := verifnd.Bool()
	outLP := verifnd.Bool()
	root := verifnd.VFSRoot()
	defer verifnd.VFSCleanup()
	for name, text := range sc.files {
		verifnd.VFSWrite(root+"/"+name, text)
	}
	verifnd.VFSWrite(root+"/in.dat", in.text)
	opts := &Options{Script: sc.script, Type: TypeText, OutputType: OutTypeJSON, Input: root + "/in.dat"}
	if in.lp {
		opts.Type = TypeLineProtocol
	}
	if outLP {
		opts.OutputType = OutTypeLineProtocol
	}
	if workspace {
		opts.Workspace = root
	} else {
		// single-file mode cannot resolve use() of a sibling
		verifnd.Assume(len(sc.files) == 1)
		opts.Script = root + "/" + sc.script
	}
	logger := &vcLog{}
	l = logger
	err := Run(context.Background(), opts)
	verifnd.Assert(err == nil, "run-returns-nil")
	var rendered []string
	for _, s := range logger.infos {
		if strings.HasPrefix(s, vcOutPrefix) {
			rendered = append(rendered, s[len(vcOutPrefix):])
		}
	}
	if in.bad || !sc.ok {
		verifnd.Reach("error-case")
		verifnd.Assert(len(rendered) == 0, "error-instead-of-output")
		verifnd.Assert(len(logger.errs) > 0, "error-is-reported")
		vcSameLoadError(sc.files, sc.script, logger)
		return
	}
	// what the library API yields for the same script and the point the input describes
	scripts, _ := engine.ParseScript(sc.files, funcs.FuncsMap, funcs.FuncsCheckMap)
	pt := &input.Point{}
	fields := map[string]any{}
	for k, v := range in.fields {
		fields[k] = v
	}
	var tags map[string]string
	if in.tags != nil {
		tags = map[string]string{}
		for k, v := range in.tags {
			tags[k] = v
		}
	}
	input.InitPt(pt, in.meas, tags, fields, time.Unix(0, in.ns).UTC())
	errR := scripts[sc.script].Run(pt, nil)
	verifnd.Assert(errR == nil, "library-run-ok")
	timeKnown := in.lp || pt.Time.UnixNano() != in.ns // text input starts from the wall clock
	verifnd.Reach("rendered")
	verifnd.Assert(len(logger.errs) == 0, "no-error-reported")
	verifnd.Assert(len(rendered) == 1, "exactly-one-output")
	if len(rendered) != 1 {
		return
	}
	if outLP {
		verifnd.Reach("lp-out")
		want := vlRender(pt)
		got := rendered[0]
		if !timeKnown {
			// compare up to the timestamp
			want = want[:strings.LastIndexByte(want, ' ')]
			if k := strings.LastIndexByte(got, ' '); k >= 0 {
				got = got[:k]
			}
		}
		verifnd.Assert(got == want, "line-protocol-output-is-the-library-point")
		return
	}
	verifnd.Reach("json-out")
	var got map[string]any
	verifnd.Assert(json.Unmarshal([]byte(rendered[0]), &got) == nil, "output-is-json")
	verifnd.Assert(got["measurement"] == any(pt.Measurement), "measurement-as-left-by-script")
	gt, _ := got["tags"].(map[string]any)
	verifnd.Assert(len(gt) == len(pt.Tags), "tags-as-left-by-script:count")
	for k, v := range pt.Tags {
		verifnd.Assert(gt[k] == any(v), "tags-as-left-by-script")
	}
	gf, _ := got["fields"].(map[string]any)
	verifnd.Assert(len(gf) == len(pt.Fields), "fields-as-left-by-script:count")
	for k, v := range pt.Fields {
		want := v
		if iv, ok := v.(int64); ok {
			want = float64(iv)
		}
		verifnd.Assert(gf[k] == want, "fields-as-left-by-script")
	}
	if timeKnown {
		verifnd.Reach("time-compared")
		verifnd.Assert(got["time"] == any(pt.Time.UTC().Format(time.RFC3339Nano)), "time-as-left-by-script")
	}
}
