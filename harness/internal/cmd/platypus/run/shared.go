package run

import (
	"time"

	"github.com/GuanceCloud/platypus/internal/verifnd"
	"github.com/GuanceCloud/platypus/pkg/engine"
	"github.com/GuanceCloud/platypus/pkg/inimpl/guancecloud/funcs"
	"github.com/GuanceCloud/platypus/pkg/inimpl/guancecloud/input"
	"github.com/GuanceCloud/platypus/pkg/parser"
)

// ---- C16 (reduced claim): runs and parses write only memory they own ----
//
// A sufficient condition for "any schedule of concurrent runs/parses equals the sequential
// one": after loading, a run of a loaded script on a private point and a parse of another
// source never store into memory reachable from the loaded scripts (their syntax trees, the
// bound use() targets, cached grok patterns), from the function tables or from any
// package-level variable. The engine's ownership monitor (verifnd.Freeze) reports such stores
// (except stores made while a sync.Mutex / RWMutex is held or inside sync.Once.Do, and
// sync/atomic operations), and any access to an object after it was handed to a sync.Pool.

var vsScripts = []map[string]string{
	{ // expressions, collections, control flow, scoping
		"a.p": "x = 1\nl = [1, 2, 3]\nm = {\"k\": l}\nfor i = 0; i < 3; i = i + 1 {\n  x += l[i]\n  if x > 3 { break }\n}\nfor c in \"añb\" { y = c }\nfor k in m { z = m[k][-1] }\nl[0] = x\nm[\"n\"] = l[1:3]\nadd_key(total, x)\n",
	},
	{ // point builtins
		"a.p": "add_key(a, 1)\nadd_key(b, [1, \"x\"])\nset_tag(a)\nset_tag(t2, \"v\")\nrename(c, b)\ncast(f, \"int\")\ndrop_key(t)\nv = get_key(message)\nadd_key(n, len(v))\nset_measurement(\"m2\")\nstrfmt(s, \"%v-%v\", v, 5)\nd = load_json(\"{\\\"q\\\": [1, 2]}\")\nadd_key(q, d[\"q\"][1])\n",
	},
	{ // string builtins (library calls on concrete text)
		"a.p": "add_key(u, \"  Hello%20World  \")\ntrim(u)\nuppercase(u)\nurl_decode(u)\nreplace(u, \"O\", \"0\")\nprintf(\"%v\\n\", u)\n",
	},
	{ // use() of siblings and exit()
		"a.p": "x = 1\nuse(\"b.p\")\nadd_key(after_b, x)\nuse(\"c.p\")\nadd_key(never, 1)\n",
		"b.p": "x = 2\nadd_key(from_b, x)\nuse(\"c.p\")\n",
		"c.p": "add_key(from_c, 3)\nif from_b == 2 { exit() }\nadd_key(c_end, 1)\n",
	},
	{ // extraction builtins: pattern tables, compiled patterns, zone tables, XPath cache, obfuscator
		"a.p": "add_pattern(\"_w\", \"[a-z]+\")\nif true {\n  add_pattern(\"_n\", \"\\\\d+\")\n  grok(_, \"%{_w:w} %{_n:n:int}\")\n}\ngrok(_, \"%{_w:w2}\")\nadd_key(ts, \"2021-12-02 11:55:34\")\ndefault_time(ts, \"+8\")\nadd_key(ts2, \"2021-07-20 18:00:00\")\ndefault_time(ts2, \"Asia/Tokyo\")\nadd_key(ts3, \"not a time\")\ndefault_time(ts3)\nadd_key(n2, 1610960605)\ndatetime(n2, \"s\", \"RFC3339\")\nadd_key(x, \"<a><b>t</b></a>\")\nxml(x, \"/a/b/text()\", xb)\nxml(x, \"/a/b/text()\", xb2)\nadd_key(q, \"select a from t where b = 3\")\nsql_cover(q)\n",
	},
	{ // run-time error inside a loop in a callee
		"a.p": "for i in [1, 2] { use(\"b.p\") }\n",
		"b.p": "l = [1]\ny = l[i_does_not_exist]\n",
	},
}

// VerifNoSharedWrites: load (parse, check, link) a script set, freeze everything loaded, then
// run the entry script on a private point and parse an unrelated source; any store into frozen
// memory is reported by the engine.
func VerifNoSharedWrites() {
	set := vsScripts[verifnd.Choice(len(vsScripts))]
	scripts, errs := engine.ParseScript(set, funcs.FuncsMap, funcs.FuncsCheckMap)
	verifnd.Assert(len(errs) == 0, "scripts-load")
	if len(errs) != 0 {
		return
	}
	verifnd.Freeze(scripts, funcs.FuncsMap, funcs.FuncsCheckMap)

	fields := map[string]any{"message": "hello wörld", "f": verifnd.Float64(), "t": verifnd.Int64()}
	if verifnd.Int(0, 1) == 1 {
		fields["from_b"] = int64(2)
	}
	// points come from the pool as in the library's callers; an earlier point with several tags
	// has been through the pool already
	pt0 := input.InitPt(input.GetPoint(), "m", map[string]string{"ta": "1", "tb": "2", "tc": "3"}, map[string]any{"message": "x"}, time.Time{})
	pt0.Delete("tb")
	input.PutPoint(pt0)
	pt := input.InitPt(input.GetPoint(), "m", map[string]string{"tag1": "v1", "tag2": "v2"}, fields, time.Time{})
	_ = scripts["a.p"].Run(pt, nil)
	verifnd.Reach("ran")
	// a second run of the same loaded script (what another goroutine would do) on another point
	pt2 := input.InitPt(input.GetPoint(), "m", map[string]string{"tag1": "w1", "tag3": "w3"}, map[string]any{"message": "x"}, time.Time{})
	_ = scripts["a.p"].Run(pt2, nil)
	// private points stay private: no index entry is shared inside a point or between the two
	var seen []*input.TFMeta
	for _, p := range []*input.Point{pt, pt2} {
		for _, m := range p.Meta {
			for _, o := range seen {
				verifnd.Assert(o != m, "live-points-share-no-index-entry")
			}
			seen = append(seen, m)
		}
	}
	// a concurrent parse of another source
	srcs := []string{"a = 1 +", "if x { y = [1, 2][0] }", "for ;; { break }", "\"unterminated"}
	_, _ = parser.ParsePipeline("other.p", srcs[verifnd.Choice(len(srcs))])
	verifnd.Reach("parsed")
}
