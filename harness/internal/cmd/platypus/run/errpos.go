package run

// C01 / C17(d): a failure inside a statement surfaces as an error value naming the script and a
// source position inside the statement at fault, never beyond the source.

import (
	"strings"
	"time"

	"github.com/GuanceCloud/platypus/internal/verifnd"
	"github.com/GuanceCloud/platypus/pkg/ast"
	"github.com/GuanceCloud/platypus/pkg/engine"
	"github.com/GuanceCloud/platypus/pkg/engine/runtimev2"
	"github.com/GuanceCloud/platypus/pkg/errchain"
	"github.com/GuanceCloud/platypus/pkg/inimpl/guancecloud/funcs"
	"github.com/GuanceCloud/platypus/pkg/inimpl/guancecloud/input"
)

// expressions that fail when evaluated (n = 3, z = 0, msg = "m", lst = [1, 2], mp = {"a": 1})
var vepFrags = []string{
	"n / z",
	"n % z",
	"lst[5]",
	"lst[-3]",
	"mp[1]",
	"n[0]",
	"msg + n",
	"-msg",
	"lst[0:2:0]",
	"mp[\"q\"][\"r\"]",
	"(n - 3) / z * 2",
	"lst[n / z]",
}

// vepBuiltinFrags: failing expressions that need the registered builtins (v1 only)
var vepBuiltinFrags = []string{
	"load_json(\"{\")",
	"load_json(msg)",
	"len(n / z)",
}

const vepSetup = "n = 3\nz = 0\nmsg = \"m\"\nlst = [1, 2]\nmp = {\"a\": 1}\n"

var vepPrefixes = []string{"", "# a comment line\n\n", "x1 = \"héllo wörld 世\"\n\n   "}

// vepContext renders the statement context k around the failing expression f and returns the text
// and the byte range (relative to the text) of the innermost statement that contains f.
func vepContext(k int, f string) (text string, lo, hi int) {
	inner := func(head, tail string) (string, int, int) {
		st := "v = " + f
		return head + st + tail, len(head), len(head) + len(st)
	}
	whole := func(s string) (string, int, int) { return s, 0, len(s) }
	switch k {
	case 0:
		return whole("v = " + f)
	case 1:
		return whole(f)
	case 2:
		return whole("if " + f + " == 1 {\n  v = 1\n}")
	case 3:
		return inner("if n == 3 {\n  ", "\n}")
	case 4:
		return inner("for i = 0; i < 2; i = i + 1 {\n  ", "\n}")
	case 5:
		return inner("for x in lst {\n\t", "\n}")
	case 6:
		return whole("v = [1, " + f + ", 3]")
	case 7:
		return whole("v = {\"a\": 1, \"b\": " + f + "}")
	case 8:
		return whole("if n == 4 {\n  v = 0\n} elif " + f + " == 2 {\n  v = 1\n}")
	case 9:
		return whole("for i = 0; " + f + " == 1; i = i + 1 {\n  v = 2\n}")
	case 10:
		return inner("if n == 4 {\n  v = 0\n} else {\n  for x in \"ab\" {\n    ", "\n  }\n}")
	case 11:
		return whole("v = lst[" + f + "]")
	case 12:
		return whole("v, w = 1, " + f)
	}
	return whole("add_key(k, " + f + ")") // 13: builtins only
}

func vepCheck(label string, err *errchain.PlError, src string, lo, hi int) {
	if err == nil {
		verifnd.Reach(label + ":no-error")
		return
	}
	verifnd.Reach(label + ":run-error")
	verifnd.Assert(len(err.PosChain) >= 1, label+":error-has-a-position")
	if len(err.PosChain) < 1 {
		return
	}
	p := err.PosChain[0]
	verifnd.Assert(p.File == "s.p", label+":error-names-the-script")
	verifnd.Assert(p.Pos >= 0 && p.Pos <= len(src), label+":position-inside-the-source")
	verifnd.Assert(p.Pos >= lo && p.Pos < hi, label+":position-inside-the-statement-at-fault")
	if p.Pos >= 0 && p.Pos <= len(src) {
		ln, col := 1, 1
		for i := 0; i < p.Pos; i++ {
			if src[i] == '\n' {
				ln++
				col = 1
			} else {
				col++
			}
		}
		verifnd.Assert(p.Ln == ln && p.Col == col, label+":line-column-of-the-offset")
	}
	want := "s.p:" + vepItoa(p.Ln) + ":" + vepItoa(p.Col) + ": "
	verifnd.Assert(strings.HasPrefix(err.Error(), want), label+":rendered-as-file-ln-col")
	verifnd.Assert(len(err.Err) > 0, label+":error-has-a-message")
}

func vepItoa(v int) string {
	if v < 0 {
		return "-" + vepItoa(-v)
	}
	if v < 10 {
		return string(rune('0' + v))
	}
	return vepItoa(v/10) + string(rune('0'+v%10))
}

// VerifRunErrorPos: every failing expression in every statement context, behind prefixes that
// shift line and column (comment and blank lines, multi-byte text, indentation), on both
// interpreters: the run returns an error whose first position names the script, lies inside the
// statement at fault (never beyond the source), has the line/column of its offset, and renders
// as `file:ln:col: message`.
func VerifRunErrorPos() {
	nf := len(vepFrags)
	fi := verifnd.Choice(nf + len(vepBuiltinFrags))
	builtin := fi >= nf
	var f string
	if builtin {
		f = vepBuiltinFrags[fi-nf]
	} else {
		f = vepFrags[fi]
	}
	nctx := 13
	if builtin {
		nctx = 14
	}
	k := verifnd.Choice(nctx)
	prefix := vepPrefixes[verifnd.Choice(len(vepPrefixes))]
	text, lo, hi := vepContext(k, f)
	head := vepSetup + prefix
	src := head + text + "\nafter = 1\n"
	lo, hi = lo+len(head), hi+len(head)

	// v1 through the real loader with the registered builtins
	scripts, errs := engine.ParseScript(map[string]string{"s.p": src}, funcs.FuncsMap, funcs.FuncsCheckMap)
	if errs["s.p"] != nil {
		verifnd.Reach("v1:rejected-at-load")
	} else {
		pt := &input.Point{}
		input.InitPt(pt, "m", nil, map[string]any{"message": "hello"}, time.Time{})
		vepCheck("v1", scripts["s.p"].Run(pt, nil), src, lo, hi)
	}
	if builtin {
		return
	}
	// v2 (shared language, no builtins)
	s2, err2 := engine.ParseV2("s.p", src, map[string]*runtimev2.Fn{})
	if err2 != nil || s2 == nil {
		verifnd.Reach("v2:rejected-at-load")
		return
	}
	vepCheck("v2", s2.Run(nil), src, lo, hi)
}

var _ = ast.Int
