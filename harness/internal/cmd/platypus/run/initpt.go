package run

// C10 / C01: whatever Go type the host puts into the input fields, a key the script can read
// holds a value of the reported type (the value/type invariant every evaluator and builtin
// relies on), and scripts that apply every consumer to such a key never crash.

import (
	"encoding/json"
	"sort"
	"time"

	"github.com/GuanceCloud/platypus/internal/verifnd"
	"github.com/GuanceCloud/platypus/pkg/ast"
	"github.com/GuanceCloud/platypus/pkg/engine"
	"github.com/GuanceCloud/platypus/pkg/inimpl/guancecloud/funcs"
	"github.com/GuanceCloud/platypus/pkg/inimpl/guancecloud/input"
)

type vipStruct struct{ A int }

func vipValue(c int) any {
	one := 1
	switch c {
	case 0:
		return nil
	case 1:
		return int(5)
	case 2:
		return int8(-5)
	case 3:
		return int16(300)
	case 4:
		return int32(-70000)
	case 5:
		return int64(1 << 40)
	case 6:
		return uint(7)
	case 7:
		return uint8(200)
	case 8:
		return uint16(65535)
	case 9:
		return uint32(4000000000)
	case 10:
		return uint64(1 << 63)
	case 11:
		return float32(1.5)
	case 12:
		return float64(2.25)
	case 13:
		return true
	case 14:
		return "text"
	case 15:
		return []byte("raw bytes")
	case 16:
		return []any{int64(1), "a"}
	case 17:
		return map[string]any{"a": int64(1)}
	case 18:
		return vipStruct{A: 1}
	case 19:
		return &one
	case 20:
		return json.Number("12")
	case 21:
		return []string{"a", "b"}
	case 22:
		return time.Duration(5)
	}
	return uintptr(9)
}

const vipValues = 24

// scripts that put the key `k` through the consumers that trust the (value, type) pair
var vipScripts = []string{
	"add_key(n, len(k))\n",
	"s = k[0:1]\nadd_key(s)\n",
	"j = load_json(k)\nadd_key(j)\n",
	"x = k + 1\nadd_key(x)\n",
	"x = k + \"s\"\nadd_key(x)\n",
	"if k { add_key(truthy, true) }\nif k == 5 { add_key(eq, true) }\nif k < 9 { add_key(lt, true) }\n",
	"x = -k\nadd_key(x)\ny = !k\nadd_key(y)\n",
	"for c in k { add_key(last, c) }\n",
	"x = k[0]\nadd_key(x)\n",
	"if \"a\" in k { add_key(has, true) }\nif k in [k] { add_key(self, true) }\n",
	"cast(k, \"int\")\n",
	"cast(k, \"str\")\ntrim(k)\nuppercase(k)\n",
	"set_tag(k)\nrename(k2, k)\n",
	"add_key(copy, k)\nstrfmt(out, \"%v|%s|%d\", k, k, k)\ndrop_key(k)\n",
	"rename(k2, k)\nadd_key(n, len(k2))\ncast(k2, \"float\")\n",
	"url_decode(k)\nreplace(k, \"a\", \"b\")\nset_measurement(k)\n",
}

func vipInv(v any, t ast.DType) bool {
	switch t {
	case ast.Nil:
		return v == nil
	case ast.Int:
		_, ok := v.(int64)
		return ok
	case ast.Float:
		_, ok := v.(float64)
		return ok
	case ast.Bool:
		_, ok := v.(bool)
		return ok
	case ast.String:
		_, ok := v.(string)
		return ok
	}
	return false
}

// VerifInitPtTypes: an input point whose field `k` (and a tag, a second field) holds a value of
// any of 24 Go types: after InitPt every readable key satisfies the value/type invariant and is
// what the point holds; then one of 16 scripts applies the builtins and operators to it: the run
// returns (an escaping panic is a finding), and afterwards the invariant holds for every key.
func VerifInitPtTypes() {
	c := verifnd.Choice(vipValues)
	pt := &input.Point{}
	input.InitPt(pt, "m", map[string]string{"tg": "tv"}, map[string]any{"k": vipValue(c), "other": int64(1)}, time.Time{})
	check := func(label string) {
		keys := make([]string, 0, len(pt.Meta))
		for key := range pt.Meta {
			keys = append(keys, key)
		}
		sort.Strings(keys)
		for _, key := range keys {
			v, t, err := pt.Get(key)
			if err != nil {
				continue
			}
			verifnd.Assert(vipInv(v, t), label+":readable-key-has-a-value-of-its-reported-type")
			if fv, ok := pt.Fields[key]; ok && t != ast.Nil {
				_, isTag := pt.Tags[key]
				verifnd.Assert(isTag || vipInv(fv, t), label+":stored-field-has-the-reported-type")
			}
		}
	}
	check("post:init")
	verifnd.Reach("initialised")
	si := verifnd.Choice(len(vipScripts))
	scripts, errs := engine.ParseScript(map[string]string{"s.p": vipScripts[si]}, funcs.FuncsMap, funcs.FuncsCheckMap)
	verifnd.Assert(errs["s.p"] == nil, "script-loads")
	if errs["s.p"] != nil {
		return
	}
	err := scripts["s.p"].Run(pt, nil)
	if err != nil {
		verifnd.Reach("run-error")
	} else {
		verifnd.Reach("run-ok")
	}
	check("post:run")
}
