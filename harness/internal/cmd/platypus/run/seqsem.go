package run

// Sequence-level obligations of C02 / C03 / C04 that one evaluator step from an arbitrary valid
// state cannot see: they need a value that an EARLIER statement, iteration or run produced.
// Each program is a few lines; the expected observation trace is written down by hand from the
// language reference (it is not computed from /repo).

import (
	"time"

	"github.com/GuanceCloud/platypus/internal/verifnd"
	"github.com/GuanceCloud/platypus/pkg/ast"
	"github.com/GuanceCloud/platypus/pkg/engine"
	"github.com/GuanceCloud/platypus/pkg/engine/runtime"
	"github.com/GuanceCloud/platypus/pkg/engine/runtimev2"
	"github.com/GuanceCloud/platypus/pkg/errchain"
	"github.com/GuanceCloud/platypus/pkg/inimpl/guancecloud/input"
)

var vsqTrace []any

// host functions: probe(v) records v; bump(name, newvalue, result) assigns the variable `name`
// (a side effect of the right operand) and returns `result`.
func vsqV1Tables() (map[string]runtime.FuncCall, map[string]runtime.FuncCheck) {
	call, check := ucTables()
	ok := func(ctx *runtime.Task, e *ast.CallExpr) *errchain.PlError { return nil }
	call["probe"] = func(ctx *runtime.Task, e *ast.CallExpr) *errchain.PlError {
		v, _, err := runtime.RunStmt(ctx, e.Param[0])
		if err != nil {
			return err
		}
		vsqTrace = append(vsqTrace, vsqSnap(v))
		return nil
	}
	check["probe"] = ok
	call["bump"] = func(ctx *runtime.Task, e *ast.CallExpr) *errchain.PlError {
		nv, nt, err := runtime.RunStmt(ctx, e.Param[1])
		if err != nil {
			return err
		}
		res, rt, err := runtime.RunStmt(ctx, e.Param[2])
		if err != nil {
			return err
		}
		_ = ctx.SetVarb(e.Param[0].Identifier().Name, nv, nt)
		ctx.Regs.ReturnAppend(res, rt)
		return nil
	}
	check["bump"] = ok
	return call, check
}

func vsqV2Tables() map[string]*runtimev2.Fn {
	ok := func(ctx *runtimev2.Task, e *ast.CallExpr) *errchain.PlError { return nil }
	eval := func(ctx *runtimev2.Task, n *ast.Node, e *ast.CallExpr) (runtimev2.V, *errchain.PlError) {
		if err := runtimev2.RunExpr(ctx, n); err != nil {
			return runtimev2.V{}, err
		}
		v, rerr := ctx.Regs.GetRet()
		if rerr != nil {
			return runtimev2.V{}, runtimev2.NewRunError(ctx, rerr.Error(), e.NamePos)
		}
		ctx.Regs.Reset()
		return v, nil
	}
	return map[string]*runtimev2.Fn{
		"probe": {CallCheck: ok, Call: func(ctx *runtimev2.Task, e *ast.CallExpr) *errchain.PlError {
			v, err := eval(ctx, e.Param[0], e)
			if err != nil {
				return err
			}
			vsqTrace = append(vsqTrace, vsqSnap(v.V))
			return nil
		}},
		"bump": {CallCheck: ok, Call: func(ctx *runtimev2.Task, e *ast.CallExpr) *errchain.PlError {
			nv, err := eval(ctx, e.Param[1], e)
			if err != nil {
				return err
			}
			res, err := eval(ctx, e.Param[2], e)
			if err != nil {
				return err
			}
			ctx.SetVarb(e.Param[0].Identifier().Name, nv)
			ctx.Regs.ReturnAppend(res)
			return nil
		}},
	}
}

// vsqSnap copies a value so that later writes of the program cannot change what was observed.
func vsqSnap(v any) any {
	switch x := v.(type) {
	case []any:
		out := make([]any, len(x))
		for i := range x {
			out[i] = vsqSnap(x[i])
		}
		return out
	case map[string]any:
		out := map[string]any{}
		for k, e := range x {
			out[k] = vsqSnap(e)
		}
		return out
	}
	return v
}

func vsqSame(a, b any) bool {
	switch x := a.(type) {
	case nil:
		return b == nil
	case int64:
		y, ok := b.(int64)
		return ok && x == y
	case float64:
		y, ok := b.(float64)
		return ok && x == y
	case bool:
		y, ok := b.(bool)
		return ok && x == y
	case string:
		y, ok := b.(string)
		return ok && x == y
	case []any:
		y, ok := b.([]any)
		if !ok || len(x) != len(y) {
			return false
		}
		for i := range x {
			if !vsqSame(x[i], y[i]) {
				return false
			}
		}
		return true
	case map[string]any:
		y, ok := b.(map[string]any)
		if !ok || len(x) != len(y) {
			return false
		}
		for k, e := range x {
			f, ok := y[k]
			if !ok || !vsqSame(e, f) {
				return false
			}
		}
		return true
	}
	return false
}

type vsqProg struct {
	name   string
	text   string
	want   []any
	v2     bool // also valid for the v2 interpreter (no point keys, no undefined names)
	v2want []any
}

func i64(vs ...int64) []any {
	out := make([]any, len(vs))
	for i, v := range vs {
		out[i] = v
	}
	return out
}

var vsqProgs = []vsqProg{
	{name: "nested-list-literal-is-fresh-each-evaluation", v2: true,
		text: "for i = 0; i < 3; i = i + 1 {\n  g = [[1, 2], [3, [4]]]\n  probe(g[0][0])\n  probe(g[1][1][0])\n  g[0][0] = 99\n  g[1][1][0] = 98\n  g[-1][-1] = 5\n}\n",
		want: i64(1, 4, 1, 4, 1, 4)},
	{name: "nested-map-literal-is-fresh-each-evaluation", v2: true,
		text: "for x in [1, 2] {\n  m = {\"a\": [1, 2], \"b\": {\"c\": 3}}\n  probe(m[\"a\"][0])\n  probe(m[\"b\"][\"c\"])\n  m[\"a\"][0] = 70\n  m[\"b\"][\"c\"] = 80\n  m[\"b\"][\"new\"] = 1\n  probe(m[\"b\"][\"new\"])\n}\n",
		want: i64(1, 3, 1, 1, 3, 1)},
	{name: "literal-in-literal-shares-nothing-with-its-siblings", v2: true,
		text: "a = [[0], [0]]\na[0][0] = 1\nprobe(a[1][0])\nb = [[7]]\nc = [[7]]\nb[0][0] = 8\nprobe(c[0][0])\n",
		want: i64(0, 7)},
	{name: "alias-sees-the-write-copy-of-literal-does-not", v2: true,
		text: "a = [1, [2]]\nb = a\nb[1][0] = 5\nprobe(a[1][0])\nc = [1, [2]]\nc[1][0] = 6\nprobe(a[1][0])\n",
		want: i64(5, 5)},
	{name: "left-operand-is-read-before-the-right-operand-runs", v2: true,
		text: "x = 1\ny = x + bump(x, 10, 100)\nprobe(y)\nprobe(x)\nx = 2\nz = x * bump(x, 1.5, 3)\nprobe(z)\ns = \"a\"\nt = s + bump(s, \"zz\", \"b\")\nprobe(t)\n",
		want: []any{int64(101), int64(10), int64(6), "ab"}},
	{name: "comparison-and-membership-read-the-left-operand-first", v2: true,
		text: "x = 1\nprobe(x < bump(x, 50, 5))\nx = 1\nprobe(x == bump(x, 7, 7))\nx = 3\nprobe(x in bump(x, 9, [9]))\nx = 2\nprobe([x, bump(x, 4, 3), x])\n",
		want: []any{true, false, false, []any{int64(2), int64(3), int64(4)}}},
	{name: "for-condition-and-step-do-not-see-body-locals", v2: false,
		text: "for i = 0; i < limit; i = i + 1 {\n  limit = 1\n  probe(i)\n}\nprobe(limit)\nfor j = 0; stop == nil && j < 3; j = j + 1 {\n  stop = true\n  probe(j)\n}\n",
		want: i64(0, 1, 2, 3, 0, 1, 2)},
	{name: "body-local-of-a-counted-loop-vanishes", v2: false,
		text: "for i = 0; i < 3; i = i + 1 {\n  w = 5\n}\nprobe(w)\n",
		want: []any{nil}},
	{name: "if-block-locals-vanish-outer-variables-are-updated", v2: false,
		text: "a = 1\nif a == 1 {\n  a = 2\n  b = 3\n  if b == 3 {\n    a = 4\n    c = 5\n  }\n  probe(c)\n}\nprobe(a)\nprobe(b)\n",
		want: []any{nil, int64(4), nil}},
}

// VerifSeqSemantics: each program is loaded once and run twice (v1: on two fresh points that hold
// limit = 3; v2: two runs of the same Script), so a value cached in the syntax tree, in a pooled
// task or in a literal shows up in the second run; the ordered observation trace of every run
// must be the hand-written one.
func VerifSeqSemantics() {
	p := vsqProgs[verifnd.Choice(len(vsqProgs))]
	v2 := false
	if p.v2 {
		v2 = verifnd.Bool()
	}
	var runOnce func() *errchain.PlError
	if v2 {
		p.name = "v2:" + p.name
		s, err := engine.ParseV2("s.p", p.text, vsqV2Tables())
		verifnd.Assert(err == nil && s != nil, p.name+":program-loads")
		if err != nil || s == nil {
			return
		}
		runOnce = func() *errchain.PlError { return s.Run(nil) }
	} else {
		p.name = "v1:" + p.name
		call, check := vsqV1Tables()
		scripts, errs := engine.ParseScript(map[string]string{"s.p": p.text}, call, check)
		verifnd.Assert(errs["s.p"] == nil && scripts["s.p"] != nil, p.name+":program-loads")
		if scripts["s.p"] == nil {
			return
		}
		runOnce = func() *errchain.PlError {
			pt := &input.Point{}
			input.InitPt(pt, "m", nil, map[string]any{"limit": int64(3)}, time.Time{})
			return scripts["s.p"].Run(pt, nil)
		}
	}
	for run := 0; run < 2; run++ {
		vsqTrace = nil
		err := runOnce()
		verifnd.Assert(err == nil, p.name+":program-runs")
		verifnd.Assert(len(vsqTrace) == len(p.want), p.name+":trace-length")
		if len(vsqTrace) == len(p.want) {
			for k := range p.want {
				verifnd.Assert(vsqSame(vsqTrace[k], p.want[k]), p.name+":trace-values")
			}
		}
	}
	verifnd.Reach("ran-twice")
	if v2 {
		verifnd.Reach("v2")
	}
}

var vsqMode int64

// VerifV2RunHistory: one loaded v2 Script is run several times; a run that fails inside a block
// (or inside a loop body) after assigning top-level variables leaves nothing behind: in the next
// run a name that run never assigned is undefined (the documented v2 error), and a clean run still
// gives its own trace. Orders: fail, read / fail, clean, read / clean, fail, read / fail, fail, read.
func VerifV2RunHistory() {
	text := "m = mode()\nif m == 1 {\n  probe(v)\n}\nv = \"left over\"\nw = [1]\nz = 0\n" +
		[]string{"if m == 0 {\n  q = 1 / z\n}\n", "for i = 0; i < 2; i = i + 1 {\n  if m == 0 {\n    q = w[5]\n  }\n}\n", "for x in w {\n  if m == 0 {\n    q = 1 % z\n  }\n}\n"}[verifnd.Choice(3)] +
		"probe(\"end\")\n"
	tables := vsqV2Tables()
	tables["mode"] = &runtimev2.Fn{CallCheck: func(ctx *runtimev2.Task, e *ast.CallExpr) *errchain.PlError { return nil },
		Call: func(ctx *runtimev2.Task, e *ast.CallExpr) *errchain.PlError {
			ctx.Regs.ReturnAppend(runtimev2.V{V: vsqMode, T: ast.Int})
			return nil
		}}
	s, err := engine.ParseV2("s.p", text, tables)
	verifnd.Assert(err == nil && s != nil, "program-loads")
	if err != nil || s == nil {
		return
	}
	order := [][]int64{{0, 1}, {0, 2, 1}, {2, 0, 1}, {0, 0, 1}, {1, 0, 1, 2}}[verifnd.Choice(5)]
	for _, mode := range order {
		vsqMode = mode
		vsqTrace = nil
		rerr := s.Run(nil)
		switch mode {
		case 0:
			verifnd.Assert(rerr != nil, "history:failing-run-fails")
			verifnd.Assert(len(vsqTrace) == 0, "history:failing-run-observes-nothing")
		case 1:
			verifnd.Assert(rerr != nil, "history:undefined-name-is-an-error-after-any-history")
			verifnd.Assert(len(vsqTrace) == 0, "history:no-value-left-over-from-an-earlier-run")
		default:
			verifnd.Assert(rerr == nil, "history:clean-run-succeeds")
			verifnd.Assert(len(vsqTrace) == 1 && vsqSame(vsqTrace[0], "end"), "history:clean-run-trace")
		}
	}
	verifnd.Reach("history-ran")
}
