package run

import (
	"time"

	"github.com/GuanceCloud/platypus/internal/verifnd"
	"github.com/GuanceCloud/platypus/pkg/engine"
	"github.com/GuanceCloud/platypus/pkg/inimpl/guancecloud/funcs"
	"github.com/GuanceCloud/platypus/pkg/inimpl/guancecloud/input"
)

// VerifGrokShadow: C12 - a definition made in a nested block shadows an outer definition of
// the same name inside that block (and blocks nested in it) only: a grok before the block,
// inside it, one level deeper and after it extracts what the definition visible at that place
// says. Also: an empty subject (empty field, nil variable) is matched like any other text.
func VerifGrokShadow() {
	pick := func() bool { return verifnd.Int(0, 1) == 1 }
	redeclare, deepRedeclare := pick(), pick()
	kind := verifnd.Choice(3)
	src := "add_pattern(\"_a\", \"[a-z]+\")\ngrok(_, \"%{_a:before}\")\n"
	switch kind {
	case 0:
		src += "if true {\n"
	case 1:
		src += "if false {\n} else {\n"
	case 2:
		src += "for x in [1] {\n"
	}
	if redeclare {
		src += "add_pattern(\"_a\", \"[0-9]+\")\n"
	}
	src += "grok(_, \"%{_a:inner}\")\n"
	src += "if true {\n"
	if deepRedeclare {
		src += "add_pattern(\"_a\", \"[A-Z]+\")\n"
	}
	src += "grok(_, \"%{_a:deep}\")\n}\n"
	src += "grok(_, \"%{_a:inner2}\")\n"
	src += "}\ngrok(_, \"%{_a:after}\")\n"
	scripts, errs := engine.ParseScript(map[string]string{"s.p": src}, funcs.FuncsMap, funcs.FuncsCheckMap)
	verifnd.Assert(len(errs) == 0, "script-loads")
	if len(errs) != 0 {
		return
	}
	pt := &input.Point{}
	input.InitPt(pt, "m", nil, map[string]any{"message": "abc 123 XYZ"}, time.Time{})
	verifnd.Assert(scripts["s.p"].Run(pt, nil) == nil, "run-ok")
	verifnd.Reach("ran")
	inner := "abc"
	if redeclare {
		inner = "123"
	}
	deep := inner
	if deepRedeclare {
		deep = "XYZ"
	}
	verifnd.Assert(pt.Fields["before"] == any("abc"), "outer-definition-before-the-block")
	verifnd.Assert(pt.Fields["inner"] == any(inner), "definition-visible-inside-the-block")
	verifnd.Assert(pt.Fields["deep"] == any(deep), "definition-visible-in-the-nested-block")
	verifnd.Assert(pt.Fields["inner2"] == any(inner), "nested-redefinition-ends-with-its-block")
	verifnd.Assert(pt.Fields["after"] == any("abc"), "outer-definition-after-the-block")
}

// VerifGrokEmpty: C12 - the subject's string form is matched even when it is empty: a pattern
// that matches the empty string succeeds (returns true, captures stored), one that does not
// returns false and stores nothing.
func VerifGrokEmpty() {
	subj := verifnd.Choice(3) // empty string field, nil-valued variable, empty string variable
	matches := verifnd.Bool()
	pattern := "^%{DATA:rest}$"
	if !matches {
		pattern = "^%{WORD:rest}$"
	}
	src := ""
	arg := "f"
	switch subj {
	case 1:
		src += "v = nil\n"
		arg = "v"
	case 2:
		src += "v = \"\"\n"
		arg = "v"
	}
	src += "ok = grok(" + arg + ", \"" + pattern + "\")\nadd_key(ok, ok)\n"
	scripts, errs := engine.ParseScript(map[string]string{"s.p": src}, funcs.FuncsMap, funcs.FuncsCheckMap)
	verifnd.Assert(len(errs) == 0, "script-loads")
	if len(errs) != 0 {
		return
	}
	pt := &input.Point{}
	input.InitPt(pt, "m", nil, map[string]any{"f": "", "other": int64(1)}, time.Time{})
	verifnd.Assert(scripts["s.p"].Run(pt, nil) == nil, "run-ok")
	verifnd.Reach("ran")
	verifnd.Assert(pt.Fields["ok"] == any(matches), "grok-returns-whether-the-empty-subject-matched")
	_, has := pt.Fields["rest"]
	if matches {
		verifnd.Assert(has && pt.Fields["rest"] == any(""), "empty-capture-stored")
	} else {
		verifnd.Assert(!has, "no-match-stores-nothing")
	}
	verifnd.Assert(pt.Fields["other"] == any(int64(1)) && pt.Fields["f"] == any(""), "other-keys-unchanged")
}
