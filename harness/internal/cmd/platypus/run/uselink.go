// (The harness lives in this package because it needs both the loader of pkg/engine and the
// function tables of pkg/inimpl/guancecloud/funcs; those two import each other in their tests,
// so a harness file in either would make the other's native test build cyclic.)
package run

import (
	"strings"

	"github.com/GuanceCloud/platypus/internal/verifnd"
	"github.com/GuanceCloud/platypus/pkg/engine"
	"github.com/GuanceCloud/platypus/pkg/engine/runtime"
	"github.com/GuanceCloud/platypus/pkg/errchain"
	"github.com/GuanceCloud/platypus/pkg/inimpl/guancecloud/funcs"
)

// ---- C09 (integration part): script texts through the real loader ----
//
// The same property as harness/pkg/engine/link.go, but the set is a map of script TEXTS handed
// to engine.ParseScript with the real function tables: the parser, the checker, UseChecking
// (which records the use call sites) and the linker run together.

type vuCall struct {
	target  int // index into the set, len(set) = a name that is not in the set
	ln, col int // where the word `use` stands
}

const (
	vuValid = iota
	vuUnparsable
	vuCheckFails
)

type vuScript struct {
	name  string
	kind  int
	text  string
	calls []vuCall
}

var vuNames = []string{"a.p", "b.p", "c.p", "d.p"}

// vuBuildSet: S scripts, each unparsable, check-failing or valid with 0..CALLS use calls (first
// WIDE scripts; the others at most one) to any member or a missing name. Every call stands at
// a (line, column) no other call of the set has; the second call of a script is nested in an
// if block, the third in a for-in body.
func vuBuildSet() []*vuScript {
	n := verifnd.Param("S", 3)
	wide := verifnd.Param("WIDE", 1)
	maxCalls := verifnd.Param("CALLS", 2)
	set := make([]*vuScript, n)
	for i := range set {
		s := &vuScript{name: vuNames[i]}
		s.kind = verifnd.Choice(3)
		switch s.kind {
		case vuUnparsable:
			s.text = "x = 1\n  y = = 2\n"
		case vuCheckFails:
			// the argument of use must be a string literal; the failure is found inside the
			// argument list of another call, so the stored error has a two-entry chain
			if i%2 == 0 {
				s.text = "x = 1\n   use(7)\n"
			} else {
				s.text = "x = 1\n   y = len(use(7))\n"
			}
		default:
			mc := maxCalls
			if i >= wide && mc > 1 {
				mc = 1
			}
			nc := verifnd.Int(0, mc)
			var b strings.Builder
			b.WriteString("x = 1\n")
			ln := 2
			for j := 0; j < nc; j++ {
				t := verifnd.Choice(n + 1)
				tn := "missing.p"
				if t < n {
					tn = vuNames[t]
				}
				indent := 1 + 4*i + j
				call := strings.Repeat(" ", indent) + "use(\"" + tn + "\")\n"
				switch j {
				case 0:
					b.WriteString(call)
				case 1:
					b.WriteString("if x == 1 {\n")
					ln++
					b.WriteString(call)
					b.WriteString("}\n")
				default:
					b.WriteString("for e in [1] {\n")
					ln++
					b.WriteString(call)
					b.WriteString("}\n")
				}
				s.calls = append(s.calls, vuCall{target: t, ln: ln, col: indent + 1})
				ln++
				if j > 0 {
					ln++
				}
			}
			s.text = b.String()
		}
		set[i] = s
	}
	return set
}

// vuRefAccept: the reference verdict (see vlRefAccept in harness/pkg/engine/link.go).
func vuRefAccept(set []*vuScript, s int, onChain []bool) bool {
	if s >= len(set) || set[s].kind != vuValid || onChain[s] {
		return false
	}
	onChain[s] = true
	ok := true
	for _, c := range set[s].calls {
		if !vuRefAccept(set, c.target, onChain) {
			ok = false
		}
	}
	onChain[s] = false
	return ok
}

func vuFindCall(s *vuScript, p errchain.Position) *vuCall {
	if s.kind != vuValid || p.File != s.name {
		return nil
	}
	for k := range s.calls {
		if p.Ln == s.calls[k].ln && p.Col == s.calls[k].col {
			return &s.calls[k]
		}
	}
	return nil
}

func vuIsSomeCallSite(set []*vuScript, p errchain.Position) bool {
	for _, s := range set {
		if vuFindCall(s, p) != nil {
			return true
		}
	}
	return false
}

// vuCheckChain: see vlCheckChain in harness/pkg/engine/link.go. The root cause of a failed
// callee is the error the loader reports for that callee itself.
func vuCheckChain(set []*vuScript, s int, err error, errs map[string]error) (isPl, sites, root bool) {
	e, ok := err.(*errchain.PlError)
	if !ok || e == nil {
		return false, true, true
	}
	chain := e.PosChain
	onChain := make([]bool, len(set))
	cur := s
	for i := len(chain) - 1; i >= 0; i-- {
		onChain[cur] = true
		c := vuFindCall(set[cur], chain[i])
		if c == nil {
			return true, false, true
		}
		t := c.target
		switch {
		case t >= len(set) || onChain[t]:
			switch i {
			case 0:
				return true, true, true
			case 1:
				return true, true, vuIsSomeCallSite(set, chain[0])
			}
			return true, true, false
		case set[t].kind != vuValid:
			own, ok := errs[set[t].name].(*errchain.PlError)
			if !ok || own == nil || len(own.PosChain) != i || own.Err != e.Err {
				return true, true, false
			}
			for k := range own.PosChain {
				if own.PosChain[k] != chain[k] {
					return true, true, false
				}
			}
			return true, true, true
		}
		cur = t
	}
	return true, false, true
}

// VerifUseLinkParsed: script sets as texts through engine.ParseScript; the visiting orders are
// produced through the insertion order of the valid scripts (every permutation; the engine
// iterates maps in insertion order and the loader copies that order into the map it links).
func VerifUseLinkParsed() {
	set := vuBuildSet()
	n := len(set)
	want := make([]bool, n)
	var valid []int
	scripts := map[string]string{}
	for i, s := range set {
		if s.kind != vuValid {
			verifnd.Reach("script-failed")
			scripts[s.name] = s.text
			continue
		}
		valid = append(valid, i)
		want[i] = vuRefAccept(set, i, make([]bool, n))
		if want[i] {
			verifnd.Reach("ref-accepts")
			if len(s.calls) > 0 {
				verifnd.Reach("accepted-with-calls")
			}
			if len(s.calls) > 1 {
				verifnd.Reach("accepted-nested-call")
			}
		} else {
			verifnd.Reach("ref-rejects")
			for _, c := range s.calls {
				if c.target < n && set[c.target].kind != vuValid {
					verifnd.Reach("rejected-calls-failed-script")
				}
			}
		}
	}
	for a := 0; a+1 < len(valid); a++ {
		b := verifnd.Int(a, len(valid)-1)
		valid[a], valid[b] = valid[b], valid[a]
	}
	for _, i := range valid {
		scripts[set[i].name] = set[i].text
	}

	oks, errs := engine.ParseScript(scripts, funcs.FuncsMap, funcs.FuncsCheckMap)

	for i, s := range set {
		got, accepted := oks[s.name]
		err, rejected := errs[s.name]
		rejected = rejected && err != nil
		switch {
		case s.kind != vuValid:
			pe, isPl := err.(*errchain.PlError)
			verifnd.Assert(!accepted && rejected && isPl && len(pe.PosChain) >= 1 && pe.PosChain[0].File == s.name,
				"failed-script-rejected-at-own-position")
		case want[i]:
			verifnd.Assert(accepted && got != nil && !rejected, "linkable-script-accepted")
			bound := true
			if accepted && got != nil {
				// the checker recorded exactly the use calls of the text, in source order
				if len(got.CallRef) != len(s.calls) {
					bound = false
				} else {
					for k, c := range s.calls {
						ce := got.CallRef[k]
						p, ok := ce.PrivateData.(*runtime.Script)
						if ce.NamePos.Ln != c.ln || ce.NamePos.Col != c.col || !ok || p == nil || p != oks[set[c.target].name] {
							bound = false
						}
					}
				}
			}
			verifnd.Assert(bound, "accepted-use-call-bound")
		default:
			verifnd.Assert(rejected && !accepted, "unlinkable-script-rejected")
			isPl, sites, root := true, true, true
			if rejected {
				isPl, sites, root = vuCheckChain(set, i, err, errs)
			}
			verifnd.Assert(isPl, "rejection-is-position-chain")
			verifnd.Assert(sites, "chain-ends-with-use-call-sites")
			verifnd.Assert(root, "chain-starts-with-root-cause")
		}
	}
}
