package run

// C13 - use() shares the point but not variables; exit() ends only its own script.
//
// Two or three scripts (main.p -> mid.p -> leaf.p, main.p -> leaf.p) are GENERATED as small
// statement trees (uc* model below), rendered to text (so that every position is real),
// loaded through engine.ParseScript with a copy of the real function tables (parser, checker,
// UseChecking, linker binding CallExpr.PrivateData) and run with Script.Run on a real
// *input.Point. The same statement trees are interpreted by the reference ucRef, written from
// the property statement: a call runs the callee's statements in order on the SAME point model
// with a FRESH EMPTY variable frame and then resumes the caller; an error unwinds every frame
// and collects [position of the failing operator, use call site, outer use call site ...];
// exit() unwinds exactly one frame. Compared: ordered probe trace (script, id, value), the
// error's PosChain, the final point.
//
// Both sides use the same names: a and b are variables and/or point keys in every script, the
// loop counters are i1/i2 in every script.

import (
	"strings"
	"time"

	"github.com/GuanceCloud/platypus/internal/verifnd"
	"github.com/GuanceCloud/platypus/pkg/ast"
	"github.com/GuanceCloud/platypus/pkg/engine"
	"github.com/GuanceCloud/platypus/pkg/engine/runtime"
	"github.com/GuanceCloud/platypus/pkg/errchain"
	"github.com/GuanceCloud/platypus/pkg/inimpl/guancecloud/funcs"
	"github.com/GuanceCloud/platypus/pkg/inimpl/guancecloud/input"
)

const (
	ucSet       = iota // x = <lit>
	ucInc              // x = x + 1            (run-time error when x reads nil)
	ucDiv              // x = 10 / d           (run-time error when the point key d is 0)
	ucAddKey           // add_key(x, <lit>)    (writes the point)
	ucAddKeyVar        // add_key(x)           (copies what x reads as into the point)
	ucProbe            // probe(<id>, x)
	ucIf               // if <name> == <lit|nil> { } [else { }]
	ucFor              // for iD = 0; iD < <lit|n>; iD = iD + 1 { }
	ucUse              // use("<callee>")
	ucExit             // exit()
)

type ucStmt struct {
	kind    int
	name    string // variable / key the statement is about (condition operand for ucIf)
	name2   string // ucProbe: optional second name observed by the same call
	lit     int64
	isNil   bool // ucIf: compare with nil instead of lit
	id      int  // ucProbe
	callee  int  // ucUse
	bound   int  // ucFor: literal bound, -1 = the point key n
	ivar    string
	body    []*ucStmt
	els     []*ucStmt
	hasElse bool
	// filled by the renderer: where an error raised by this statement / its call site is reported
	ln, col, off int
}

type ucScript struct {
	name string
	body []*ucStmt
	text string
}

var ucScriptNames = []string{"main.p", "mid.p", "leaf.p"}
var ucVarNames = []string{"a", "b"}

// ---- seeded generator ----

type ucGen struct {
	s        uint32
	nid      int
	nscripts int
	maxDepth int
	maxBlock int
	isKey    map[string]bool // names that are point keys from the start (never nil anywhere)
	known    map[string]bool // names the current script has surely defined (top-level assignment seen)
}

func (g *ucGen) rnd(n int) int {
	g.s = g.s*1664525 + 1013904223
	return int((g.s >> 16) % uint32(n))
}

func (g *ucGen) id() int { g.nid++; return g.nid }

func (g *ucGen) nm() string { return ucVarNames[g.rnd(2)] }

func (g *ucGen) probes() []*ucStmt {
	return []*ucStmt{{kind: ucProbe, id: g.id(), name: "a", name2: "b"}}
}

// callee picks a script the script si may call (-1: none): main calls mid or leaf, mid calls leaf.
func (g *ucGen) calleeOf(si int) int {
	last := g.nscripts - 1
	if si >= last {
		return -1
	}
	if si == 0 && g.nscripts == 3 && g.rnd(3) == 0 {
		return 2
	}
	return si + 1
}

func (g *ucGen) block(si, depth int) []*ucStmt {
	out := []*ucStmt{}
	n := 1 + g.rnd(g.maxBlock)
	for i := 0; i < n; i++ {
		out = append(out, g.stmt(si, depth)...)
	}
	return out
}

func (g *ucGen) use(si int) []*ucStmt {
	c := g.calleeOf(si)
	if c < 0 {
		return []*ucStmt{{kind: ucProbe, id: g.id(), name: g.nm()}}
	}
	// the caller looks at both names right after the call
	return append([]*ucStmt{{kind: ucUse, callee: c}}, g.probes()...)
}

func (g *ucGen) stmt(si, depth int) []*ucStmt {
	k := g.rnd(100)
	if depth >= g.maxDepth && k >= 65 {
		k = g.rnd(65)
	}
	switch {
	case k < 10:
		nm := g.nm()
		if depth == 0 {
			g.known[nm] = true
		}
		return []*ucStmt{{kind: ucSet, name: nm, lit: int64(10*(si+1) + g.rnd(5))}}
	case k < 18:
		// mostly on names that surely read as an integer here; every other time on any name
		// (a name only the OTHER script defined reads nil: the increment must fail)
		nm := g.nm()
		if !g.isKey[nm] && !g.known[nm] && g.rnd(2) != 0 {
			return []*ucStmt{{kind: ucProbe, id: g.id(), name: nm}}
		}
		return []*ucStmt{{kind: ucInc, name: nm}}
	case k < 28:
		return []*ucStmt{{kind: ucAddKey, name: g.nm(), lit: int64(100*(si+1) + g.rnd(5))}}
	case k < 33:
		return []*ucStmt{{kind: ucAddKeyVar, name: g.nm()}}
	case k < 48:
		return []*ucStmt{{kind: ucProbe, id: g.id(), name: g.nm()}}
	case k < 65:
		return g.use(si)
	case k < 82:
		s := &ucStmt{kind: ucIf}
		switch g.rnd(3) {
		case 0:
			s.name, s.lit = "t", 1
		case 1:
			s.name, s.isNil = g.nm(), true
		default:
			s.name, s.lit = g.nm(), int64(10*(si+1)+g.rnd(2))
		}
		s.body = g.block(si, depth+1)
		if g.rnd(2) == 0 {
			s.hasElse = true
			s.els = g.block(si, depth+1)
		}
		return []*ucStmt{s}
	default:
		s := &ucStmt{kind: ucFor, ivar: "i" + string(rune('1'+depth))}
		if g.rnd(2) == 0 {
			s.bound = -1
		} else {
			s.bound = 1 + g.rnd(2)
		}
		s.body = g.block(si, depth+1)
		return []*ucStmt{s}
	}
}

func (g *ucGen) script(si int) *ucScript {
	sc := &ucScript{name: ucScriptNames[si]}
	if g.nscripts == 2 && si == 1 {
		sc.name = ucScriptNames[2]
	}
	g.known = map[string]bool{}
	body := g.probes() // what the fresh frame reads first
	if si < g.nscripts-1 {
		// a guaranteed call framed by same-named definitions
		nm := g.nm()
		g.known[nm] = true
		body = append(body, &ucStmt{kind: ucSet, name: nm, lit: int64(10*(si+1) + 7)})
		body = append(body, g.block(si, 0)...)
		body = append(body, g.use(si)...)
	}
	body = append(body, g.block(si, 0)...)
	body = append(body, g.probes()...)
	sc.body = body
	return sc
}

// ---- insertion slots: every statement position of every block of every script ----

type ucSlot struct {
	blk *[]*ucStmt
	at  int
	si  int
	in  int // 0 top level, 1 inside a branch, 2 inside a loop (innermost construct)
}

func ucSlots(si int, blk *[]*ucStmt, in int, out []ucSlot) []ucSlot {
	for i := 0; i <= len(*blk); i++ {
		out = append(out, ucSlot{blk, i, si, in})
	}
	for _, s := range *blk {
		switch s.kind {
		case ucIf:
			out = ucSlots(si, &s.body, 1, out)
			if s.hasElse {
				out = ucSlots(si, &s.els, 1, out)
			}
		case ucFor:
			out = ucSlots(si, &s.body, 2, out)
		}
	}
	return out
}

func ucInsert(sl ucSlot, s *ucStmt) {
	b := *sl.blk
	nb := make([]*ucStmt, 0, len(b)+1)
	nb = append(nb, b[:sl.at]...)
	nb = append(nb, s)
	nb = append(nb, b[sl.at:]...)
	*sl.blk = nb
}

// ---- renderer: one statement per line; positions computed here, not read back from the parser ----

type ucText struct {
	b   strings.Builder
	ln  int // number of the line being written (1-based)
	off int // byte offset of its first character
}

func ucItoa(n int64) string {
	if n == 0 {
		return "0"
	}
	neg := n < 0
	if neg {
		n = -n
	}
	s := ""
	for n > 0 {
		s = string(rune('0'+n%10)) + s
		n /= 10
	}
	if neg {
		s = "-" + s
	}
	return s
}

// line writes one line and returns (ln, offset of the first non-blank character).
func (t *ucText) line(indent int, s string) (int, int) {
	l := strings.Repeat(" ", indent) + s + "\n"
	t.b.WriteString(l)
	ln, off := t.ln, t.off+indent
	t.ln++
	t.off += len(l)
	return ln, off
}

func (t *ucText) block(scripts []*ucScript, si, depth int, blk []*ucStmt) {
	ind := 2*depth + si
	for _, s := range blk {
		switch s.kind {
		case ucSet:
			t.line(ind, s.name+" = "+ucItoa(s.lit))
		case ucInc:
			ln, off := t.line(ind, s.name+" = "+s.name+" + 1")
			k := len(s.name + " = " + s.name + " ") // the operator
			s.ln, s.col, s.off = ln, ind+k+1, off+k
		case ucDiv:
			ln, off := t.line(ind, s.name+" = 10 / d")
			k := len(s.name + " = 10 ")
			s.ln, s.col, s.off = ln, ind+k+1, off+k
		case ucAddKey:
			t.line(ind, "add_key("+s.name+", "+ucItoa(s.lit)+")")
		case ucAddKeyVar:
			t.line(ind, "add_key("+s.name+")")
		case ucProbe:
			if s.name2 != "" {
				t.line(ind, "probe("+ucItoa(int64(s.id))+", "+s.name+", "+s.name2+")")
			} else {
				t.line(ind, "probe("+ucItoa(int64(s.id))+", "+s.name+")")
			}
		case ucUse:
			ln, off := t.line(ind, "use(\""+scripts[s.callee].name+"\")")
			s.ln, s.col, s.off = ln, ind+1, off
		case ucExit:
			t.line(ind, "exit()")
		case ucIf:
			rhs := ucItoa(s.lit)
			if s.isNil {
				rhs = "nil"
			}
			t.line(ind, "if "+s.name+" == "+rhs+" {")
			t.block(scripts, si, depth+1, s.body)
			if s.hasElse {
				t.line(ind, "} else {")
				t.block(scripts, si, depth+1, s.els)
			}
			t.line(ind, "}")
		case ucFor:
			bound := "n"
			if s.bound >= 0 {
				bound = ucItoa(int64(s.bound))
			}
			t.line(ind, "for "+s.ivar+" = 0; "+s.ivar+" < "+bound+"; "+s.ivar+" = "+s.ivar+" + 1 {")
			t.block(scripts, si, depth+1, s.body)
			t.line(ind, "}")
		}
	}
}

func ucRender(scripts []*ucScript) {
	for si, sc := range scripts {
		t := &ucText{ln: 1}
		t.line(0, "# "+sc.name)
		t.block(scripts, si, 0, sc.body)
		sc.text = t.b.String()
	}
}

// ---- observation ----

type ucEv struct {
	script string
	id     int
	v      any
	t      ast.DType
}

var ucTrace []ucEv

// ucDebug, when set (native debugging only), sees every world after its real run.
var ucDebug func(w *ucWorld, err *errchain.PlError)

func ucProbeCall(ctx *runtime.Task, e *ast.CallExpr) *errchain.PlError {
	for _, p := range e.Param[1:] {
		v, t, err := runtime.RunStmt(ctx, p)
		if err != nil {
			return err
		}
		ucTrace = append(ucTrace, ucEv{ctx.Name(), int(e.Param[0].IntegerLiteral().Val), v, t})
	}
	return nil
}

func ucProbeCheck(ctx *runtime.Task, e *ast.CallExpr) *errchain.PlError {
	if len(e.Param) < 2 || e.Param[0].NodeType != ast.TypeIntegerLiteral {
		return runtime.NewRunError(ctx, "probe(id, expr)", e.NamePos)
	}
	return nil
}

// ucTables: copies of the real function tables plus the probe.
func ucTables() (map[string]runtime.FuncCall, map[string]runtime.FuncCheck) {
	call := map[string]runtime.FuncCall{}
	for k, v := range funcs.FuncsMap {
		call[k] = v
	}
	check := map[string]runtime.FuncCheck{}
	for k, v := range funcs.FuncsCheckMap {
		check[k] = v
	}
	call["probe"] = ucProbeCall
	check["probe"] = ucProbeCheck
	return call, check
}

// ---- reference interpreter with call frames ----

type ucVar struct {
	name string
	v    any // nil or int64
}

type ucPos struct {
	file         string
	ln, col, off int
}

const (
	ucOK = iota
	ucSigExit
	ucSigErr
)

type ucRef struct {
	scripts []*ucScript
	pt      []ucVar // the point: key -> value; shared by every frame
	trace   []ucEv
	chain   []ucPos
	steps   int

	maxFrames       int
	exits           int
	exitInCallee    bool
	resumedAfterUse bool
	exitExecuted    *ucStmt // the exit() that was executed first
	failed          *ucStmt // the statement that raised the error
	calleeSawCaller bool    // a name defined as a variable in the caller was read in the callee
	callerSawCallee bool    // a name a finished callee had defined as a variable was read afterwards
	deadDefs        []string
	calls           [3]int
}

// frame: the variables of ONE running script (list of block scopes).
type ucFrame struct {
	si     int
	scopes [][]ucVar
	caller *ucFrame
}

func (f *ucFrame) find(name string) *ucVar {
	for i := len(f.scopes) - 1; i >= 0; i-- {
		for j := range f.scopes[i] {
			if f.scopes[i][j].name == name {
				return &f.scopes[i][j]
			}
		}
	}
	return nil
}

func (f *ucFrame) push() { f.scopes = append(f.scopes, nil) }
func (f *ucFrame) pop()  { f.scopes = f.scopes[:len(f.scopes)-1] }

func (f *ucFrame) assign(name string, v any) {
	if p := f.find(name); p != nil {
		p.v = v
		return
	}
	top := len(f.scopes) - 1
	f.scopes[top] = append(f.scopes[top], ucVar{name, v})
}

func (r *ucRef) key(name string) *ucVar {
	for i := range r.pt {
		if r.pt[i].name == name {
			return &r.pt[i]
		}
	}
	return nil
}

func (r *ucRef) setKey(name string, v any) {
	if p := r.key(name); p != nil {
		p.v = v
		return
	}
	r.pt = append(r.pt, ucVar{name, v})
}

// read: a variable of THIS frame, else the point key, else nil.
func (r *ucRef) read(f *ucFrame, name string) (any, bool) {
	if p := f.find(name); p != nil {
		return p.v, true
	}
	if f.caller != nil && f.caller.find(name) != nil {
		r.calleeSawCaller = true // the caller has such a variable: it must stay invisible here
	}
	for _, d := range r.deadDefs {
		if d == name {
			r.callerSawCallee = true // a callee's variable of that name died with its frame
		}
	}
	if p := r.key(name); p != nil {
		return p.v, true
	}
	return nil, false
}

func (r *ucRef) fail(f *ucFrame, s *ucStmt) int {
	r.failed = s
	r.chain = []ucPos{{r.scripts[f.si].name, s.ln, s.col, s.off}}
	return ucSigErr
}

func (r *ucRef) runScript(si int, caller *ucFrame) int {
	f := &ucFrame{si: si, scopes: [][]ucVar{nil}, caller: caller} // fresh, empty
	depth := 1
	for c := caller; c != nil; c = c.caller {
		depth++
	}
	if depth > r.maxFrames {
		r.maxFrames = depth
	}
	r.calls[si]++
	sig := r.block(f, r.scripts[si].body)
	if caller != nil {
		for _, v := range f.scopes[0] {
			r.deadDefs = append(r.deadDefs, v.name)
		}
	}
	if sig == ucSigExit {
		// exit() ended this script only
		r.exits++
		if caller != nil {
			r.exitInCallee = true
		}
		return ucOK
	}
	return sig
}

func (r *ucRef) block(f *ucFrame, blk []*ucStmt) int {
	for _, s := range blk {
		if sig := r.exec(f, s); sig != ucOK {
			return sig
		}
	}
	return ucOK
}

func (r *ucRef) scoped(f *ucFrame, blk []*ucStmt) int {
	f.push()
	sig := r.block(f, blk)
	f.pop()
	return sig
}

func (r *ucRef) exec(f *ucFrame, s *ucStmt) int {
	r.steps++
	if r.steps > 4000 {
		panic("ucRef: runaway reference")
	}
	switch s.kind {
	case ucSet:
		f.assign(s.name, s.lit)
	case ucInc:
		v, _ := r.read(f, s.name)
		x, ok := v.(int64)
		if !ok {
			return r.fail(f, s) // nil + 1
		}
		f.assign(s.name, x+1)
	case ucDiv:
		d, _ := r.read(f, "d")
		x := d.(int64)
		if x == 0 {
			return r.fail(f, s)
		}
		f.assign(s.name, 10/x)
	case ucAddKey:
		r.setKey(s.name, s.lit)
	case ucAddKeyVar:
		if v, ok := r.read(f, s.name); ok {
			r.setKey(s.name, v)
		}
	case ucProbe:
		for _, nm := range []string{s.name, s.name2} {
			if nm == "" {
				continue
			}
			v, _ := r.read(f, nm)
			t := ast.Nil
			if v != nil {
				t = ast.Int
			}
			r.trace = append(r.trace, ucEv{r.scripts[f.si].name, s.id, v, t})
		}
	case ucIf:
		v, _ := r.read(f, s.name)
		var c bool
		if s.isNil {
			c = v == nil
		} else if x, ok := v.(int64); ok {
			c = x == s.lit
		}
		if c {
			return r.scoped(f, s.body)
		}
		if s.hasElse {
			return r.scoped(f, s.els)
		}
	case ucFor:
		f.push() // header scope holding the counter
		sig := ucOK
		for i := int64(0); ; i++ {
			lim := int64(s.bound)
			if s.bound < 0 {
				n, _ := r.read(f, "n")
				lim = n.(int64)
			}
			if !(i < lim) {
				break
			}
			f.assign(s.ivar, i)
			if sig = r.scoped(f, s.body); sig != ucOK {
				break
			}
		}
		f.pop()
		return sig
	case ucUse:
		sig := r.runScript(s.callee, f)
		if sig == ucSigErr {
			// the callee's error aborts this script too; its call site is appended
			r.chain = append(r.chain, ucPos{r.scripts[f.si].name, s.ln, s.col, s.off})
			return ucSigErr
		}
		r.resumedAfterUse = true
	case ucExit:
		if r.exitExecuted == nil {
			r.exitExecuted = s
		}
		return ucSigExit
	}
	return ucOK
}

func ucSameVal(a, b any) bool {
	x, ok1 := a.(int64)
	y, ok2 := b.(int64)
	if ok1 && ok2 {
		return x == y
	}
	return a == nil && b == nil
}

// ---- driver ----

// ucWorld: generated scripts + initial point.
type ucWorld struct {
	scripts  []*ucScript
	keys     []ucVar // initial point keys, in insertion order
	placed   *ucStmt // the exit() / failing statement put at the symbolic position
	placedIn string
}

func (w *ucWorld) runAndCompare() {
	ucRender(w.scripts)
	texts := map[string]string{}
	for _, sc := range w.scripts {
		texts[sc.name] = sc.text
	}
	call, check := ucTables()
	oks, errs := engine.ParseScript(texts, call, check)
	verifnd.Assert(len(errs) == 0 && len(oks) == len(w.scripts), "loader-accepts-generated-scripts")
	main := oks[w.scripts[0].name]
	if main == nil {
		return
	}

	fields := map[string]any{}
	for _, k := range w.keys {
		fields[k.name] = k.v
	}
	pt := input.InitPt(&input.Point{}, "m", nil, fields, time.Time{})

	ucTrace = nil
	// a cancellation signal that never fires must not change anything (the host passes one
	// in production; nil is only what tests pass)
	var idle runtime.Signal
	if verifnd.Bool() {
		idle = vuNever{}
		verifnd.Reach("with-idle-signal")
	}
	err := main.Run(pt, idle)
	if ucDebug != nil {
		ucDebug(w, err)
	}

	r := &ucRef{scripts: w.scripts, pt: append([]ucVar{}, w.keys...)}
	sig := r.runScript(0, nil)

	// (1) effects in order: the probe trace
	verifnd.Assert(len(ucTrace) == len(r.trace), "trace-length")
	n := len(ucTrace)
	if len(r.trace) < n {
		n = len(r.trace)
	}
	same := true
	for i := 0; i < n; i++ {
		g, e := ucTrace[i], r.trace[i]
		if g.script != e.script || g.id != e.id {
			verifnd.Assert(false, "trace-order")
			return
		}
		same = verifnd.And(same, g.t == e.t, ucSameVal(g.v, e.v))
	}
	verifnd.Assert(same, "trace-values")

	// (2) error iff the reference fails; positions: callee first, then every use call site
	verifnd.Assert((err != nil) == (sig == ucSigErr), "error-iff-reference-error")
	if err != nil && sig == ucSigErr {
		verifnd.Assert(len(err.PosChain) == len(r.chain), "chain-length")
		if len(err.PosChain) == len(r.chain) {
			for i, p := range err.PosChain {
				e := r.chain[i]
				verifnd.Assert(p.File == e.file, "chain-file")
				verifnd.Assert(p.Ln == e.ln && p.Col == e.col && p.Pos == e.off, "chain-position")
			}
		}
		verifnd.Reach("run-error")
		switch len(r.chain) {
		case 1:
			verifnd.Reach("error-in-main")
		case 2:
			verifnd.Reach("error-chain-2")
		case 3:
			verifnd.Reach("error-chain-3")
		}
	}

	// (3) the point afterwards
	for _, nm := range []string{"a", "b", "n", "d", "t"} {
		v, t, gerr := pt.Get(nm)
		if p := r.key(nm); p != nil {
			verifnd.Assert(gerr == nil && t == ast.Int && ucSameVal(v, p.v), "final-point-key")
		} else {
			verifnd.Assert(gerr != nil, "final-point-key-absent")
		}
	}

	if w.placed != nil && r.exitExecuted == w.placed {
		verifnd.Reach("exit-executed-" + w.placedIn)
	}
	if w.placed != nil && r.failed == w.placed {
		verifnd.Reach("fail-executed-" + w.placedIn)
	}
	if r.failed != nil && r.failed.kind == ucInc {
		verifnd.Reach("nil-operand-error")
	}
	if r.maxFrames >= 2 {
		verifnd.Reach("callee-ran")
	}
	if r.maxFrames >= 3 {
		verifnd.Reach("depth-3-call")
	}
	if r.resumedAfterUse {
		verifnd.Reach("caller-resumed")
	}
	if r.calleeSawCaller {
		verifnd.Reach("callee-reads-name-the-caller-defined")
	}
	if r.callerSawCallee {
		verifnd.Reach("name-a-finished-callee-defined-read-later")
	}
	if r.calls[1] > 1 || r.calls[2] > 1 {
		verifnd.Reach("callee-called-again")
	}
	if r.exits > 0 {
		verifnd.Reach("exit-taken")
	}
	if r.exitInCallee && sig == ucOK {
		verifnd.Reach("exit-in-callee-caller-continues")
	}
}

// ucPlace puts exit() or the failing statement at a symbolic statement position.
func (w *ucWorld) place() {
	var slots []ucSlot
	for si, sc := range w.scripts {
		slots = ucSlots(si, &sc.body, 0, slots)
	}
	what := verifnd.Param("PLACE", 3) // bit 0: exit(), bit 1: failing statement
	kinds := []int{}
	if what&1 != 0 {
		kinds = append(kinds, ucExit)
	}
	if what&2 != 0 {
		kinds = append(kinds, ucDiv)
	}
	c := verifnd.Choice(1 + len(kinds)*len(slots))
	if c == 0 {
		verifnd.Reach("nothing-placed")
		return
	}
	c--
	kind := kinds[c/len(slots)]
	sl := slots[c%len(slots)]
	w.placed = &ucStmt{kind: kind, name: "a"}
	ucInsert(sl, w.placed)
	where := []string{"top-level", "in-branch", "in-loop"}[sl.in]
	w.placedIn = where
	if kind == ucExit {
		verifnd.Reach("exit-placed-" + where)
	} else {
		verifnd.Reach("fail-placed-" + where)
	}
	if sl.si > 0 {
		verifnd.Reach("placed-in-callee")
	}
}

func ucSmall(lo, hi int64) int64 {
	v := verifnd.Int64()
	verifnd.Assume(verifnd.And(v >= lo, v <= hi))
	return v
}

// VerifUseFamily: seeded call trees x exit()/failing statement at every statement position x
// symbolic point (a, b any integer or absent; loop bound n in 0..2; branch key t in 0..1;
// divisor d in 0..1).
func VerifUseFamily() {
	NS := verifnd.Param("NS", 4)
	seed := verifnd.Param("SEED0", 0) + verifnd.Choice(NS)
	g := &ucGen{s: uint32(seed)*2654435761 + 977, maxDepth: verifnd.Param("DEPTH", 2), maxBlock: verifnd.Param("BLOCK", 2)}
	g.nscripts = 3
	if seed%4 == 3 {
		g.nscripts = 2
	}
	g.isKey = map[string]bool{"a": seed%2 == 0, "b": seed%3 != 1}
	w := &ucWorld{}
	for si := 0; si < g.nscripts; si++ {
		w.scripts = append(w.scripts, g.script(si))
	}
	w.place()
	if seed%2 == 0 {
		w.keys = append(w.keys, ucVar{"a", verifnd.Int64()})
	}
	if seed%3 != 1 {
		w.keys = append(w.keys, ucVar{"b", verifnd.Int64()})
	}
	w.keys = append(w.keys, ucVar{"n", ucSmall(0, 2)}, ucVar{"d", ucSmall(0, 1)}, ucVar{"t", ucSmall(0, 1)})
	w.runAndCompare()
}

// ---- hand-written scenarios (same machinery): the cases the property statement names ----

func ucP(id int, names ...string) *ucStmt {
	s := &ucStmt{kind: ucProbe, id: id, name: names[0]}
	if len(names) > 1 {
		s.name2 = names[1]
	}
	return s
}
func ucS(name string, lit int64) *ucStmt { return &ucStmt{kind: ucSet, name: name, lit: lit} }
func ucU(callee int) *ucStmt             { return &ucStmt{kind: ucUse, callee: callee} }
func ucLoop(ivar string, bound int, body ...*ucStmt) *ucStmt {
	return &ucStmt{kind: ucFor, ivar: ivar, bound: bound, body: body}
}

// VerifUseScenarios: five fixed call trees x point key a present / absent x symbolic n, t, d.
func VerifUseScenarios() {
	w := &ucWorld{}
	mk := func(names []string, bodies ...[]*ucStmt) {
		for i, b := range bodies {
			w.scripts = append(w.scripts, &ucScript{name: names[i], body: b})
		}
	}
	three := ucScriptNames
	two := []string{"main.p", "leaf.p"}
	switch verifnd.Choice(5) {
	case 0:
		// the callee increments a name only the caller has defined: it reads the point key or nil
		verifnd.Reach("scenario:increment-of-callers-variable")
		mk(two,
			[]*ucStmt{ucP(1, "a", "b"), ucS("a", 17), ucS("b", 18), ucU(1), ucP(2, "a", "b")},
			[]*ucStmt{ucP(3, "a", "b"), {kind: ucInc, name: "a"}, ucP(4, "a", "b"), {kind: ucAddKeyVar, name: "a"}, ucS("b", 38)})
	case 1:
		// the callee's variables die with it: the caller's later increment reads key or nil
		verifnd.Reach("scenario:callee-variable-dies")
		mk(two,
			[]*ucStmt{ucP(1, "a", "b"), ucU(1), ucP(2, "a", "b"), {kind: ucInc, name: "a"}, ucP(3, "a", "b"), ucU(1), ucP(4, "a", "b")},
			[]*ucStmt{ucP(5, "a", "b"), ucS("a", 31), ucS("b", 32), ucP(6, "a", "b")})
	case 2:
		// same-named loop counters on all three levels
		verifnd.Reach("scenario:loop-counters")
		mk(three,
			[]*ucStmt{ucLoop("i1", 2, ucU(1), ucP(1, "i1", "a")), ucP(2, "i1")},
			[]*ucStmt{ucP(3, "i1"), ucLoop("i1", -1, ucU(2), ucP(4, "i1", "a")), ucP(5, "i1")},
			[]*ucStmt{ucP(6, "i1"), ucLoop("i1", 2, ucP(7, "i1"), &ucStmt{kind: ucAddKey, name: "a", lit: 300}), {kind: ucInc, name: "a"}, {kind: ucAddKeyVar, name: "a"}})
	case 3:
		// exit() in a loop of the leaf, exit() in mid, the callers go on
		verifnd.Reach("scenario:exit-in-chain")
		mk(three,
			[]*ucStmt{ucLoop("i1", 2, ucU(1), ucP(1, "a", "b")), ucP(2, "a", "b")},
			[]*ucStmt{ucS("b", 21), ucU(2), ucP(3, "a", "b"), {kind: ucExit}, ucP(4, "a", "b")},
			[]*ucStmt{ucLoop("i1", -1, ucP(5, "i1", "a"),
				&ucStmt{kind: ucIf, name: "t", lit: 1, body: []*ucStmt{{kind: ucExit}}},
				&ucStmt{kind: ucAddKey, name: "a", lit: 300}, ucS("b", 31)), ucP(6, "a", "b")})
	default:
		// an error three frames deep, inside a loop inside a branch, reached through a loop and a branch
		verifnd.Reach("scenario:error-three-frames-deep")
		mk(three,
			[]*ucStmt{ucS("a", 17), {kind: ucIf, name: "t", lit: 1, body: []*ucStmt{ucU(1)}, hasElse: true, els: []*ucStmt{ucU(2)}}, ucP(1, "a", "b")},
			[]*ucStmt{ucLoop("i1", 2, ucU(2), ucP(2, "a", "b"))},
			[]*ucStmt{ucP(3, "a", "b"), {kind: ucIf, name: "a", isNil: true, body: []*ucStmt{ucLoop("i1", -1, &ucStmt{kind: ucDiv, name: "a"}, ucP(4, "a"))},
				hasElse: true, els: []*ucStmt{{kind: ucDiv, name: "b"}}}, ucP(5, "a", "b")})
	}
	if verifnd.Bool() {
		verifnd.Reach("key-a-present")
		w.keys = append(w.keys, ucVar{"a", verifnd.Int64()})
	} else {
		verifnd.Reach("key-a-absent")
	}
	w.keys = append(w.keys, ucVar{"n", ucSmall(0, 2)}, ucVar{"d", ucSmall(0, 1)}, ucVar{"t", ucSmall(0, 1)})
	w.runAndCompare()
}

// vuNever: a cancellation signal that never fires.
type vuNever struct{}

func (vuNever) ExitSignal() bool { return false }
