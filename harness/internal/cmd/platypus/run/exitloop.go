package run

import (
	"time"

	"github.com/GuanceCloud/platypus/internal/verifnd"
	"github.com/GuanceCloud/platypus/pkg/engine"
	"github.com/GuanceCloud/platypus/pkg/inimpl/guancecloud/funcs"
	"github.com/GuanceCloud/platypus/pkg/inimpl/guancecloud/input"
)

// VerifExitInLoop: C13 - after exit() no later statement of the script that called it has any
// effect: not the rest of the loop body, not the loop's post clause (made observable here with a
// builtin call), not a later iteration, not the statements after the loop; a script that reached
// it through use() continues with its next statement.
func VerifExitInLoop() {
	loop := verifnd.Choice(3)   // 0 three-clause for with an observable post clause, 1 for-in over a list, 2 for-in over a string
	nested := verifnd.Int(0, 1) // exit() directly in the body, or inside an if inside the body
	viaUse := verifnd.Int(0, 1) // the loop is in the entry script, or in a script reached through use()
	n := verifnd.Int64()        // an arbitrary field value travels along (it must survive unchanged)

	ex := "  exit()\n"
	if nested == 1 {
		ex = "  if seen == 1 {\n    exit()\n  }\n"
	}
	body := "  add_key(seen, 1)\n" + ex + "  add_key(rest_of_body, 1)\n"
	var leaf string
	switch loop {
	case 0:
		leaf = "for i = 0; i < 3; add_key(post_clause, i) {\n" + body + "}\n"
	case 1:
		leaf = "for x in [1, 2, 3] {\n  add_key(iterations, x)\n" + body + "}\n"
	case 2:
		leaf = "for c in \"abc\" {\n  add_key(iterations, c)\n" + body + "}\n"
	}
	leaf += "add_key(after_loop, 1)\n"
	set := map[string]string{"leaf.p": leaf}
	entry := "leaf.p"
	if viaUse == 1 {
		set["main.p"] = "add_key(before_use, 1)\nuse(\"leaf.p\")\nadd_key(after_use, 1)\n"
		entry = "main.p"
	}
	scripts, errs := engine.ParseScript(set, funcs.FuncsMap, funcs.FuncsCheckMap)
	verifnd.Assert(len(errs) == 0, "scripts-load")
	if len(errs) != 0 {
		return
	}
	pt := &input.Point{}
	input.InitPt(pt, "m", nil, map[string]any{"n": n}, time.Time{})
	err := scripts[entry].Run(pt, nil)
	verifnd.Reach("ran")
	verifnd.Assert(err == nil, "exit-is-not-an-error")
	has := func(k string) bool { _, ok := pt.Fields[k]; return ok }
	verifnd.Assert(has("seen"), "statements-before-exit-ran")
	verifnd.Assert(!has("rest_of_body"), "rest-of-loop-body-has-no-effect")
	verifnd.Assert(!has("post_clause"), "loop-post-clause-has-no-effect")
	verifnd.Assert(!has("after_loop"), "statements-after-the-loop-have-no-effect")
	if loop != 0 {
		first := any(int64(1))
		if loop == 2 {
			first = "a"
		}
		verifnd.Assert(pt.Fields["iterations"] == first, "no-later-iteration")
	}
	if viaUse == 1 {
		verifnd.Assert(has("before_use") && has("after_use"), "calling-script-continues")
	}
	verifnd.Assert(pt.Fields["n"] == any(n), "unrelated-field-unchanged")
}
