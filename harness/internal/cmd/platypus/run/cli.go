package run

import (
	"context"
	"encoding/json"
	"fmt"
	"strings"
	"time"

	"github.com/GuanceCloud/platypus/internal/verifnd"
	"github.com/GuanceCloud/platypus/pkg/engine"
	"github.com/GuanceCloud/platypus/pkg/inimpl/guancecloud/funcs"
	"github.com/GuanceCloud/platypus/pkg/inimpl/guancecloud/input"
)

// ---- C20 (partial): the command-line runner reports the point exactly as the script left it ----

// vcLog captures what the runner logs; the rendered output is the Info line that starts
// with "Platypus Output Data:".
type vcLog struct {
	infos []string
	errs  []string
}

func (l *vcLog) Debug(args ...interface{})                 {}
func (l *vcLog) Debugf(format string, args ...interface{}) {}
func (l *vcLog) Info(args ...interface{})                  { l.infos = append(l.infos, fmt.Sprint(args...)) }
func (l *vcLog) Infof(format string, args ...interface{}) {
	l.infos = append(l.infos, fmt.Sprintf(format, args...))
}
func (l *vcLog) Warn(args ...interface{})                  {}
func (l *vcLog) Warnf(format string, args ...interface{})  {}
func (l *vcLog) Error(args ...interface{})                 { l.errs = append(l.errs, fmt.Sprint(args...)) }
func (l *vcLog) Errorf(format string, args ...interface{}) { l.errs = append(l.errs, fmt.Sprintf(format, args...)) }
func (l *vcLog) Fatal(args ...interface{})                 {}
func (l *vcLog) Fatalf(format string, args ...interface{}) {}

const vcOutPrefix = "Platypus Output Data:\n"

type vcScriptCase struct {
	files  map[string]string // file name -> text (workspace)
	script string            // the script to run
	ok     bool              // loads and runs without error
}

var vcCases = []vcScriptCase{
	{files: map[string]string{"a.p": "add_key(x, 1)\n"}, script: "a.p", ok: true},
	{files: map[string]string{"a.p": "set_measurement(\"renamed\")\nadd_key(x, 1)\n"}, script: "a.p", ok: true},
	{files: map[string]string{"a.p": "set_tag(t1, \"v\")\nrename(msg2, message)\n"}, script: "a.p", ok: true},
	{files: map[string]string{"a.p": "drop_key(message)\nadd_key(n, len(\"abc\"))\n"}, script: "a.p", ok: true},
	{files: map[string]string{"a.p": "use(\"b.ppl\")\nadd_key(after, 2)\n", "b.ppl": "set_measurement(\"from_b\")\nset_tag(who, \"b\")\n"}, script: "a.p", ok: true},
	{files: map[string]string{"a.p": "add_key(x, 1)\n", "z.p": "add_key(y, = )\n"}, script: "a.p", ok: true}, // a broken sibling does not matter
	{files: map[string]string{"a.p": "add_key(x, 1)\n", "b.p": "add_key(only_b, 1)\n"}, script: "b.p", ok: true},   // selected by name
	{files: map[string]string{"svc.access.ppl": "use(\"common.v2.p\")\nadd_key(after, 2)\n", "common.v2.p": "set_tag(who, \"common\")\n"}, script: "svc.access.ppl", ok: true}, // dots inside names
	{files: map[string]string{"a.p": "x = = 1\n"}, script: "a.p", ok: false},                                         // load error
	{files: map[string]string{"a.p": "nosuch(1)\n"}, script: "a.p", ok: false},                                       // check error
	{files: map[string]string{"a.p": "l = [1]\ny = l[5]\n"}, script: "a.p", ok: false},                               // run error
	{files: map[string]string{"a.p": "add_key(x, 1)\n"}, script: "missing.p", ok: false},                             // not found
}

// vcSameLoadError: when the library rejects the selected script at load time, the runner
// reports that error (its text, with the position), not a generic one.
func vcSameLoadError(files map[string]string, script string, logger *vcLog) {
	_, errs := engine.ParseScript(files, funcs.FuncsMap, funcs.FuncsCheckMap)
	e, failed := errs[script]
	if !failed || len(logger.errs) == 0 {
		return
	}
	verifnd.Reach("load-error-text")
	verifnd.Assert(strings.Contains(logger.errs[0], e.Error()), "reported-error-is-the-load-error")
}

// VerifCliRun: workspace or single-file mode, text input, JSON output: the rendered measurement,
// tags and fields equal what the library API yields for the same script and input; with no
// input file nothing is run or rendered; load and run errors are reported instead of output;
// only non-directory entries with extension .p / .ppl are loaded.
func VerifCliRun() {
	c := vcCases[verifnd.Choice(len(vcCases))]
	workspace := verifnd.Int(0, 1) == 1
	withInput := verifnd.Int(0, 1) == 1
	top := verifnd.VFSRoot()
	defer verifnd.VFSCleanup()
	// the workspace directory is named as it is given: a name with characters that mean something
	// to a pattern matcher is still that directory (and not a like-named sibling)
	root := top
	switch verifnd.Choice(3) {
	case 1:
		root = top + "/rules[2]"
		verifnd.VFSMkdir(root)
		verifnd.VFSMkdir(top + "/rules2")
		verifnd.VFSWrite(top+"/rules2/"+c.script, "add_key(from_the_wrong_directory, 1)\n")
		verifnd.Reach("workspace-name-with-brackets")
	case 2:
		root = top + "/pipe *?x"
		verifnd.VFSMkdir(root)
		verifnd.VFSMkdir(top + "/pipe line")
		verifnd.VFSWrite(top+"/pipe line/"+c.script, "add_key(from_the_wrong_directory, 1)\n")
	}
	for name, text := range c.files {
		verifnd.VFSWrite(root+"/"+name, text)
	}
	// entries the loader must ignore
	verifnd.VFSWrite(root+"/notes.txt", "add_key(from_txt, 1) ) )\n")
	verifnd.VFSWrite(root+"/noext", "= = =\n")
	verifnd.VFSMkdir(root + "/dir.p")
	msg := "hello wörld"
	verifnd.VFSWrite(root+"/in.txt", msg)

	opts := &Options{Script: c.script, Type: TypeText, OutputType: OutTypeJSON}
	if workspace {
		opts.Workspace = root
	} else {
		// single-file mode: the script is named by its path
		verifnd.Assume(len(c.files) == 1)
		opts.Script = root + "/" + c.script
	}
	if withInput {
		opts.Input = root + "/in.txt"
	}
	logger := &vcLog{}
	l = logger
	err := Run(context.Background(), opts)
	verifnd.Assert(err == nil, "run-returns-nil")

	var rendered []string
	for _, s := range logger.infos {
		if strings.HasPrefix(s, vcOutPrefix) {
			rendered = append(rendered, s[len(vcOutPrefix):])
		}
	}
	if !withInput {
		verifnd.Reach("load-only")
		verifnd.Assert(len(rendered) == 0, "no-input-nothing-rendered")
		return
	}
	if !c.ok {
		verifnd.Reach("error-case")
		verifnd.Assert(len(rendered) == 0, "error-instead-of-output")
		verifnd.Assert(len(logger.errs) > 0, "error-is-reported")
		vcSameLoadError(c.files, c.script, logger)
		return
	}
	if !workspace {
		verifnd.Reach("single-file")
	}
	verifnd.Reach("rendered")
	verifnd.Assert(len(rendered) == 1, "exactly-one-output")
	if len(rendered) != 1 {
		return
	}
	var got map[string]any
	verifnd.Assert(json.Unmarshal([]byte(rendered[0]), &got) == nil, "output-is-json")

	// what the library API yields for the same script and input
	scripts, _ := engine.ParseScript(c.files, funcs.FuncsMap, funcs.FuncsCheckMap)
	pt := &input.Point{}
	input.InitPt(pt, "default_name", nil, map[string]any{"message": msg}, time.Time{})
	errR := scripts[c.script].Run(pt, nil)
	verifnd.Assert(errR == nil, "library-run-ok")

	verifnd.Assert(got["measurement"] == any(pt.Measurement), "measurement-as-left-by-script")
	gt, _ := got["tags"].(map[string]any)
	verifnd.Assert(len(gt) == len(pt.Tags), "tags-as-left-by-script:count")
	for k, v := range pt.Tags {
		verifnd.Assert(gt[k] == any(v), "tags-as-left-by-script")
	}
	gf, _ := got["fields"].(map[string]any)
	verifnd.Assert(len(gf) == len(pt.Fields), "fields-as-left-by-script:count")
	for k, v := range pt.Fields {
		want := v
		if iv, ok := v.(int64); ok {
			want = float64(iv) // JSON numbers decode as float64
		}
		verifnd.Assert(gf[k] == want, "fields-as-left-by-script")
	}
}
