package platypus

import (
	"context"
	"os"
	"strings"

	"github.com/GuanceCloud/platypus/internal/cmd/platypus/run"
	"github.com/GuanceCloud/platypus/internal/verifnd"
)

// ---- C20: the command line of `platypus run` selects script, workspace, input, input type and
// output type as the CLI reference documents them ----

// vfSpell renders one flag in one of the spellings of a POSIX/GNU-style command line:
// "-s v", "-s=v", "--script v", "--script=v". An empty value cannot be attached to a short
// flag ("-w=" means the value "="), it is passed as a separate empty argument there.
func vfSpell(spelling int, short, long, val string) []string {
	if short == "" && spelling < 2 {
		spelling += 2
	}
	if val == "" && spelling == 1 {
		spelling = 0
	}
	switch spelling {
	case 0:
		return []string{"-" + short, val}
	case 1:
		return []string{"-" + short + "=" + val}
	case 2:
		return []string{"--" + long, val}
	default:
		return []string{"--" + long + "=" + val}
	}
}

// vfNormalise removes what depends on the wall clock: the "time" member of the JSON rendering
// and the trailing timestamp of the line-protocol rendering (only when the input does not
// determine the time).
func vfNormalise(s string, timeDetermined bool) string {
	if timeDetermined {
		return s
	}
	var out []string
	for _, ln := range strings.Split(s, "\n") {
		if strings.HasPrefix(strings.TrimSpace(ln), "\"time\":") {
			continue
		}
		if k := strings.LastIndexByte(ln, ' '); k > 0 && !strings.HasPrefix(ln, " ") && !strings.HasPrefix(ln, "Platypus") && len(ln)-k > 15 {
			ln = ln[:k]
		}
		out = append(out, ln)
	}
	return strings.Join(out, "\n")
}

// VerifCliFlags: the real cobra command tree (NewRootCmd, flag definitions, pflag parsing, RunE)
// is executed on an argument vector that spells the five documented options in every documented
// way (short / long, separated / attached with '='), in two orders, with each optional flag
// present or absent; what it logs must be exactly what the runner kernel run.Run logs for the
// Options value the CLI reference prescribes for those flags (defaults: workspace = current
// directory, type = text, output type = json). Without -s nothing runs and Execute fails.
func VerifCliFlags() {
	root := verifnd.VFSRoot()
	defer verifnd.VFSCleanup()
	verifnd.VFSWrite(root+"/a.p", "set_measurement(\"m_a\")\nadd_key(x, 1)\n")
	verifnd.VFSWrite(root+"/b.p", "add_key(only_b, 2)\nset_tag(t, \"v\")\n")
	verifnd.VFSWrite(root+"/in.txt", "hello wörld")
	verifnd.VFSWrite(root+"/in.lp", "cpu,host=h1 usage=0.5,n=3i 1700000000000000000\n")
	verifnd.VFSWrite(root+"/text", "a file named like a type")
	old, _ := os.Getwd()
	if os.Chdir(root) != nil {
		return
	}
	defer os.Chdir(old)

	wsMode := verifnd.Choice(3)  // 0 absent (current directory), 1 explicit, 2 explicit empty: single-file mode
	inMode := verifnd.Choice(3)  // 0 none, 1 text file, 2 line-protocol file
	typMode := verifnd.Choice(3) // 0 absent, 1 text, 2 lineprotocol
	outMode := verifnd.Choice(3) // 0 absent, 1 json, 2 lineprotocol
	spelling := verifnd.Choice(4)
	// FULL=0: which script and which order of the flags are derived from the other choices
	// (every value of each still occurs); FULL=1: the full cross product
	script := []string{"a.p", "b.p"}[(wsMode+inMode)%2]
	reverse := (spelling+outMode)%2 == 1
	if verifnd.Param("FULL", 0) == 1 {
		script = []string{"a.p", "b.p"}[verifnd.Choice(2)]
		reverse = verifnd.Bool()
	}
	withScript := true
	if typMode == 0 && outMode == 0 {
		withScript = verifnd.Bool()
	}

	want := run.Options{Workspace: root, Script: script, Type: "text", OutputType: "json"}
	var groups [][]string
	if withScript {
		sv := script
		if wsMode == 2 {
			sv = root + "/" + script
			want.Script = sv
		}
		groups = append(groups, vfSpell(spelling, "s", "script", sv))
	}
	switch wsMode {
	case 1:
		groups = append(groups, vfSpell(spelling, "w", "workspace", root))
	case 2:
		groups = append(groups, vfSpell(spelling, "w", "workspace", ""))
		want.Workspace = ""
	}
	switch inMode {
	case 1:
		want.Input = root + "/in.txt"
	case 2:
		want.Input = root + "/in.lp"
	}
	if inMode != 0 {
		groups = append(groups, vfSpell(spelling, "i", "input", want.Input))
	}
	if typMode != 0 {
		want.Type = []string{"", "text", "lineprotocol"}[typMode]
		groups = append(groups, vfSpell(spelling, "t", "type", want.Type))
	}
	if outMode != 0 {
		want.OutputType = []string{"", "json", "lineprotocol"}[outMode]
		groups = append(groups, vfSpell(spelling, "", "output-type", want.OutputType))
	}
	args := []string{"run"}
	if reverse {
		for k := len(groups) - 1; k >= 0; k-- {
			args = append(args, groups[k]...)
		}
	} else {
		for _, g := range groups {
			args = append(args, g...)
		}
	}

	infos, errs := run.VerifCapture()
	cmd := NewRootCmd()
	cmd.SilenceUsage, cmd.SilenceErrors = true, true
	cmd.SetArgs(args)
	err := cmd.Execute()
	gotInfos, gotErrs := append([]string{}, infos()...), append([]string{}, errs()...)

	if !withScript {
		verifnd.Reach("no-script-flag")
		verifnd.Assert(err != nil, "missing-script-flag-is-an-error")
		verifnd.Assert(len(gotInfos) == 0 && len(gotErrs) == 0, "missing-script-flag-runs-nothing")
		return
	}
	verifnd.Assert(err == nil, "command-returns")

	// the kernel on the Options the reference prescribes for this command line
	infos2, errs2 := run.VerifCapture()
	err2 := run.Run(context.Background(), &want)
	verifnd.Assert(err2 == nil, "kernel-returns")
	wantInfos, wantErrs := infos2(), errs2()
	timeDetermined := inMode == 2 && want.Type == "lineprotocol"
	verifnd.Assert(len(gotInfos) == len(wantInfos), "same-number-of-outputs")
	verifnd.Assert(len(gotErrs) == len(wantErrs), "same-number-of-errors")
	if len(gotInfos) == len(wantInfos) {
		for k := range gotInfos {
			verifnd.Assert(vfNormalise(gotInfos[k], timeDetermined) == vfNormalise(wantInfos[k], timeDetermined), "output-is-that-of-the-documented-options")
		}
	}
	if len(gotErrs) == len(wantErrs) {
		for k := range gotErrs {
			verifnd.Assert(gotErrs[k] == wantErrs[k], "error-is-that-of-the-documented-options")
		}
	}
	if len(wantInfos) > 0 {
		verifnd.Reach("rendered")
	} else if len(wantErrs) > 0 {
		verifnd.Reach("error-reported")
	} else {
		verifnd.Reach("load-only")
	}
	if wsMode == 0 {
		verifnd.Reach("default-workspace")
	}
	if wsMode == 2 {
		verifnd.Reach("single-file")
	}
}
