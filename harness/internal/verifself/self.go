// Package verifself holds the engine's self-test harnesses (run by `gosym selftest`).
package verifself

import (
	"bytes"
	"encoding/json"
	"fmt"
	"os"
	"path/filepath"
	"strings"
	"sync"

	"github.com/GuanceCloud/platypus/internal/verifnd"
)

// SelfTwin must be reported: a reachable Assert(false).
func SelfTwin() {
	x := verifnd.Int64()
	if x > 5 {
		verifnd.Reach("big")
		verifnd.Assert(false, "twin")
	}
}

// SelfWrap must be reported with the model x = MaxInt64: x+1 > x fails only there.
func SelfWrap() {
	x := verifnd.Int64()
	verifnd.Assert(x+1 > x, "no-overflow")
}

// SelfXor must hold: (x^y)^y == x for all 64-bit x, y; and byte arithmetic wraps.
func SelfXor() {
	x, y := verifnd.Int64(), verifnd.Int64()
	verifnd.Assert((x^y)^y == x, "xor-involution")
	b := verifnd.Byte()
	verifnd.Assert(b+255 == b-1, "byte-wraps")
	verifnd.Reach("done")
}

// SelfFloat must be reported: two different integers with the same float64 image exist.
func SelfFloat() {
	x, y := verifnd.Int64(), verifnd.Int64()
	verifnd.Assume(x != y)
	verifnd.Assert(float64(x) != float64(y), "int-to-float-injective")
}

// SelfIndex must be reported as a PANIC: index out of range for some i.
func SelfIndex() {
	a := []int{1, 2, 3}
	i := verifnd.Int64()
	verifnd.Assume(i >= 0)
	_ = a[i]
}

// SelfStrings must hold: map with symbolic string keys, ToLower, concatenation.
func SelfStrings() {
	s := verifnd.Bytes(2)
	m := map[string]int{"ab": 1, "cd": 2}
	v, ok := m[s]
	verifnd.Assert(ok == (s == "ab" || s == "cd"), "map-lookup")
	if ok {
		verifnd.Assert((v == 1) == (s[0] == 'a'), "map-value")
	}
	t := s + "x"
	verifnd.Assert(len(t) == 3 && t[2] == 'x', "concat")
	verifnd.Reach("done")
}

var selfCache sync.Map

// SelfSyncMap must hold: the sync.Map model behaves like a map with interface keys,
// including a symbolic string key.
func SelfSyncMap() {
	s := verifnd.Bytes(2)
	selfCache.Store("ab", 1)
	_, had := selfCache.LoadOrStore(s, 2)
	verifnd.Assert(had == (s == "ab"), "load-or-store")
	v, ok := selfCache.Load("ab")
	verifnd.Assert(ok && v.(int) == 1, "first-store-kept")
	n := 0
	selfCache.Range(func(k, v any) bool { n++; return true })
	verifnd.Assert((n == 1) == (s == "ab"), "range-count")
	selfCache.Delete("ab")
	_, ok = selfCache.Load(s)
	verifnd.Assert(ok == (s != "ab"), "delete")
	verifnd.Reach("done")
}

type selfBuf struct{ n int }

var (
	selfPool   = sync.Pool{New: func() any { return &selfBuf{} }}
	selfMu     sync.Mutex
	selfShared = map[string]int{}
	selfCount  int
)

// SelfPoolUse must be reported (SHAREDWRITE): an object is read after it was handed to the pool.
func SelfPoolUse() {
	verifnd.Freeze()
	b := selfPool.Get().(*selfBuf)
	b.n = 3
	selfPool.Put(b)
	verifnd.Assert(b.n == 3, "value")
}

// SelfPoolOK must hold: the object is used only between Get and Put; a write to a package-level
// map under a mutex is not a shared write.
func SelfPoolOK() {
	verifnd.Freeze()
	b := selfPool.Get().(*selfBuf)
	b.n = 3
	n := b.n
	selfPool.Put(b)
	selfMu.Lock()
	selfShared["k"] = n
	selfMu.Unlock()
	c := selfPool.Get().(*selfBuf)
	c.n = 4
	selfPool.Put(c)
	verifnd.Reach("done")
}

// SelfUnlockedWrite must be reported (SHAREDWRITE): a package-level variable is written after
// Freeze without a lock.
func SelfUnlockedWrite() {
	verifnd.Freeze()
	selfCount++
}

type selfGood int

func (g selfGood) String() string { return fmt.Sprintf("<item %d>", g) } // %d does not consult String

type selfBad int

func (b selfBad) String() string { return fmt.Sprintf("<item %v>", b) } // %v does: unbounded recursion

// SelfFmtVerb must hold: a String method that formats its receiver with %d terminates.
func SelfFmtVerb() {
	s := fmt.Sprintf("%v/%s", selfGood(3), selfGood(4))
	verifnd.Assert(s == "<item 3>/<item 4>", "stringer-used-for-v-and-s")
	verifnd.Reach("done")
}

// SelfFmtRecursion must be reported (UNWIND): String formats its own receiver with %v.
func SelfFmtRecursion() {
	_ = fmt.Sprintf("%v", selfBad(1))
}

// ---- engine features added later ----

type selfRec struct {
	Name string `json:"name"`
	N    int    `json:"n,omitempty"`
	Tags []selfTag `json:"tags"`
	skip int
}
type selfTag struct {
	K string `json:"k"`
	V int64  `json:"v"`
}

// SelfTypedJSON must hold: struct values go through encoding/json with their tags.
func SelfTypedJSON() {
	in := &selfRec{Name: "a\"<b>", N: 0, Tags: []selfTag{{"x", 1 << 62}, {"", -1}}, skip: 7}
	b, err := json.Marshal(in)
	verifnd.Assert(err == nil && string(b) == `{"name":"a\"\u003cb\u003e","tags":[{"k":"x","v":4611686018427387904},{"k":"","v":-1}]}`, "marshal-text")
	var out selfRec
	out.skip = 9
	verifnd.Assert(json.Unmarshal(b, &out) == nil, "unmarshal")
	verifnd.Assert(out.Name == in.Name && out.N == 0 && len(out.Tags) == 2 && out.Tags[0].V == 1<<62 && out.Tags[1].K == "" && out.skip == 9, "round-trip")
	verifnd.Reach("done")
}

// SelfFprintf must hold: Fprintf / Fprintln / Fprint write through the writer.
func SelfFprintf() {
	var sb strings.Builder
	fmt.Fprintf(&sb, "%s:%d", "f", 3)
	fmt.Fprintln(&sb, "x", 1)
	fmt.Fprint(&sb, "y")
	var bb bytes.Buffer
	fmt.Fprintf(&bb, "%05.1f|%q", 2.5, "q")
	verifnd.Assert(sb.String() == "f:3x 1\ny" && bb.String() == "002.5|\"q\"", "written")
	verifnd.Reach("done")
}

// SelfTypeAssert must be reported (PANIC): an unchecked type assertion on the wrong dynamic type
// is a run-time panic of the target; the comma-ok form and a recovered one are not.
func SelfTypeAssert() {
	var v any = []byte("ab")
	if _, ok := v.(string); ok {
		verifnd.Assert(false, "comma-ok")
	}
	func() {
		defer func() { verifnd.Assert(recover() != nil, "recoverable") }()
		_ = v.(string)
	}()
	if verifnd.Int64() == 7 {
		_ = v.(string)
	}
}

// SelfGlobStat must hold: os.Stat and filepath.Glob over the in-engine file system.
func SelfGlobStat() {
	root := verifnd.VFSRoot()
	defer verifnd.VFSCleanup()
	verifnd.VFSMkdir(root + "/r[2]")
	verifnd.VFSMkdir(root + "/r2")
	verifnd.VFSWrite(root+"/r[2]/a.p", "x")
	verifnd.VFSWrite(root+"/r2/b.p", "yy")
	fi, err := os.Stat(root + "/r[2]")
	verifnd.Assert(err == nil && fi.IsDir() && fi.Name() == "r[2]", "stat-dir")
	fi, err = os.Stat(root + "/r2/b.p")
	verifnd.Assert(err == nil && !fi.IsDir() && fi.Size() == 2, "stat-file")
	_, err = os.Stat(root + "/nothing")
	verifnd.Assert(err != nil, "stat-missing")
	m, err := filepath.Glob(root + "/r[2]/*.p") // the bracket is a character class: matches r2
	verifnd.Assert(err == nil && len(m) == 1 && m[0] == root+"/r2/b.p", "glob-class")
	m, _ = filepath.Glob(root + "/r*/*.p")
	verifnd.Assert(len(m) == 2, "glob-star")
	verifnd.Reach("done")
}
