package funcs

// C11 harnesses for the builtins whose subject is L(k) (variable first, else point, `_` =
// message) and whose destination is D(k): add_key(k), set_tag(k), cast(k, t), trim(k[, cut]),
// uppercase(k), replace(k, re, s), url_decode(k).

import (
	"net/url"
	"regexp"
	"strings"

	"github.com/GuanceCloud/platypus/internal/verifnd"
	"github.com/GuanceCloud/platypus/pkg/ast"
)

// fxFinish runs s.pre + call on the pre-state point and compares with the (already advanced)
// model. mayFail: the reference sees a data error (bad regular expression, undecodable URL),
// so a script error is allowed; the point must then be unchanged, which the model says by
// not having been advanced.
func fxFinish(s *fxSubject, call *ast.Node, name string, mayFail bool) {
	pt := s.pt
	stmts := append(append([]*ast.Node{}, s.pre...), call)
	loadErr, runErr := fxRun(pt, stmts)
	verifnd.Assert(loadErr == nil, fxL(name, "accepted-by-checker"))
	if !mayFail {
		verifnd.Assert(runErr == nil, fxL(name, "no-script-error"))
	}
	vPtInv(pt, "post")
	fxAgree(pt, s.m, map[string]bool{s.key: true}, fxL(name, fxSrcName(s.src)))
}

// VerifFxAddKeySetTag: add_key(k) copies L(k) to D(k); set_tag(k) makes k a tag holding the
// string form of L(k) (empty tag when the subject is absent). MODE 0 add_key, 1 set_tag.
func VerifFxAddKeySetTag() {
	samples := []string{"sv"}
	if verifnd.Param("MODE", 0) == 0 {
		s := fxPickSubject(samples, 1, verifnd.Param("SYM", 1) == 1)
		verifnd.Reach("add_key:" + fxSrcName(s.src))
		if s.symNum {
			verifnd.Reach("add_key:symbolic-number")
		}
		if x, ok := s.m.lookup(s.key); ok {
			s.m.write(s.key, x)
		}
		fxFinish(s, fxCall("add_key", s.arg), "add_key", false)
		return
	}
	s := fxPickSubject(samples, 1, false)
	verifnd.Reach("set_tag:" + fxSrcName(s.src))
	if x, ok := s.m.lookup(s.key); ok {
		s.m.writeTag(s.key, x)
	} else {
		s.m.writeTag(s.key, fxVal{"", ast.String})
	}
	fxFinish(s, fxCall("set_tag", s.arg), "set_tag", false)
}

// ---- string builtins ----

var fxTrimSamples = []string{" \t x y \n", "ACCAA_test_DataA_ACBA", ""}
var fxUpperSamples = []string{"hello", "aBc-éß1 z"}
var fxReplaceSamples = []string{"13789123014", "zhang san", "小阿卡"}
var fxURLSamples = []string{"http%3a%2f%2fwww.baidu.com%2fs%3fwd%3d%e6%b5%8b%e8%af%95", "a+b%20c", "100%", "%zz"}

type fxRegex struct{ re, repl string }

var fxRegexes = []fxRegex{
	{"(1[0-9]{2})[0-9]{4}([0-9]{4})", "$1****$2"},
	{"([a-z]*) \\w*", "$1 ***"},
	{"([一-龥])[一-龥]([一-龥])", "$1＊$2"},
	{"", "-"},
	// plain-word patterns (no metacharacter) keep the template meaning of the replacement
	{"zhang", "[$0]"},
	{"789", "<$1>"},
	{"san", "$$1"},
	{"1", "${0}x"},
	{"a", "\\$0"},
	{"(", "x"},      // bad regular expression
	{"a{2,1}", "x"}, // bad regular expression
}

// fxStringOp applies the reference of a string builtin to the model: subject = string form
// of L(k); result written to D(k); absent subject or data error: nothing changes.
// Returns whether a script error is allowed.
func fxStringOp(s *fxSubject, name string, f func(string) (string, bool)) bool {
	x, ok := s.m.lookup(s.key)
	if !ok {
		verifnd.Reach(name + ":absent-subject")
		// data error in the other arguments may still surface as a script error
		_, fine := f("")
		return !fine
	}
	str, _ := fxStrForm(x)
	res, fine := f(str)
	if !fine {
		verifnd.Reach(name + ":data-error")
		return true
	}
	switch x.v.(type) {
	case nil, []any, map[string]any:
		// the documentation speaks of string keys; the string form of nil / list / map
		// subjects is not pinned here: only frame + invariant are asserted for them
		verifnd.Reach(name + ":non-scalar-subject")
		s.m.loose[s.key] = true
		return false
	}
	s.m.write(s.key, fxVal{res, ast.String})
	if res != str {
		verifnd.Reach(name + ":changes-value")
	}
	return false
}

// VerifFxStrings: MODE 0 trim, 1 uppercase, 2 replace, 3 url_decode.
func VerifFxStrings() {
	switch verifnd.Param("MODE", 0) {
	case 0:
		s := fxPickSubject(fxTrimSamples, 2, false)
		cs := verifnd.Choice(3)
		var call *ast.Node
		cut := ""
		switch cs {
		case 0:
			call = fxCall("trim", s.arg)
		case 1:
			call = fxCall("trim", s.arg, fxStr(""))
		case 2:
			cut = "ABC_"
			call = fxCall("trim", s.arg, fxStr(cut))
		}
		verifnd.Reach("trim:" + fxSrcName(s.src))
		mayFail := fxStringOp(s, "trim", func(in string) (string, bool) {
			if cut == "" {
				return strings.TrimSpace(in), true
			}
			return strings.Trim(in, cut), true
		})
		fxFinish(s, call, "trim", mayFail)
	case 1:
		s := fxPickSubject(fxUpperSamples, 1, false)
		verifnd.Reach("uppercase:" + fxSrcName(s.src))
		mayFail := fxStringOp(s, "uppercase", func(in string) (string, bool) {
			return strings.ToUpper(in), true
		})
		fxFinish(s, fxCall("uppercase", s.arg), "uppercase", mayFail)
	case 2:
		s := fxPickSubject(fxReplaceSamples, 1, false)
		r := fxRegexes[verifnd.Choice(len(fxRegexes))]
		verifnd.Reach("replace:" + fxSrcName(s.src))
		mayFail := fxStringOp(s, "replace", func(in string) (string, bool) {
			re, err := regexp.Compile(r.re)
			if err != nil {
				return "", false
			}
			return re.ReplaceAllString(in, r.repl), true
		})
		fxFinish(s, fxCall("replace", s.arg, fxStr(r.re), fxStr(r.repl)), "replace", mayFail)
	case 3:
		s := fxPickSubject(fxURLSamples, 2, false)
		verifnd.Reach("url_decode:" + fxSrcName(s.src))
		mayFail := fxStringOp(s, "url_decode", func(in string) (string, bool) {
			out, err := url.QueryUnescape(in)
			return out, err == nil
		})
		fxFinish(s, fxCall("url_decode", s.arg), "url_decode", mayFail)
	}
}

// ---- cast ----

var fxCastTypes = []string{"bool", "int", "float", "str", "string"}
var fxCastSamples = []string{"12", "1.5", "true", "abc", "010", "-7"}

// fxCastRef: the conversion table written from fn.md ("convert the key's value to the given
// type: str, float, int, bool"). pinned=false: the documentation does not say (unparseable
// or non-scalar subject): nothing is asserted about the value.
func fxCastRef(x fxVal, ty string) (fxVal, bool) {
	switch ty {
	case "str", "string":
		switch x.v.(type) {
		case int64, float64, bool, string:
			s, _ := fxStrForm(x)
			return fxVal{s, ast.String}, true
		}
	case "int":
		switch v := x.v.(type) {
		case int64:
			return fxVal{v, ast.Int}, true
		case float64:
			return fxVal{int64(v), ast.Int}, true
		case bool:
			if v {
				return fxVal{int64(1), ast.Int}, true
			}
			return fxVal{int64(0), ast.Int}, true
		case string:
			switch v {
			case "12":
				return fxVal{int64(12), ast.Int}, true
			case "010": // decimal text: a leading zero is not a radix prefix
				return fxVal{int64(10), ast.Int}, true
			case "-7":
				return fxVal{int64(-7), ast.Int}, true
			}
		}
	case "float":
		switch v := x.v.(type) {
		case int64:
			return fxVal{float64(v), ast.Float}, true
		case float64:
			return fxVal{v, ast.Float}, true
		case bool:
			if v {
				return fxVal{float64(1), ast.Float}, true
			}
			return fxVal{float64(0), ast.Float}, true
		case string:
			if v == "12" {
				return fxVal{float64(12), ast.Float}, true
			}
			if v == "010" {
				return fxVal{float64(10), ast.Float}, true
			}
			if v == "-7" {
				return fxVal{float64(-7), ast.Float}, true
			}
			if v == "1.5" {
				return fxVal{float64(1.5), ast.Float}, true
			}
		}
	case "bool":
		switch v := x.v.(type) {
		case int64:
			return fxVal{v != 0, ast.Bool}, true
		case float64:
			return fxVal{v != 0, ast.Bool}, true
		case bool:
			return fxVal{v, ast.Bool}, true
		case string:
			if v == "true" {
				return fxVal{true, ast.Bool}, true
			}
		}
	}
	return fxVal{}, false
}

// VerifFxCast: cast(k, t) converts L(k) and writes D(k). MODE selects the type name
// (0 bool, 1 int, 2 float, 3 str, 4 the checker-accepted alias "string").
func VerifFxCast() {
	ty := fxCastTypes[verifnd.Param("MODE", 0)]
	name := "cast"
	if ty == "string" {
		name = "cast-string-alias"
	}
	// Numeric payloads are symbolic for the targets bool and float. Not for str (string
	// conversion of a symbolic number aborts the path) and not for int: the pinned tree
	// converts through float64 and back, which the solver cannot decide in reasonable time
	// (int64 -> float64 -> int64 round trip: 50 `unknown` answers in 25 minutes of solver time);
	// integers beyond 2^53 are not asserted anyway (DESIGN C11: reference silent).
	symOK := verifnd.Param("SYM", 1) == 1 && (ty == "bool" || ty == "float")
	s := fxPickSubject(fxCastSamples, 1, symOK)
	x, ok := s.m.lookup(s.key)
	if ok && ty == "bool" {
		switch x.v.(type) {
		case int64, float64:
			// own label: number -> bool (non-zero is true)
			name = "cast-number-to-bool"
		}
	}
	verifnd.Reach(name + ":" + fxSrcName(s.src))
	if ok && s.symNum {
		verifnd.Reach(name + ":symbolic-number")
	}
	if !ok {
		verifnd.Reach(name + ":absent-subject")
	} else if r, pinned := fxCastRef(x, ty); pinned {
		verifnd.Reach(name + ":converted")
		s.m.write(s.key, r)
	} else {
		verifnd.Reach(name + ":unpinned-subject")
		s.m.loose[s.key] = true
	}
	fxFinish(s, fxCall("cast", s.arg, fxStr(ty)), name, false)
}

// ---- builtins that look at the point only: get_key, drop_key, rename ----

// VerifFxPointOnly: MODE 0 get_key, 1 drop_key, 2 rename.
func VerifFxPointOnly() {
	samples := []string{"sv"}
	switch verifnd.Param("MODE", 0) {
	case 0:
		// get_key(k) returns the POINT's value of k, never the variable's; nil when absent
		s := fxPickSubject(samples, 1, verifnd.Param("SYM", 1) == 1)
		verifnd.Reach("get_key:" + fxSrcName(s.src))
		want, ok := s.m.point(s.key)
		if !ok {
			want = fxVal{nil, ast.Nil}
			verifnd.Reach("get_key:absent-in-point")
		}
		fxFinish(s, fxCall("probe", fxCall("get_key", s.arg)), "get_key", false)
		verifnd.Assert(len(fxProbed) == 1, "get_key:returns-once")
		if len(fxProbed) == 1 {
			fxSameVal(fxProbed[0].v, want.v, "get_key:returns-point-value")
		}
	case 1:
		// drop_key(k) removes the point key (tag or field); variables are untouched
		s := fxPickSubject(samples, 1, verifnd.Param("SYM", 1) == 1)
		verifnd.Reach("drop_key:" + fxSrcName(s.src))
		s.m.drop(s.key)
		pt := s.pt
		stmts := append(append([]*ast.Node{}, s.pre...), fxCall("drop_key", s.arg))
		observe := s.shape != fxShAttr
		if observe {
			// afterwards the name resolves to the variable if there is one, else to nothing
			name := "a"
			if s.shape == fxShUnder {
				name = "_"
			}
			stmts = append(stmts, fxCall("probe", fxId(name)))
		}
		loadErr, runErr := fxRun(pt, stmts)
		verifnd.Assert(loadErr == nil, "drop_key:accepted-by-checker")
		verifnd.Assert(runErr == nil, "drop_key:no-script-error")
		vPtInv(pt, "post")
		fxAgree(pt, s.m, map[string]bool{s.key: true}, "drop_key:"+fxSrcName(s.src))
		if observe {
			verifnd.Assert(len(fxProbed) == 1, "drop_key:observed")
			if len(fxProbed) == 1 {
				if v, ok := s.m.vars[s.key]; ok {
					fxSameVal(fxProbed[0].v, v.v, "drop_key:variable-untouched")
				} else {
					verifnd.Assert(fxProbed[0].v == nil, "drop_key:name-resolves-to-nothing")
				}
			}
		}
	case 2:
		// rename(new, old): the POINT key old moves to new with its kind, value and type
		s := fxPickSubjectOf([]int{fxShIdent, fxShUnder, fxShAttr}, samples, 1, verifnd.Param("SYM", 1) == 1)
		var to *ast.Node
		var toKey string
		switch verifnd.Choice(6) {
		case 0:
			to, toKey = fxId("t"), "t"
		case 1:
			to, toKey = fxStr("t"), "t"
		case 2:
			to, toKey = fxId("_"), "message"
		case 3:
			to, toKey = fxAttr("a", "b"), "a.b"
		case 4:
			to, toKey = fxId("a"), "a"
		case 5:
			to, toKey = fxStr("fresh"), "fresh"
		}
		verifnd.Reach("rename:" + fxSrcName(s.src))
		st, ok := s.m.keys[s.key]
		switch {
		case !ok:
			verifnd.Reach("rename:old-absent")
		case toKey == s.key:
			verifnd.Reach("rename:same-name")
		default:
			if _, clash := s.m.keys[toKey]; clash {
				verifnd.Reach("rename:onto-existing-key")
			}
			if st.tag {
				verifnd.Reach("rename:moves-tag")
			} else {
				verifnd.Reach("rename:moves-field")
			}
			s.m.keys[toKey] = st
			delete(s.m.keys, s.key)
		}
		pt := s.pt
		stmts := append(append([]*ast.Node{}, s.pre...), fxCall("rename", to, s.arg))
		loadErr, runErr := fxRun(pt, stmts)
		verifnd.Assert(loadErr == nil, "rename:accepted-by-checker")
		verifnd.Assert(runErr == nil, "rename:no-script-error")
		vPtInv(pt, "post")
		fxAgree(pt, s.m, map[string]bool{s.key: true, toKey: true}, "rename:"+fxSrcName(s.src))
	}
}
