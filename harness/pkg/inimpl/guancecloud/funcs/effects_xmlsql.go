package funcs

// C12: xml() and sql_cover(). The XPath engine (antchfx/xmlquery + xpath over encoding/xml) and
// the SQL obfuscator (DataDog obfuscate) execute from their own SSA inside the engine. What the
// engine extracts is the library's answer (asked directly by the harness); a few anchors from
// the function reference are hard-coded. Checked: the builtin stores exactly that under the
// designated key as a string (a key that is a tag stays a tag), and a failure changes nothing.

import (
	"github.com/GuanceCloud/platypus/pkg/inimpl/guancecloud/input"
	"strings"
	"time"

	"github.com/DataDog/datadog-agent/pkg/obfuscate"
	"github.com/GuanceCloud/platypus/internal/verifnd"
	"github.com/GuanceCloud/platypus/pkg/ast"
	"github.com/antchfx/xmlquery"
)

type xmCase struct {
	doc, xpath string
	anchor     string // expected text where the reference documents it ("" = none, "-" = no result)
}

const (
	xmDoc1 = "<entry>\n <fieldx>valuex</fieldx>\n <fieldarray>\n  <fielda>element_a_1</fielda>\n  <fielda>element_a_2</fielda>\n </fieldarray>\n</entry>"
	xmDoc2 = "<OrderEvent actionCode = \"5\">\n <OrderNumber>ORD12345</OrderNumber>\n <VendorNumber>V11111</VendorNumber>\n</OrderEvent>"
	xmDoc3 = "<a>x &amp; y<![CDATA[<z>]]> h\xc3\xa9llo</a>"
)

var xmCases = []xmCase{
	{xmDoc1, "/entry/fieldarray//fielda[1]/text()", "element_a_1"},
	{xmDoc1, "/entry/fieldarray/fielda[2]/text()", "element_a_2"},
	{xmDoc1, "//fielda[last()]", "element_a_2"},
	{xmDoc1, "/entry/fieldx", "valuex"},
	{xmDoc1, "/entry/fieldarray", ""},
	{xmDoc1, "/entry/nosuch/text()", "-"},
	{xmDoc1, "/entry/fieldarray/fielda[", "-"},
	{xmDoc2, "/OrderEvent/@actionCode", "5"},
	{xmDoc2, "/OrderEvent/OrderNumber/text()", "ORD12345"},
	{xmDoc2, "/OrderEvent/VendorNumber", "V11111"},
	{xmDoc2, "//*[@actionCode='5']/OrderNumber", "ORD12345"},
	{xmDoc2, "/OrderEvent/@nosuch", "-"},
	{xmDoc3, "/a", "x & y<z> h\xc3\xa9llo"},
	{xmDoc3, "/a/text()", ""},
	{"<a><b></a>", "/a/b", "-"},
	{"", "/a", "-"},
	{"no markup at all", "/a", "-"},
}

// xmEngine asks the library directly.
func xmEngine(doc, xp string) (string, bool) {
	d, err := xmlquery.Parse(strings.NewReader(doc))
	if err != nil {
		return "", false
	}
	n, err := xmlquery.Query(d, xp)
	if err != nil || n == nil {
		return "", false
	}
	return n.InnerText(), true
}

// VerifFxXML: xml(key, xpath, dest).
func VerifFxXML() {
	ci := verifnd.Choice(len(xmCases))
	c := xmCases[ci]
	det := -1
	if verifnd.Param("CROSS", 0) == 0 {
		det = ci
	}
	want, found := xmEngine(c.doc, c.xpath)
	if c.anchor == "-" {
		verifnd.Assert(!found, "xml:anchor:no-result")
	} else if c.anchor != "" {
		verifnd.Assert(found && want == c.anchor, "xml:anchor:documented-result")
	}
	m, arg, key, pre, src := tmSubject(c.doc, ast.String, true, det)
	// destination: "t" (any state, from the environment), a fresh key, an attribute name, or
	// the subject key itself
	var dst *ast.Node
	var dkey string
	dc := (ci / 3) % 5
	if det < 0 {
		dc = verifnd.Choice(5)
	}
	switch dc {
	case 0:
		dst, dkey = fxId("t"), "t"
	case 1:
		dst, dkey = fxStr("t"), "t"
	case 2:
		dst, dkey = fxId("fresh"), "fresh"
	case 3:
		dst, dkey = fxAttr("o", "p"), "o.p"
	default:
		dst, dkey = arg, key
	}
	pt := fxNewPoint(m)
	vPtInv(pt, "pre")
	loadErr, runErr := tmRun(pt, []string{"xml"}, append(pre, fxCall("xml", arg, fxStr(c.xpath), dst)))
	verifnd.Assert(loadErr == nil, "xml:loads")
	verifnd.Assert(runErr == nil, "xml:never-a-run-error")
	if loadErr != nil || runErr != nil {
		return
	}
	verifnd.Assert(pt.Time == time.Time{}, "frame:time")
	touched := map[string]bool{key: true, dkey: true}
	switch {
	case src == 4 || !found:
		verifnd.Reach("nothing-extracted")
		tmAgree(pt, m, touched, "xml:no-result-changes-nothing")
	default:
		verifnd.Reach("extracted")
		m.write(dkey, fxVal{want, ast.String})
		tmAgree(pt, m, touched, "xml:text-stored-under-destination")
	}
	vPtInv(pt, "post")
}

type sqCase struct {
	sql    string
	anchor string // "" = none, "-" = the obfuscator rejects it
}

var sqCases = []sqCase{
	{"select abc from def where x > 3 and y < 5", "select abc from def where x > ? and y < ?"},
	{"SELECT * FROM users WHERE id = 42 AND name = 'bob'", "SELECT * FROM users WHERE id = ? AND name = ?"},
	{"update t set a = 1.5 where b = \"q\"", ""},
	{"INSERT INTO t (a, b) VALUES (1, 'x'), (2, 'y')", ""},
	{"select 1 -- trailing comment", ""},
	{"select 'unterminated", "-"},
	{"", "-"},
	{"h\xc3\xa9llo w\xc3\xb6rld", ""},
	// backslashes: the obfuscator has a literal-escapes mode that it switches on for the rest of
	// its life when a statement only tokenises that way - every call must start from a new one
	{"select \"corp\\orders\".id from t where a = 1", ""},
	{"select * from t where p = 'C:\\logs\\'", ""},
}

func sqEngine(s string) (string, bool) {
	o := obfuscate.NewObfuscator(obfuscate.Config{})
	q, err := o.ObfuscateSQLString(s)
	if err != nil {
		return "", false
	}
	return q.Query, true
}

// VerifFxSQLCover: sql_cover(key) over SQL texts and non-string subjects.
func VerifFxSQLCover() {
	ci := verifnd.Choice(len(sqCases) + 2)
	var val any
	dt := ast.String
	anchor := ""
	switch {
	case ci < len(sqCases):
		val, anchor = sqCases[ci].sql, sqCases[ci].anchor
	case ci == len(sqCases):
		val, dt = int64(42), ast.Int
	default:
		val, dt = true, ast.Bool
	}
	det := -1
	if verifnd.Param("CROSS", 0) == 0 {
		det = ci
	}
	text, _ := fxStrForm(fxVal{val, dt})
	want, ok := sqEngine(text)
	if anchor == "-" {
		verifnd.Assert(!ok, "sql_cover:anchor:rejected")
	} else if anchor != "" {
		verifnd.Assert(ok && want == anchor, "sql_cover:anchor:documented-result")
	}
	m, arg, key, pre, src := tmSubject(val, dt, dt == ast.String, det)
	if verifnd.Bool() {
		// history: another point was covered before (a statement that flips the literal-escapes mode)
		verifnd.Reach("after-another-point")
		pt0 := input.InitPt(&input.Point{}, "m0", nil, map[string]any{"q0": "select * from t where p = 'C:\\logs\\'"}, time.Time{})
		le0, re0 := tmRun(pt0, []string{"sql_cover"}, []*ast.Node{fxCall("sql_cover", fxId("q0"))})
		got0, _, _ := pt0.Get("q0")
		verifnd.Assert(le0 == nil && re0 == nil && got0 == any("select * from t where p = ?"), "sql_cover:predecessor-covered")
	}
	pt := fxNewPoint(m)
	vPtInv(pt, "pre")
	loadErr, runErr := tmRun(pt, []string{"sql_cover"}, append(pre, fxCall("sql_cover", arg)))
	verifnd.Assert(loadErr == nil, "sql_cover:loads")
	verifnd.Assert(runErr == nil, "sql_cover:never-a-run-error")
	if loadErr != nil || runErr != nil {
		return
	}
	verifnd.Assert(pt.Time == time.Time{}, "frame:time")
	switch {
	case src == 4 || !ok:
		verifnd.Reach("nothing-stored")
		tmAgree(pt, m, map[string]bool{key: true}, "sql_cover:failure-changes-nothing")
	default:
		verifnd.Reach("obfuscated")
		m.write(key, fxVal{want, ast.String})
		tmAgree(pt, m, map[string]bool{key: true}, "sql_cover:text-stored-under-key")
	}
	vPtInv(pt, "post")
}
