package funcs

import (
	"github.com/GuanceCloud/platypus/internal/verifnd"
	"github.com/GuanceCloud/platypus/pkg/ast"
	"github.com/GuanceCloud/platypus/pkg/inimpl/guancecloud/input"
)

// ---- C10: the key index (Meta) agrees with Tags and Fields ----

// Key states of a valid point (PtInv, DESIGN A10).
const (
	ksAbsent = iota
	ksTag
	ksFieldInt
	ksFieldString
	ksFieldNil
	ksFieldFloat
	ksFieldBool
	ksTagGhost // index entry of kind tag without a tag value (reachable: Set(k, <void>) on a tag)
	ksCount
)

func vPutKey(pt *input.Point, k string, st int) {
	switch st {
	case ksTag:
		pt.Tags[k] = "tv_" + k
		pt.Meta[k] = &input.TFMeta{DType: ast.String, PtFlag: input.PtTag}
	case ksTagGhost:
		pt.Meta[k] = &input.TFMeta{DType: ast.String, PtFlag: input.PtTag}
	case ksFieldInt:
		pt.Fields[k] = int64(7)
		pt.Meta[k] = &input.TFMeta{DType: ast.Int, PtFlag: input.PtField}
	case ksFieldString:
		pt.Fields[k] = "fv_" + k
		pt.Meta[k] = &input.TFMeta{DType: ast.String, PtFlag: input.PtField}
	case ksFieldNil:
		pt.Fields[k] = nil
		pt.Meta[k] = &input.TFMeta{DType: ast.Nil, PtFlag: input.PtField}
	case ksFieldFloat:
		pt.Fields[k] = float64(2.5)
		pt.Meta[k] = &input.TFMeta{DType: ast.Float, PtFlag: input.PtField}
	case ksFieldBool:
		pt.Fields[k] = true
		pt.Meta[k] = &input.TFMeta{DType: ast.Bool, PtFlag: input.PtField}
	}
}

func vDynType(v any) (ast.DType, bool) {
	switch v.(type) {
	case nil:
		return ast.Nil, true
	case int64:
		return ast.Int, true
	case float64:
		return ast.Float, true
	case bool:
		return ast.Bool, true
	case string:
		return ast.String, true
	}
	return ast.Invalid, false
}

// vPtInv asserts the point invariant and readability of every output key.
func vPtInv(pt *input.Point, tag string) {
	for k, v := range pt.Fields {
		m, ok := pt.Meta[k]
		verifnd.Assert(ok, tag+":field-has-index-entry")
		if !ok {
			continue
		}
		verifnd.Assert(m.PtFlag == input.PtField, tag+":field-index-kind")
		dt, supported := vDynType(v)
		verifnd.Assert(supported, tag+":field-value-kind")
		verifnd.Assert(m.DType == dt, tag+":field-index-type")
		_, both := pt.Tags[k]
		verifnd.Assert(!both, tag+":never-tag-and-field")
		gv, gt, err := pt.Get(k)
		verifnd.Assert(err == nil && gt == dt && gv == v, tag+":field-readable")
	}
	for k, v := range pt.Tags {
		m, ok := pt.Meta[k]
		verifnd.Assert(ok, tag+":tag-has-index-entry")
		if !ok {
			continue
		}
		verifnd.Assert(m.PtFlag == input.PtTag, tag+":tag-index-kind")
		gv, gt, err := pt.Get(k)
		verifnd.Assert(err == nil && gt == ast.String && gv == v, tag+":tag-readable")
	}
	// index entries are pairwise distinct objects
	var seen []*input.TFMeta
	for _, m := range pt.Meta {
		for _, o := range seen {
			verifnd.Assert(o != m, tag+":index-entries-distinct")
		}
		seen = append(seen, m)
	}
	// reading never returns a value the output point does not hold
	for k := range pt.Meta {
		gv, _, err := pt.Get(k)
		if err == nil && gv != nil {
			fv, inF := pt.Fields[k]
			tv, inT := pt.Tags[k]
			verifnd.Assert((inF && fv == gv) || (inT && gv == tv), tag+":read-value-is-held")
		}
	}
}

var vPtKeys = []string{"message", "a", "t"}

// vOpValue returns one of the value/type pairs an evaluator can hand to a point operation.
func vOpValue(c int) (any, ast.DType) {
	switch c {
	case 0:
		return nil, ast.Nil
	case 1:
		return false, ast.Bool
	case 2:
		return int64(-3), ast.Int
	case 3:
		return float64(1.5), ast.Float
	case 4:
		return "new", ast.String
	case 5:
		return []any{int64(1), "x"}, ast.List
	case 6:
		return map[string]any{"k": int64(1)}, ast.Map
	case 7:
		return nil, ast.Void
	}
	return nil, ast.Invalid
}

type vKeySnap struct {
	f    any
	inF  bool
	t    string
	inT  bool
	m    *input.TFMeta
	mt   ast.DType
	mf   input.PtFlag
	inM  bool
}

func vSnap(pt *input.Point, k string) vKeySnap {
	var s vKeySnap
	s.f, s.inF = pt.Fields[k]
	s.t, s.inT = pt.Tags[k]
	s.m, s.inM = pt.Meta[k]
	if s.inM {
		s.mt, s.mf = s.m.DType, s.m.PtFlag
	}
	return s
}

func vSnapSame(pt *input.Point, k string, s vKeySnap) bool {
	n := vSnap(pt, k)
	return n.inF == s.inF && n.f == s.f && n.inT == s.inT && n.t == s.t && n.inM == s.inM && n.m == s.m && n.mt == s.mt && n.mf == s.mf
}

// VerifPointStep: C10 inductive step. From ANY valid point state over the key universe
// (each key independently absent / tag / field of each kind / index-only), one point
// operation with arbitrary arguments preserves the invariant, leaves untouched keys
// untouched, and every surviving key can be renamed and dropped again.
func VerifPointStep() {
	pt := &input.Point{Tags: map[string]string{}, Fields: map[string]any{}, Meta: map[string]*input.TFMeta{}}
	full := verifnd.Param("FULL", 0) == 1
	for idx, k := range vPtKeys {
		if idx == 2 && !full {
			vPutKey(pt, k, verifnd.Int(ksAbsent, ksFieldInt))
		} else {
			vPutKey(pt, k, verifnd.Choice(ksCount))
		}
	}
	vPtInv(pt, "pre") // the constructed pre-state is valid (guards the generator)
	op := verifnd.Choice(6)
	ki := verifnd.Choice(2)
	k := vPtKeys[ki]
	touched := map[string]bool{k: true}
	var pre [3]vKeySnap
	for i, kk := range vPtKeys {
		pre[i] = vSnap(pt, kk)
	}
	switch op {
	case 0:
		v, t := vOpValue(verifnd.Choice(9))
		_ = addKey2PtWithVal(pt, k, v, t, input.KindPtDefault)
		verifnd.Reach("set")
	case 1:
		v, t := vOpValue(verifnd.Choice(9))
		_ = addKey2PtWithVal(pt, k, v, t, input.KindPtTag)
		verifnd.Reach("set-tag")
		_, isTag := pt.Tags[k]
		verifnd.Assert(isTag, "set-tag-makes-a-tag")
	case 2:
		_ = pt.Mv2Tag(k)
		verifnd.Reach("mv2tag")
	case 3:
		deletePtKey(pt, k)
		verifnd.Reach("delete")
		_, inF := pt.Fields[k]
		_, inT := pt.Tags[k]
		_, inM := pt.Meta[k]
		verifnd.Assert(!inF && !inT && !inM, "deleted-key-is-gone")
	case 4:
		// `_` is the documented alias of `message`, on either side
		toArg := []string{"message", "a", "fresh", "_"}[verifnd.Choice(4)]
		fromArg := k
		if k == "message" && verifnd.Int(0, 1) == 1 {
			fromArg = "_"
		}
		to := toArg
		if to == "_" {
			to = "message"
		}
		touched[to] = true
		src := vSnap(pt, k)
		_ = renamePtKey(pt, toArg, fromArg)
		verifnd.Reach("rename")
		if to == k {
			verifnd.Reach("rename-onto-itself")
			verifnd.Assert(vSnapSame(pt, k, src), "rename-onto-itself-is-a-no-op")
		}
		if to != k && (src.inF || src.inT) {
			_, inF := pt.Fields[k]
			_, inT := pt.Tags[k]
			verifnd.Assert(!inF && !inT, "renamed-source-is-gone")
			gv, _, err := pt.Get(to)
			if src.inF {
				verifnd.Assert(err == nil && gv == src.f, "renamed-field-readable-under-new-name")
			} else {
				verifnd.Assert(err == nil && gv == src.t, "renamed-tag-readable-under-new-name")
			}
		}
	case 5:
		ty := []string{"bool", "int", "float", "str"}[verifnd.Choice(4)]
		if v, _, err := getPtKey(pt, k); err == nil {
			nv, nt := doCast(v, ty)
			_ = addKey2PtWithVal(pt, k, nv, nt, input.KindPtDefault)
		}
		verifnd.Reach("cast")
	}
	vPtInv(pt, "post")
	// no index entry of the live point has been handed back to the pool: the next entries taken
	// from the pool (two, as InitPt would for another point) are different objects
	g1 := input.GetMeta(ast.Nil, input.PtField)
	g2 := input.GetMeta(ast.Nil, input.PtField)
	for _, m := range pt.Meta {
		verifnd.Assert(m != g1 && m != g2, "index-entry-not-in-the-pool")
	}
	verifnd.Assert(g1 != g2, "pool-hands-out-distinct-entries")
	for i, kk := range vPtKeys {
		if !touched[kk] {
			verifnd.Assert(vSnapSame(pt, kk, pre[i]), "frame:untouched-key-unchanged")
		}
	}
	// every key of the output can be renamed and dropped again
	var out []string
	for kk := range pt.Fields {
		out = append(out, kk)
	}
	for kk := range pt.Tags {
		out = append(out, kk)
	}
	for _, kk := range out {
		s := vSnap(pt, kk)
		_ = renamePtKey(pt, "zz_"+kk, kk)
		gv, _, err := pt.Get("zz_" + kk)
		if s.inF {
			verifnd.Assert(err == nil && gv == s.f, "again:rename-keeps-field")
		} else {
			verifnd.Assert(err == nil && gv == s.t, "again:rename-keeps-tag")
		}
		deletePtKey(pt, "zz_"+kk)
		_, inF := pt.Fields["zz_"+kk]
		_, inT := pt.Tags["zz_"+kk]
		verifnd.Assert(!inF && !inT, "again:drop-removes")
	}
	vPtInv(pt, "final")
}
