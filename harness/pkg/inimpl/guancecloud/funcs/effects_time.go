package funcs

// C12: default_time() and datetime(). The time engines (Go's time package, araddon/dateparse,
// the tz database parser) execute from their own SSA inside the engine; the reference values
// come from time_oracle.go (generated with Python's datetime/zoneinfo).

import (
	"strings"
	"time"

	"github.com/GuanceCloud/platypus/internal/verifnd"
	"github.com/GuanceCloud/platypus/pkg/ast"
	"github.com/GuanceCloud/platypus/pkg/engine/runtime"
	"github.com/GuanceCloud/platypus/pkg/errchain"
	"github.com/GuanceCloud/platypus/pkg/inimpl/guancecloud/input"
)

func tmRun(pt *input.Point, names []string, stmts []*ast.Node) (loadErr, runErr *errchain.PlError) {
	fc := map[string]runtime.FuncCall{}
	ck := map[string]runtime.FuncCheck{}
	for _, n := range names {
		fc[n] = FuncsMap[n]
		ck[n] = FuncsCheckMap[n]
	}
	s := &runtime.Script{Name: "c12.p", FuncCall: fc, Ast: ast.Stmts(stmts)}
	if err := s.Check(ck); err != nil {
		return err, nil
	}
	return nil, s.Run(pt, nil)
}

// tmAgree: whole-point agreement except the time (checked by the caller).
func tmAgree(pt *input.Point, m *fxModel, touched map[string]bool, label string) {
	n := 0
	for _, k := range fxUniverse {
		if _, ok := m.keys[k]; ok {
			n++
		}
		if touched[k] {
			fxAgreeKey(pt, m, k, label)
		} else {
			fxAgreeKey(pt, m, k, "frame:other-key-unchanged")
		}
	}
	for k := range m.keys {
		known := false
		for _, u := range fxUniverse {
			if u == k {
				known = true
			}
		}
		if !known {
			n++
			fxAgreeKey(pt, m, k, label)
		}
	}
	verifnd.Assert(len(pt.Fields)+len(pt.Tags) == n, fxL(label, "no-key-invented-or-lost"))
	verifnd.Assert(len(pt.Meta) == n, fxL(label, "no-index-entry-invented-or-lost"))
	verifnd.Assert(pt.Measurement == m.meas, "frame:measurement")
	verifnd.Assert(!pt.Drop, "frame:drop-flag")
}

// tmSubject places the text `val` where the key argument of the builtin finds it:
// src 0 field, 1 tag, 2 variable, 3 variable shadowing a field, 4 absent.
//
// det < 0: shape and source are free choices (full cross product with the caller's cases);
// det >= 0: they are a fixed function of det (the caller passes its case index, so every
// placement is still visited, each with a different case).
func tmSubject(val any, dt ast.DType, allowTag bool, det int) (m *fxModel, arg *ast.Node, key string, pre []*ast.Node, src int) {
	m = fxNewModel()
	var sh int
	if det < 0 {
		sh = verifnd.Choice(fxShCount)
		src = verifnd.Choice(5)
		if sh == fxShAttr {
			verifnd.Assume(src == 0 || src == 1 || src == 4) // no variable can be called a.b
		}
		if !allowTag {
			verifnd.Assume(src != 1)
		}
	} else {
		sh, src = det%fxShCount, (det/fxShCount)%5
		if sh == fxShAttr && (src == 2 || src == 3) {
			src = 0
		}
		if !allowTag && src == 1 {
			src = 0
		}
	}
	arg, key = fxKeyArg(sh)
	switch src {
	case 0:
		m.keys[key] = fxField(val, dt)
	case 1:
		s, _ := fxStrForm(fxVal{val, dt})
		m.keys[key] = fxTag(s)
	case 2:
		m.vars[key] = fxVal{val, dt}
	case 3:
		m.keys[key] = fxField("shadowed", ast.String)
		m.vars[key] = fxVal{val, dt}
	}
	if v, ok := m.vars[key]; ok {
		name := key
		if sh == fxShUnder {
			name = "_"
		}
		pre = append(pre, fxAssign(name, fxLitOf(v)))
	}
	fxEnv(m, map[string]bool{key: true})
	return
}

const tmStart = int64(1500000000) // the point's time before the run (seconds)

// VerifFxDefaultTime: default_time(key[, tz]) over the reference table x where the subject lives.
func VerifFxDefaultTime() {
	time.Local = time.UTC
	lo := verifnd.Param("LO", 0)
	hi := verifnd.Param("HI", len(tmCases))
	if hi > len(tmCases) {
		hi = len(tmCases)
	}
	ci := lo + verifnd.Choice(hi-lo)
	c := tmCases[ci]
	det := -1
	if verifnd.Param("CROSS", 0) == 0 {
		det = ci
	}
	m, arg, key, pre, src := tmSubject(c.subject, ast.String, true, det)
	pt := fxNewPoint(m)
	pt.Time = time.Unix(tmStart, 0)
	vPtInv(pt, "pre")
	call := fxCall("default_time", arg)
	if c.tz != "" {
		call = fxCall("default_time", arg, fxStr(c.tz))
	}
	loadErr, runErr := tmRun(pt, []string{"default_time"}, append(pre, call))
	verifnd.Assert(loadErr == nil, "default_time:loads")
	verifnd.Assert(runErr == nil, "default_time:never-a-run-error")
	if loadErr != nil || runErr != nil {
		return
	}
	switch {
	case src == 4:
		verifnd.Reach("absent")
		verifnd.Assert(pt.Time.UnixNano() == tmStart*1000000000, "default_time:absent-subject-leaves-time")
		tmAgree(pt, m, map[string]bool{key: true}, "default_time:absent-subject-changes-nothing")
	case c.want == 1:
		verifnd.Reach("converted")
		verifnd.Assert(pt.Time.UnixNano() == c.nanos, "default_time:point-time-is-the-parsed-instant")
		m.drop(key) // the text is consumed: the point's time replaces it
		tmAgree(pt, m, map[string]bool{key: true}, "default_time:subject-key-consumed")
	default:
		verifnd.Reach("failed")
		verifnd.Assert(pt.Time.UnixNano() == tmStart*1000000000, "default_time:failure-leaves-time")
		note, ok := pt.Fields[runtime.PlRunInfoField].(string)
		verifnd.Assert(ok && strings.HasPrefix(note, "time convert failed"), "default_time:failure-note")
		m.keys[runtime.PlRunInfoField] = fxField(note, ast.String)
		tmAgree(pt, m, map[string]bool{key: true, runtime.PlRunInfoField: true}, "default_time:failure-changes-nothing-else")
	}
	vPtInv(pt, "post")
}

// VerifFxDatetime: datetime(key, precision, layout) over the reference table x subject
// representation (integer, decimal text, float with zero fraction) x where it lives.
func VerifFxDatetime() {
	time.Local = time.UTC
	ci := verifnd.Choice(len(dtCases))
	c := dtCases[ci]
	det, rep := -1, 0
	if verifnd.Param("CROSS", 0) == 0 {
		det, rep = ci, ci%5
	} else {
		rep = verifnd.Choice(5)
	}
	var val any = c.v
	dt := ast.Int
	switch rep {
	case 1:
		val, dt = fxStrFormOf(c.v), ast.String
	case 2:
		val, dt = float64(c.v), ast.Float
	case 3: // a float with a fraction: the timestamp is its integer part
		val, dt = float64(c.v)+0.75, ast.Float
	case 4:
		val, dt = float64(c.v)+0.25, ast.Float
	}
	m, arg, key, pre, src := tmSubject(val, dt, dt == ast.String, det)
	pt := fxNewPoint(m)
	vPtInv(pt, "pre")
	layout := c.layout
	bad := verifnd.Bool()
	if bad {
		layout = "rfc3339" // names are case-sensitive; this one is not in the table
	}
	loadErr, runErr := tmRun(pt, []string{"datetime"}, append(pre, fxCall("datetime", arg, fxStr(c.precision), fxStr(layout))))
	verifnd.Assert(loadErr == nil, "datetime:loads")
	if loadErr != nil {
		return
	}
	verifnd.Assert(pt.Time == time.Time{}, "frame:time")
	switch {
	case src == 4:
		verifnd.Reach("absent")
		verifnd.Assert(runErr == nil, "datetime:absent-subject-is-ignored")
		tmAgree(pt, m, map[string]bool{key: true}, "datetime:absent-subject-changes-nothing")
	case bad:
		verifnd.Reach("bad-layout")
		verifnd.Assert(runErr != nil, "datetime:unknown-layout-is-a-run-error")
		tmAgree(pt, m, map[string]bool{key: true}, "datetime:error-changes-nothing")
	default:
		verifnd.Reach("formatted")
		verifnd.Assert(runErr == nil, "datetime:runs")
		m.write(key, fxVal{c.text, ast.String})
		tmAgree(pt, m, map[string]bool{key: true}, "datetime:text-stored-under-key")
	}
	vPtInv(pt, "post")
}

func fxStrFormOf(v int64) string {
	s, _ := fxStrForm(fxVal{v, ast.Int})
	return s
}
