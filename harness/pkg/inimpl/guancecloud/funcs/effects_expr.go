package funcs

// C11 harnesses for the builtins that evaluate argument EXPRESSIONS: add_key(k, e),
// set_tag(k, v), set_measurement(e[, del]), len(e), load_json(e), strfmt(k, f, a...),
// printf(f, a...).

import (
	"encoding/json"
	"fmt"
	"reflect"

	"github.com/GuanceCloud/platypus/internal/verifnd"
	"github.com/GuanceCloud/platypus/pkg/ast"
)

// fxExpr is one argument expression together with what the reference says it denotes.
type fxExpr struct {
	node  *ast.Node
	val   fxVal
	known bool   // the reference defines the value
	errs  bool   // evaluating it is a script error
	attr  bool   // attribute expression in value position
	key   string // for identifier / attribute expressions: the name
	kind  string
}

// fxNoSubject: a scenario without a distinguished subject: every key in an arbitrary state.
func fxNoSubject() *fxSubject {
	s := &fxSubject{m: fxNewModel(), src: fxSrcAbsent, shape: -1}
	fxEnv(s.m, map[string]bool{})
	s.pt = fxNewPoint(s.m)
	vPtInv(s.pt, "pre")
	return s
}

const (
	fxExLit     = iota // literal of each type
	fxExSubject        // identifier / `_` / attribute expression naming a variable or point key
	fxExNested         // nested expressions (calls, arithmetic, parentheses)
	fxExError          // an expression whose evaluation fails
	fxExKinds
)

// fxPickExpr chooses an argument expression and builds the scenario around it.
// kinds: which expression kinds the builtin's checker accepts. dest: the key the builtin
// will write (symbolic numbers are avoided when that key is a tag, because the write
// converts to string).
func fxPickExpr(kinds []int, dest string, samples []string, symOK bool) (*fxSubject, fxExpr) {
	switch kinds[verifnd.Choice(len(kinds))] {
	case fxExLit:
		s := fxNoSubject()
		if st, ok := s.m.keys[dest]; ok && st.tag {
			symOK = false
		}
		c := verifnd.Choice(6 + len(samples))
		x := fxVarVal(c, samples, symOK)
		if symOK && (c == 2 || c == 3) {
			s.symNum = true
		}
		return s, fxExpr{node: fxLitOf(x), val: x, known: true, kind: "literal"}
	case fxExSubject:
		s := fxPickSubjectOf([]int{fxShIdent, fxShUnder, fxShAttr}, samples, 1, false)
		e := fxExpr{node: s.arg, key: s.key, kind: "name-" + fxSrcName(s.src)}
		e.val, e.known = s.m.lookup(s.key)
		if s.shape == fxShAttr {
			// a.b in value position denotes the key a.b (fn.md, strfmt example)
			e.attr = true
			e.kind = "attr-" + fxSrcName(s.src)
		}
		return s, e
	case fxExNested:
		switch verifnd.Choice(4) {
		case 0:
			s := fxNoSubject()
			return s, fxExpr{node: fxCall("len", fxStr("héllo")), val: fxVal{int64(6), ast.Int}, known: true, kind: "nested-call"}
		case 1:
			s := fxNoSubject()
			return s, fxExpr{node: fxParen(fxArith(ast.ADD, fxInt(1), fxInt(2))), val: fxVal{int64(3), ast.Int}, known: true, kind: "nested-arith"}
		case 2:
			// get_key(a) with a variable a shadowing the field a: the field's value
			s := &fxSubject{m: fxNewModel(), src: fxSrcShadow, shape: fxShIdent, key: "a"}
			s.m.keys["a"] = fxField("from-point", ast.String)
			s.m.vars["a"] = fxVal{"from-variable", ast.String}
			s.pre = append(s.pre, fxAssign("a", fxStr("from-variable")))
			fxEnv(s.m, map[string]bool{"a": true})
			s.pt = fxNewPoint(s.m)
			return s, fxExpr{node: fxCall("get_key", fxId("a")), val: fxVal{"from-point", ast.String}, known: true, kind: "nested-get_key"}
		default:
			s := fxNoSubject()
			return s, fxExpr{node: fxCall("load_json", fxStr(`{"k":[1,2]}`)),
				val: fxVal{map[string]any{"k": []any{float64(1), float64(2)}}, ast.Map}, known: true, kind: "nested-load_json"}
		}
	}
	s := fxNoSubject()
	return s, fxExpr{node: fxCall("load_json", fxStr("{bad")), errs: true, kind: "failing"}
}

// fxDestArg: destination key shapes of add_key / set_tag / strfmt.
func fxDestArg() (*ast.Node, string) {
	switch verifnd.Choice(5) {
	case 0:
		return fxId("t"), "t"
	case 1:
		return fxStr("t"), "t"
	case 2:
		return fxId("_"), "message"
	case 3:
		return fxAttr("a", "b"), "a.b"
	}
	return fxId("a"), "a"
}

// fxFinishExpr runs s.pre + call and compares with the model.
func fxFinishExpr(s *fxSubject, call *ast.Node, name string, touched map[string]bool, mustFail bool) {
	pt := s.pt
	stmts := append(append([]*ast.Node{}, s.pre...), call)
	loadErr, runErr := fxRun(pt, stmts)
	verifnd.Assert(loadErr == nil, fxL(name, "accepted-by-checker"))
	if mustFail {
		verifnd.Assert(runErr != nil, fxL(name, "data-error-is-a-script-error"))
	} else {
		verifnd.Assert(runErr == nil, fxL(name, "no-script-error"))
	}
	vPtInv(pt, "post")
	fxAgree(pt, s.m, touched, name)
}

// VerifFxAddKey2: add_key(k, e) writes the value of e to D(k); a failing e is a script
// error and nothing is written.
func VerifFxAddKey2() {
	dst, dk := fxDestArg()
	s, e := fxPickExpr([]int{fxExLit, fxExSubject, fxExNested, fxExError}, dk, []string{"sv"}, verifnd.Param("SYM", 1) == 1)
	name := "add_key2"
	if e.attr {
		name = "add_key2-attr-value"
	}
	verifnd.Reach(name + ":" + e.kind)
	if s.symNum {
		verifnd.Reach(name + ":symbolic-number")
	}
	switch {
	case e.errs:
	case e.known:
		s.m.write(dk, e.val)
	default:
		// the named subject exists nowhere: the statement and fn.md do not say whether the
		// key is then left alone or set to nil
		s.m.loose[dk] = true
	}
	fxFinishExpr(s, fxCall("add_key", dst, e.node), name, map[string]bool{dk: true}, e.errs)
}

// VerifFxSetTag2: set_tag(k, v) makes k a tag holding the string form of v (v a string
// literal, an identifier or an attribute expression).
func VerifFxSetTag2() {
	dst, dk := fxDestArg()
	var s *fxSubject
	var e fxExpr
	if verifnd.Choice(4) == 0 {
		s = fxNoSubject()
		e = fxExpr{node: fxStr("lit"), val: fxVal{"lit", ast.String}, known: true, kind: "literal"}
	} else {
		s, e = fxPickExpr([]int{fxExSubject}, dk, []string{"sv"}, false)
	}
	name := "set_tag2"
	if e.attr {
		name = "set_tag2-attr-value"
	}
	verifnd.Reach(name + ":" + e.kind)
	if e.known {
		s.m.writeTag(dk, e.val)
	} else {
		s.m.loose[dk] = true
	}
	fxFinishExpr(s, fxCall("set_tag", dst, e.node), name, map[string]bool{dk: true}, false)
}

// VerifFxSetMeasurement: set_measurement(e[, del]): the measurement becomes e when e is a
// string; with del=true and e an identifier / attribute expression the point key of that
// name is removed.
func VerifFxSetMeasurement() {
	var s *fxSubject
	var e fxExpr
	if verifnd.Choice(4) == 0 {
		s = fxNoSubject()
		e = fxExpr{node: fxStr("lit_m"), val: fxVal{"lit_m", ast.String}, known: true, kind: "literal"}
	} else {
		s, e = fxPickExpr([]int{fxExSubject}, "", []string{"sv", ""}, false)
	}
	name := "set_measurement"
	if e.attr {
		name = "set_measurement-attr-value"
	}
	verifnd.Reach(name + ":" + e.kind)
	del := verifnd.Choice(3) // 0 absent, 1 false, 2 true
	args := []*ast.Node{e.node}
	if del > 0 {
		args = append(args, fxBool(del == 2))
	}
	looseMeas := false
	if str, isStr := e.val.v.(string); e.known && isStr {
		s.m.meas = str
		verifnd.Reach(name + ":string-subject")
	} else {
		// absent or non-string subject: "measurement unchanged" is pinned behaviour only
		looseMeas = true
		verifnd.Reach(name + ":non-string-subject")
	}
	touched := map[string]bool{}
	if del == 2 && e.key != "" {
		verifnd.Reach(name + ":delete-key")
		s.m.drop(e.key)
		touched[e.key] = true
	}
	pt := s.pt
	stmts := append(append([]*ast.Node{}, s.pre...), fxCall("set_measurement", args...))
	loadErr, runErr := fxRun(pt, stmts)
	verifnd.Assert(loadErr == nil, fxL(name, "accepted-by-checker"))
	verifnd.Assert(runErr == nil, fxL(name, "no-script-error"))
	vPtInv(pt, "post")
	if looseMeas {
		s.m.meas = pt.Measurement
	}
	s.m.measLabel = fxL(name, "measurement-is-the-string")

	fxAgree(pt, s.m, touched, name)
}

// ---- return values: len, load_json ----

var fxJSONSamples = []string{
	`{"a":{"first":[2.2,1.1],"ff":"[2.2, 1.1]","second":2,"third":"aBC","forth":true},"age":47}`,
	`[1,"x",null,true]`,
	`"str"`,
	`12.5`,
	`null`,
	`true`,
	`{bad`,
	``,
	`[1,2`,
	`{"a":1}}`,
	`[1,2] x`,
	`1 2`,
}

// VerifFxReturn: MODE 0 len(e), MODE 1 load_json(e); observed through probe(...).
func VerifFxReturn() {
	if verifnd.Param("MODE", 0) == 0 {
		s, e := fxPickExpr([]int{fxExLit, fxExSubject, fxExNested}, "", []string{"héllo", ""}, false)
		name := "len"
		if e.attr {
			name = "len-attr-value"
		}
		verifnd.Reach(name + ":" + e.kind)
		want, pinned := int64(0), false
		if e.known {
			switch v := e.val.v.(type) {
			case string:
				want, pinned = int64(len(v)), true
			case []any:
				want, pinned = int64(len(v)), true
			case map[string]any:
				want, pinned = int64(len(v)), true
			}
		}
		fxFinishExpr(s, fxCall("probe", fxCall("len", e.node)), name, map[string]bool{}, false)
		verifnd.Assert(len(fxProbed) == 1, fxL(name, "returns-once"))
		if pinned && len(fxProbed) == 1 {
			verifnd.Reach(name + ":counted")
			fxSameVal(fxProbed[0].v, want, fxL(name, "returns-count"))
		}
		return
	}
	var s *fxSubject
	var e fxExpr
	if verifnd.Choice(2) == 0 {
		s = fxNoSubject()
		js := fxJSONSamples[verifnd.Choice(len(fxJSONSamples))]
		e = fxExpr{node: fxStr(js), val: fxVal{js, ast.String}, known: true, kind: "literal"}
	} else {
		s, e = fxPickExpr([]int{fxExSubject}, "", fxJSONSamples[:7], false)
	}
	name := "load_json"
	if e.attr {
		name = "load_json-attr-value"
	}
	verifnd.Reach(name + ":" + e.kind)
	var want any
	fails := true
	if str, isStr := e.val.v.(string); e.known && isStr {
		if err := json.Unmarshal([]byte(str), &want); err == nil {
			fails = false
		} else {
			verifnd.Reach(name + ":invalid-json")
		}
	} else {
		verifnd.Reach(name + ":non-string-subject")
	}
	fxFinishExpr(s, fxCall("probe", fxCall("load_json", e.node)), name, map[string]bool{}, fails)
	if fails {
		verifnd.Assert(len(fxProbed) == 0, fxL(name, "no-value-from-bad-input"))
		return
	}
	verifnd.Reach(name + ":decoded")
	verifnd.Assert(len(fxProbed) == 1, fxL(name, "returns-once"))
	if len(fxProbed) == 1 {
		verifnd.Assert(reflect.DeepEqual(fxProbed[0].v, want), fxL(name, "returns-decoded-value"))
	}
}

// ---- strfmt / printf ----

type fxFmtCase struct {
	f     string
	nargs int
}

var fxFmtCases = []fxFmtCase{
	{"plain 100%%\n", 0},
	{"<%v>\n", 1},
	{"%v %v\n", 2},
	{"%s|%d\n", 2}, // second argument is the integer literal
}

// fxFmtArgs builds the variadic arguments: the first may be any expression, the second is a
// literal. Returns nodes, reference values, all-known.
func fxFmtArgs(fc fxFmtCase, fcIdx int, dest string) (*fxSubject, []*ast.Node, []any, bool, bool) {
	var s *fxSubject
	var nodes []*ast.Node
	var vals []any
	known, attr := true, false
	if fc.nargs == 0 {
		s = fxNoSubject()
	}
	if fc.nargs >= 1 {
		var e fxExpr
		kinds := []int{fxExLit, fxExSubject, fxExNested}
		if fcIdx == 3 {
			kinds = []int{fxExSubject} // %s wants strings; non-strings give fmt's own %!s(...) text
		}
		s, e = fxPickExpr(kinds, dest, []string{"sv"}, false)
		nodes = append(nodes, e.node)
		vals = append(vals, e.val.v)
		known = known && e.known
		attr = e.attr
	}
	if fc.nargs >= 2 {
		nodes = append(nodes, fxInt(-7))
		vals = append(vals, int64(-7))
	}
	return s, nodes, vals, known, attr
}

// VerifFxFormat: MODE 0 strfmt(k, f, a...) writes Sprintf(f, a...) to D(k); MODE 1
// printf(f, a...) changes nothing in the point and does not fail.
func VerifFxFormat() {
	fi := verifnd.Choice(len(fxFmtCases))
	fc := fxFmtCases[fi]
	if verifnd.Param("MODE", 0) == 0 {
		dst, dk := fxDestArg()
		s, nodes, vals, known, attr := fxFmtArgs(fc, fi, dk)
		name := "strfmt"
		if attr {
			name = "strfmt-attr-value"
		}
		verifnd.Reach(fmt.Sprintf("%s:%d-args", name, fc.nargs))
		if known {
			s.m.write(dk, fxVal{fmt.Sprintf(fc.f, vals...), ast.String})
		} else {
			s.m.loose[dk] = true
		}
		args := append([]*ast.Node{dst, fxStr(fc.f)}, nodes...)
		fxFinishExpr(s, fxCall("strfmt", args...), name, map[string]bool{dk: true}, false)
		return
	}
	// printf: the format is a string literal, a string variable, `_` or an attribute expression
	s, nodes, _, _, _ := fxFmtArgs(fc, fi, "")
	var f *ast.Node
	switch verifnd.Choice(4) {
	case 3:
		// attribute expression as format (accepted by the checker)
		s.m.keys["a.b"] = fxField("attr %v %v\n", ast.String)
		s.pt = fxNewPoint(s.m)
		f = fxAttr("a", "b")
		verifnd.Reach("printf:attr-format")
	case 0:
		f = fxStr(fc.f)
		verifnd.Reach("printf:literal-format")
	case 1:
		s.pre = append(s.pre, fxAssign("fmtv", fxStr(fc.f)))
		f = fxId("fmtv")
		verifnd.Reach("printf:variable-format")
	default:
		// the format is the message (kept newline-terminated: native replays share stdout)
		s.m.keys["message"] = fxField("msg %v %v\n", ast.String)
		delete(s.m.vars, "message")
		s.pre = nil
		s.pt = fxNewPoint(s.m)
		f = fxId("_")
		verifnd.Reach("printf:message-format")
	}
	verifnd.Reach(fmt.Sprintf("printf:%d-args", fc.nargs))
	args := append([]*ast.Node{f}, nodes...)
	fxFinishExpr(s, fxCall("printf", args...), "printf", map[string]bool{}, false)
}
