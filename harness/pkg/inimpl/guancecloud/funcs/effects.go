package funcs

// C11: field-manipulating builtins have exactly their documented effect.
//
// Shared machinery of the effects_*.go harnesses. A scenario is a REAL script (hand-built
// AST, passed through the real check pass with the real checkers, then run by the real
// evaluator with the real function table) over a point built directly in a valid state.
// Next to it a small REFERENCE MODEL of the documented effect table (DESIGN A13: fn.md +
// the property statement) is advanced; afterwards the real point must agree with the
// model on every key (which is the frame condition at the same time), measurement, time
// and drop flag.
//
// Everything is prefixed with fx to stay clear of point.go.

import (
	"encoding/json"
	"reflect"
	"strconv"
	"strings"
	"time"

	"github.com/GuanceCloud/platypus/internal/verifnd"
	"github.com/GuanceCloud/platypus/pkg/ast"
	"github.com/GuanceCloud/platypus/pkg/engine/runtime"
	"github.com/GuanceCloud/platypus/pkg/errchain"
	"github.com/GuanceCloud/platypus/pkg/inimpl/guancecloud/input"
)

// ---- AST construction -------------------------------------------------------------------

func fxId(n string) *ast.Node  { return ast.WrapIdentifier(&ast.Identifier{Name: n}) }
func fxStr(s string) *ast.Node { return ast.WrapStringLiteral(&ast.StringLiteral{Val: s}) }
func fxAttr(o, a string) *ast.Node {
	return ast.WrapAttrExpr(&ast.AttrExpr{Obj: fxId(o), Attr: fxId(a)})
}
func fxInt(v int64) *ast.Node     { return ast.WrapIntegerLiteral(&ast.IntegerLiteral{Val: v}) }
func fxFloat(v float64) *ast.Node { return ast.WrapFloatLiteral(&ast.FloatLiteral{Val: v}) }
func fxBool(v bool) *ast.Node     { return ast.WrapBoolLiteral(&ast.BoolLiteral{Val: v}) }
func fxNil() *ast.Node            { return ast.WrapNilLiteral(&ast.NilLiteral{}) }
func fxList(xs ...*ast.Node) *ast.Node {
	return ast.WrapListInitExpr(&ast.ListLiteral{List: xs})
}
func fxMap(k string, v *ast.Node) *ast.Node {
	return ast.WrapMapLiteral(&ast.MapLiteral{KeyValeList: [][2]*ast.Node{{fxStr(k), v}}})
}
func fxCall(name string, args ...*ast.Node) *ast.Node {
	return ast.WrapCallExpr(&ast.CallExpr{Name: name, Param: args})
}
func fxAssign(name string, rhs *ast.Node) *ast.Node {
	return ast.WrapAssignmentStmt(&ast.AssignmentExpr{Op: ast.EQ,
		LHS: []*ast.Node{fxId(name)}, RHS: []*ast.Node{rhs}})
}
func fxParen(x *ast.Node) *ast.Node { return ast.WrapParenExpr(&ast.ParenExpr{Param: x}) }
func fxArith(op ast.Op, l, r *ast.Node) *ast.Node {
	return ast.WrapArithmeticExpr(&ast.ArithmeticExpr{Op: op, LHS: l, RHS: r})
}

// ---- probe(x): harness builtin recording the value an expression delivers ----------------

type fxVal struct {
	v any
	t ast.DType
}

var fxProbed []fxVal

func fxProbe(ctx *runtime.Task, e *ast.CallExpr) *errchain.PlError {
	v, t, err := runtime.RunStmt(ctx, e.Param[0])
	if err != nil {
		return err
	}
	fxProbed = append(fxProbed, fxVal{v, t})
	return nil
}

func fxProbeCheck(ctx *runtime.Task, e *ast.CallExpr) *errchain.PlError { return nil }

var fxBuiltins = []string{"add_key", "get_key", "set_tag", "drop_key", "rename", "cast",
	"set_measurement", "len", "load_json", "strfmt", "printf", "trim", "uppercase", "replace",
	"url_decode"}

// fxTrace is set by native debugging sessions only (nil under the engine and in replays).
var fxTrace func(stage string, pt *input.Point, m *fxModel, err *errchain.PlError)

// fxRun checks and runs the script with the package's own function tables (plus probe).
func fxRun(pt *input.Point, stmts []*ast.Node) (loadErr, runErr *errchain.PlError) {
	fxProbed = nil // (native replays run many cases in one process)
	fc := map[string]runtime.FuncCall{"probe": fxProbe}
	ck := map[string]runtime.FuncCheck{"probe": fxProbeCheck}
	for _, n := range fxBuiltins {
		fc[n] = FuncsMap[n]
		ck[n] = FuncsCheckMap[n]
	}
	s := &runtime.Script{Name: "c11.p", FuncCall: fc, Ast: ast.Stmts(stmts)}
	if err := s.Check(ck); err != nil {
		return err, nil
	}
	if fxTrace != nil {
		fxTrace("before", pt, nil, nil)
	}
	runErr = s.Run(pt, nil)
	if fxTrace != nil {
		fxTrace("after", pt, nil, runErr)
	}
	return nil, runErr
}

// ---- reference model ---------------------------------------------------------------------

// fxKey is the state of one point key.
type fxKey struct {
	present bool
	tag     bool
	s       string // tag value
	v       any    // field value
	t       ast.DType
}

type fxModel struct {
	keys map[string]fxKey
	vars map[string]fxVal
	meas string
	// loose: keys whose post-state the reference leaves open (documentation silent)
	loose map[string]bool
	// measLabel: label of the measurement comparison (default: a frame condition)
	measLabel string
}

func fxNewModel() *fxModel {
	return &fxModel{keys: map[string]fxKey{}, vars: map[string]fxVal{}, meas: "m0", loose: map[string]bool{}}
}

var fxUniverse = []string{"message", "a", "a.b", "t"}

func fxTag(s string) fxKey             { return fxKey{present: true, tag: true, s: s} }
func fxField(v any, t ast.DType) fxKey { return fxKey{present: true, v: v, t: t} }
func fxAlias(k string) string {
	if k == "_" {
		return "message"
	}
	return k
}

// fxStrForm is the string form of a value (decimal integers, shortest floats, true/false,
// empty for nil, JSON text for lists and maps). ok=false: no string form defined here.
func fxStrForm(x fxVal) (string, bool) {
	switch v := x.v.(type) {
	case nil:
		return "", true
	case string:
		return v, true
	case int64:
		return strconv.FormatInt(v, 10), true
	case float64:
		return strconv.FormatFloat(v, 'f', -1, 64), true
	case bool:
		if v {
			return "true", true
		}
		return "false", true
	case []any, map[string]any:
		b, err := json.Marshal(v)
		return string(b), err == nil
	}
	return "", false
}

// lookup L(k): the variable if one exists, else the point; `_` means message.
func (m *fxModel) lookup(k string) (fxVal, bool) {
	k = fxAlias(k)
	if v, ok := m.vars[k]; ok {
		return v, true
	}
	return m.point(k)
}

// point reads the point only.
func (m *fxModel) point(k string) (fxVal, bool) {
	k = fxAlias(k)
	st, ok := m.keys[k]
	if !ok {
		return fxVal{}, false
	}
	if st.tag {
		return fxVal{st.s, ast.String}, true
	}
	return fxVal{st.v, st.t}, true
}

// write D(k): a key that already is a tag stays a tag (string form), otherwise a field
// (lists and maps as JSON text, nil as nil).
func (m *fxModel) write(k string, x fxVal) {
	k = fxAlias(k)
	if st, ok := m.keys[k]; ok && st.tag {
		s, _ := fxStrForm(x)
		m.keys[k] = fxTag(s)
		return
	}
	switch x.v.(type) {
	case []any, map[string]any:
		s, _ := fxStrForm(x)
		m.keys[k] = fxField(s, ast.String)
	case nil:
		m.keys[k] = fxField(nil, ast.Nil)
	default:
		m.keys[k] = fxField(x.v, x.t)
	}
}

func (m *fxModel) writeTag(k string, x fxVal) {
	s, _ := fxStrForm(x)
	m.keys[fxAlias(k)] = fxTag(s)
}

func (m *fxModel) drop(k string) { delete(m.keys, fxAlias(k)) }

// ---- building the real point from the model ----------------------------------------------

func fxNewPoint(m *fxModel) *input.Point {
	pt := &input.Point{Measurement: m.meas, Tags: map[string]string{}, Fields: map[string]any{},
		Meta: map[string]*input.TFMeta{}}
	for _, k := range fxUniverse {
		st, ok := m.keys[k]
		if !ok {
			continue
		}
		if st.tag {
			pt.Tags[k] = st.s
			pt.Meta[k] = &input.TFMeta{DType: ast.String, PtFlag: input.PtTag}
		} else {
			pt.Fields[k] = st.v
			pt.Meta[k] = &input.TFMeta{DType: st.t, PtFlag: input.PtField}
		}
	}
	return pt
}

// fxEnvState: the states a key the scenario does not care about can be in.
func fxEnvState(k string, c int) (fxKey, bool) {
	switch c {
	case 1:
		return fxTag("tv_" + k), true
	case 2:
		return fxField("fv_"+k, ast.String), true
	case 3:
		return fxField(int64(7), ast.Int), true
	case 4:
		return fxField(nil, ast.Nil), true
	case 5:
		return fxField(2.5, ast.Float), true
	case 6:
		return fxField(true, ast.Bool), true
	}
	return fxKey{}, false
}

const fxEnvStates = 7

// fxEnv puts every universe key not in `fixed` into an arbitrary state. ENV=0 (quick): the
// states are drawn row-wise from a Latin square (every key sees every state, E paths);
// ENV=1 (thorough): full cross product.
func fxEnv(m *fxModel, fixed map[string]bool) {
	full := verifnd.Param("ENV", 0) == 1
	rows := verifnd.Param("ENVROWS", fxEnvStates)
	row := 0
	if !full {
		row = verifnd.Choice(rows)
	}
	i := 0
	for _, k := range fxUniverse {
		if fixed[k] {
			continue
		}
		c := (row + 2*i) % fxEnvStates
		if full {
			c = verifnd.Choice(fxEnvStates)
		}
		i++
		if st, ok := fxEnvState(k, c); ok {
			m.keys[k] = st
		}
	}
}

// ---- comparing the real point with the model ---------------------------------------------

func fxSameVal(got any, want any, label string) {
	switch w := want.(type) {
	case nil:
		verifnd.Assert(got == nil, label)
	case int64:
		g, ok := got.(int64)
		verifnd.Assert(ok, label)
		if ok {
			verifnd.Assert(g == w, label)
		}
	case float64:
		g, ok := got.(float64)
		verifnd.Assert(ok, label)
		if ok {
			verifnd.Assert(verifnd.Or(g == w, verifnd.And(g != g, w != w)), label)
		}
	case bool:
		g, ok := got.(bool)
		verifnd.Assert(ok, label)
		if ok {
			verifnd.Assert(g == w, label)
		}
	case string:
		g, ok := got.(string)
		verifnd.Assert(ok, label)
		if ok {
			verifnd.Assert(g == w, label)
		}
	default:
		verifnd.Assert(reflect.DeepEqual(got, want), label)
	}
}

// fxFlat: assertion families that belong to ONE documented behaviour each (attribute
// expressions in value position, the "string" type name of cast, number -> bool): every
// obligation of the family carries the family name only, so a finding has a single key.
func fxFlat(name string) bool {
	return strings.HasSuffix(name, "-attr-value") || strings.HasPrefix(name, "cast-")
}

// fxL builds the obligation label name:suffix (just name for flat families).
func fxL(name, suffix string) string {
	if fxFlat(name) {
		return name
	}
	return name + ":" + suffix
}

// fxAgreeKey: the real point holds key k exactly as the model says.
func fxAgreeKey(pt *input.Point, m *fxModel, k string, label string) {
	st := m.keys[k]
	fv, inF := pt.Fields[k]
	tv, inT := pt.Tags[k]
	meta, inM := pt.Meta[k]
	if !st.present {
		verifnd.Assert(!inF && !inT && !inM, fxL(label, "absent"))
		return
	}
	if st.tag {
		verifnd.Assert(inT && !inF && inM, fxL(label, "is-tag"))
		if inT {
			verifnd.Assert(tv == st.s, fxL(label, "tag-value"))
		}
		if inM {
			verifnd.Assert(meta.PtFlag == input.PtTag, fxL(label, "tag-kind"))
		}
		return
	}
	verifnd.Assert(inF && !inT && inM, fxL(label, "is-field"))
	if inF {
		fxSameVal(fv, st.v, fxL(label, "field-value"))
	}
	if inM {
		verifnd.Assert(meta.PtFlag == input.PtField && meta.DType == st.t, fxL(label, "field-type"))
	}
}

// fxAgree: whole-point agreement. `touched` keys are reported under the effect label, all
// others under the frame label.
func fxAgree(pt *input.Point, m *fxModel, touched map[string]bool, label string) {
	n := 0
	for _, k := range fxUniverse {
		if _, ok := m.keys[k]; ok {
			n++
		}
		if m.loose[k] {
			continue
		}
		if touched[k] {
			fxAgreeKey(pt, m, k, label)
		} else {
			fxAgreeKey(pt, m, k, "frame:other-key-unchanged")
		}
	}
	for k := range m.keys {
		known := false
		for _, u := range fxUniverse {
			if u == k {
				known = true
			}
		}
		if !known {
			n++
			fxAgreeKey(pt, m, k, label)
		}
	}
	if len(m.loose) == 0 {
		verifnd.Assert(len(pt.Fields)+len(pt.Tags) == n, fxL(label, "no-key-invented-or-lost"))
		verifnd.Assert(len(pt.Meta) == n, fxL(label, "no-index-entry-invented-or-lost"))
	}
	if m.measLabel == "" {
		m.measLabel = "frame:measurement"
	}
	verifnd.Assert(pt.Measurement == m.meas, m.measLabel)
	verifnd.Assert(pt.Time == time.Time{}, "frame:time")
	verifnd.Assert(!pt.Drop, "frame:drop-flag")
}

// ---- subjects ----------------------------------------------------------------------------

// key-argument shapes every key-taking checker accepts
const (
	fxShIdent = iota // a
	fxShStr          // "a"
	fxShUnder        // _        (message)
	fxShAttr         // a.b
	fxShCount
)

func fxKeyArg(sh int) (*ast.Node, string) {
	switch sh {
	case fxShIdent:
		return fxId("a"), "a"
	case fxShStr:
		return fxStr("a"), "a"
	case fxShUnder:
		return fxId("_"), "message"
	}
	return fxAttr("a", "b"), "a.b"
}

// fxLitOf returns a literal expression evaluating to x.
func fxLitOf(x fxVal) *ast.Node {
	switch v := x.v.(type) {
	case nil:
		return fxNil()
	case bool:
		return fxBool(v)
	case int64:
		return fxInt(v)
	case float64:
		return fxFloat(v)
	case string:
		return fxStr(v)
	case []any:
		return fxList(fxInt(1), fxStr("x"))
	case map[string]any:
		return fxMap("k", fxInt(1))
	}
	panic("fxLitOf")
}

var fxListVal = fxVal{[]any{int64(1), "x"}, ast.List}
var fxMapVal = fxVal{map[string]any{"k": int64(1)}, ast.Map}

// fxNumInt / fxNumFloat: numeric payloads, symbolic when allowed (no string conversion on
// the path), else a fixed representative.
func fxNumInt(sym bool) fxVal {
	if sym {
		return fxVal{verifnd.Int64(), ast.Int}
	}
	return fxVal{int64(-42), ast.Int}
}

func fxNumFloat(sym bool) fxVal {
	if sym {
		f := verifnd.Float64()
		verifnd.Assume(f == f) // NaN never equals itself: interface comparisons in the invariant would alarm
		return fxVal{f, ast.Float}
	}
	// fixed representatives: an ordinary value and two whose shortest text needs an exponent
	// in %g / %e notation (the string form of a float is plain decimal notation)
	return fxVal{[]float64{2.5, 0.00001, 1e21}[verifnd.Choice(3)], ast.Float}
}

// fxVarVal: value classes of a script variable. Classes 0..5 fixed, 6.. string samples.
func fxVarVal(c int, samples []string, sym bool) fxVal {
	switch c {
	case 0:
		return fxVal{nil, ast.Nil}
	case 1:
		return fxVal{true, ast.Bool}
	case 2:
		return fxNumInt(sym)
	case 3:
		return fxNumFloat(sym)
	case 4:
		return fxListVal
	case 5:
		return fxMapVal
	}
	return fxVal{samples[c-6], ast.String}
}

// fxPtVal: states of a present point key. 0 nil, 1 bool, 2 int, 3 float field; 4.. string
// field samples; then tag samples.
func fxPtVal(c int, samples []string, sym bool) fxKey {
	switch c {
	case 0:
		return fxField(nil, ast.Nil)
	case 1:
		return fxField(false, ast.Bool)
	case 2:
		x := fxNumInt(sym)
		return fxField(x.v, x.t)
	case 3:
		x := fxNumFloat(sym)
		return fxField(x.v, x.t)
	}
	c -= 4
	if c < len(samples) {
		return fxField(samples[c], ast.String)
	}
	return fxTag(samples[c-len(samples)])
}

// fxSubject is one scenario of "where the subject of builtin(k...) lives".
type fxSubject struct {
	m      *fxModel
	pt     *input.Point // the real point, built from the model's PRE-state
	key    string       // canonical key name
	arg    *ast.Node    // the key argument
	pre    []*ast.Node
	src    int
	shape  int
	symNum bool // a symbolic numeric payload is in play
}

const (
	fxSrcVar    = iota // variable only
	fxSrcPoint         // point only
	fxSrcShadow        // variable shadowing a point key of the same name
	fxSrcAbsent
)

// fxPickSubject crosses key shape x source x value class. symOK: numeric payloads may be
// symbolic (the caller guarantees no string conversion happens on them) unless the
// destination is a tag.
func fxPickSubject(samples []string, tagSamples int, symOK bool) *fxSubject {
	return fxPickSubjectOf(fxAllShapes, samples, tagSamples, symOK)
}

var fxAllShapes = []int{fxShIdent, fxShStr, fxShUnder, fxShAttr}

func fxPickSubjectOf(shapes []int, samples []string, tagSamples int, symOK bool) *fxSubject {
	m := fxNewModel()
	s := &fxSubject{m: m}
	sh := shapes[verifnd.Choice(len(shapes))]
	s.shape = sh
	s.arg, s.key = fxKeyArg(sh)
	if sh == fxShAttr {
		// no variable can be called a.b
		s.src = fxSrcPoint + 2*verifnd.Choice(2)
	} else {
		s.src = verifnd.Choice(4)
	}
	nVar := 6 + len(samples)
	nPt := 4 + len(samples) + tagSamples
	switch s.src {
	case fxSrcVar:
		c := verifnd.Choice(nVar)
		s.symNum = symOK && (c == 2 || c == 3)
		m.vars[s.key] = fxVarVal(c, samples, symOK)
	case fxSrcPoint:
		c := verifnd.Choice(nPt)
		s.symNum = symOK && (c == 2 || c == 3)
		m.keys[s.key] = fxPtVal(c, samples, symOK)
	case fxSrcShadow:
		// the variable's value must win; the point key only decides the destination kind
		if verifnd.Bool() {
			m.keys[s.key] = fxTag("shadowed")
			m.vars[s.key] = fxVarVal(verifnd.Choice(nVar), samples, false)
		} else {
			m.keys[s.key] = fxField(int64(7), ast.Int)
			c := verifnd.Choice(nVar)
			s.symNum = symOK && (c == 2 || c == 3)
			m.vars[s.key] = fxVarVal(c, samples, symOK)
		}
	}
	if v, ok := m.vars[s.key]; ok {
		name := s.key
		if sh == fxShUnder {
			name = "_" // `_ = v` defines the variable message
		}
		s.pre = append(s.pre, fxAssign(name, fxLitOf(v)))
	}
	fxEnv(m, map[string]bool{s.key: true})
	s.pt = fxNewPoint(m)
	vPtInv(s.pt, "pre")
	return s
}

func fxSrcName(src int) string {
	return []string{"var", "point", "shadow", "absent"}[src]
}
