package input

// C15 (point side): a point taken from the pool and initialised is the same point whatever
// the pooled *Point and the pooled *TFMeta objects were used for before.
//
// Pooled objects: *Point {Measurement, Tags, Fields, Time, Drop, Meta} and
// *TFMeta {DType, PtFlag}. "Fresh" = what pointPool.New / metaPool.New return.

import (
	"time"

	"github.com/GuanceCloud/platypus/internal/verifnd"
	"github.com/GuanceCloud/platypus/pkg/ast"
)

var vc15Keys = []string{"message", "a", "t", "n"}

// the first KEYS keys take any of the 9 states, the others are fixed (tag, absent)
var vc15FixedStates = []int{1, 1, 1, 0}

// vc15Args: the arguments of InitPt, chosen by a key-state vector: every key independently
// absent / tag / field of one of the host kinds (nil, int64, int, float64, float32, bool,
// string). Values are symbolic where the engine has symbolic values. Calling it twice with
// the same vector and payloads gives equal, unshared argument sets.
type vc15Payload struct {
	i  int64
	f  float64
	b  bool
	s  string
	st []int
}

func vc15NewPayload() *vc15Payload {
	p := &vc15Payload{i: verifnd.Int64(), f: verifnd.Float64(), b: verifnd.Bool(), s: verifnd.Bytes(2)}
	verifnd.Assume(p.f == p.f) // NaN != NaN would make "equal inputs" meaningless
	for k := range vc15Keys {
		if k < verifnd.Param("KEYS", 2) {
			p.st = append(p.st, verifnd.Choice(9))
		} else {
			p.st = append(p.st, vc15FixedStates[k])
		}
	}
	return p
}

func (p *vc15Payload) args() (string, map[string]string, map[string]any, time.Time) {
	var tags map[string]string
	var fields map[string]any
	if p.st[0] != 8 { // state 8 on the first key: both maps nil (the host passes nil)
		tags, fields = map[string]string{}, map[string]any{}
	}
	for k, key := range vc15Keys {
		if tags == nil {
			break
		}
		switch p.st[k] {
		case 1:
			tags[key] = p.s
		case 2:
			fields[key] = nil
		case 3:
			fields[key] = p.i
		case 4:
			fields[key] = int(p.i)
		case 5:
			fields[key] = p.f
		case 6:
			fields[key] = p.b
		case 7:
			fields[key] = p.s
		case 8:
			if k > 0 {
				fields[key] = float32(1.5)
			}
		}
	}
	return "meas_" + p.s, tags, fields, vc15Time(1)
}

func vc15Time(n int64) time.Time { return time.Time{}.Add(time.Duration(n)) }

func vc15SameAny(a, b any) bool {
	switch x := a.(type) {
	case nil:
		return b == nil
	case int64:
		y, ok := b.(int64)
		return verifnd.And(ok, x == y)
	case float64:
		y, ok := b.(float64)
		return verifnd.And(ok, x == y)
	case bool:
		y, ok := b.(bool)
		return verifnd.And(ok, x == y)
	case string:
		y, ok := b.(string)
		return verifnd.And(ok, x == y)
	}
	return false
}

// vc15SamePoint: field by field, maps by content.
func vc15SamePoint(tag string, a, b *Point) {
	verifnd.Assert(a.Measurement == b.Measurement, tag+":measurement")
	verifnd.Assert(a.Time.Equal(b.Time), tag+":time")
	verifnd.Assert(a.Drop == b.Drop, tag+":drop")
	verifnd.Assert(len(a.Tags) == len(b.Tags) && (a.Tags == nil) == (b.Tags == nil), tag+":tags-size")
	for k, v := range a.Tags {
		w, ok := b.Tags[k]
		verifnd.Assert(verifnd.And(ok, v == w), tag+":tags")
	}
	verifnd.Assert(len(a.Fields) == len(b.Fields) && (a.Fields == nil) == (b.Fields == nil), tag+":fields-size")
	for k, v := range a.Fields {
		w, ok := b.Fields[k]
		verifnd.Assert(verifnd.And(ok, vc15SameAny(v, w)), tag+":fields")
	}
	verifnd.Assert(len(a.Meta) == len(b.Meta) && (a.Meta == nil) == (b.Meta == nil), tag+":index-size")
	for k, m := range a.Meta {
		n, ok := b.Meta[k]
		verifnd.Assert(ok && m != nil && n != nil, tag+":index-keys")
		if ok && m != nil && n != nil {
			verifnd.Assert(verifnd.And(m.DType == n.DType, m.PtFlag == n.PtFlag), tag+":index-entries")
			verifnd.Assert(m != n, tag+":index-entries-not-shared")
		}
	}
	// reading through the index gives the same answers
	for _, k := range vc15Keys {
		v, t, e := a.Get(k)
		w, u, f := b.Get(k)
		verifnd.Assert((e == nil) == (f == nil), tag+":get-found")
		verifnd.Assert(verifnd.And(t == u, vc15SameAny(v, w)), tag+":get-value")
	}
}

// vc15DistinctMeta: no index entry object is used twice (inside one point or by two points).
func vc15DistinctMeta(tag string, pts ...*Point) {
	var seen []*TFMeta
	for _, p := range pts {
		for _, m := range p.Meta {
			for _, o := range seen {
				verifnd.Assert(o != m, tag+":index-entry-objects-distinct")
			}
			seen = append(seen, m)
		}
	}
}

func vc15StaleMeta() *TFMeta {
	return &TFMeta{DType: ast.DType(verifnd.Int64()), PtFlag: PtFlag(verifnd.Int64())}
}

// vc15StalePoint: residue in every field. Meta: nil, empty, or holding stale entries (one of
// them under a key of the key universe with contradicting kind).
func vc15StalePoint() *Point {
	st := &Point{
		Measurement: "STALE",
		Tags:        map[string]string{"a": "STALE", "stale_tag": "STALE"},
		Fields:      map[string]any{"message": "STALE", "t": int64(-1), "stale_field": nil},
		Time:        vc15Time(987654321),
		Drop:        verifnd.Bool(),
	}
	if verifnd.Param("SYMTIME", 0) == 1 { // any stale instant (costly in the solver)
		st.Time = vc15Time(verifnd.Int64())
	}
	switch verifnd.Choice(3) {
	case 1:
		st.Meta = map[string]*TFMeta{}
	case 2:
		st.Meta = map[string]*TFMeta{"a": vc15StaleMeta(), "message": vc15StaleMeta(), "stale_field": vc15StaleMeta()}
	}
	return st
}

// VerifPointResetArbitrary: reset lemma for *Point and *TFMeta on ARBITRARY residue. The
// point pool holds a point with residue in every field, the metadata pool holds entries
// with arbitrary content; GetPoint + InitPt (which draws its index entries from the
// metadata pool) must give a point equal to InitPt on a fresh object with fresh entries.
func VerifPointResetArbitrary() {
	pl := vc15NewPayload()
	m0, t0, f0, tn0 := pl.args()
	ref := InitPt(GetPoint(), m0, t0, f0, tn0) // both pools empty: New objects
	verifnd.Reach("reference-built")

	st := vc15StalePoint()
	pointPool.Put(st)
	nm := []int{0, 1, 5}[verifnd.Choice(3)]
	var stale []*TFMeta
	for i := 0; i < nm; i++ {
		sm := vc15StaleMeta()
		stale = append(stale, sm)
		metaPool.Put(sm)
	}
	m1, t1, f1, tn1 := pl.args()
	pt := GetPoint()
	verifnd.Assert(pt == st, "pool-handed-out-the-stale-point")
	pt = InitPt(pt, m1, t1, f1, tn1)
	verifnd.Reach("initialised-on-stale-point")
	used := 0
	for _, m := range pt.Meta {
		for _, sm := range stale {
			if m == sm {
				used++
			}
		}
	}
	want := len(pt.Meta)
	if want > nm {
		want = nm
	}
	verifnd.Assert(used == want, "recycled-index-entries-were-used")
	vc15SamePoint("arbitrary", ref, pt)
	vc15DistinctMeta("arbitrary", ref, pt)
}

// vc15Mutate: what a script run does to its point (through the Input operations).
func vc15Mutate(pt *Point, kind int) {
	switch kind {
	case 0: // nothing
	case 1:
		_ = pt.Set("a", int64(3), ast.Int)
		_ = pt.Set("n", "new", ast.String)
		pt.Drop = true
	case 2:
		_ = pt.SetTag("message", "tagged", ast.String)
		_ = pt.Mv2Tag("a")
		pt.SetMeasurement("renamed")
	case 3:
		for _, k := range vc15Keys {
			pt.Delete(k)
		}
	case 4:
		_ = pt.Set("time", int64(1700000000000000000), ast.Int)
		pt.KeyTime2Time()
		_ = pt.Set("t", nil, ast.Nil)
		_ = pt.Set("a", []any{int64(1)}, ast.List)
	}
}

// VerifPointReuse: reset lemma for *Point / *TFMeta on REACHABLE residue = two-operation
// history. The reference point is built in the fresh state. A predecessor point (any key
// states) is initialised, mutated by one of the mutation families, and returned with
// PutPoint (which returns its index entries to the metadata pool). The state PutPoint left
// in the pool is inspected; then two more points are taken and initialised (the second
// with the same arguments as the reference): equal to the reference, and no index entry
// object is shared between the live points.
func VerifPointReuse() {
	pl := vc15NewPayload()
	m0, t0, f0, tn0 := pl.args()
	ref := InitPt(GetPoint(), m0, t0, f0, tn0)

	// predecessor
	pp := &vc15Payload{i: 77, f: 2.5, b: true, s: "pq"}
	pp.st = [][]int{{1, 1, 1, 1}, {7, 3, 1, 5}, {8, 0, 0, 0}, {2, 6, 4, 8}}[verifnd.Choice(4)]
	ma, ta, fa, _ := pp.args()
	pred := InitPt(GetPoint(), ma, ta, fa, vc15Time(99))
	vc15Mutate(pred, verifnd.Choice(5))
	nmeta := len(pred.Meta)
	PutPoint(pred)
	verifnd.Reach("predecessor-returned")

	got := GetPoint()
	verifnd.Assert(got == pred, "pool-handed-out-the-predecessors-point")
	verifnd.Assert(got.Measurement == "" && got.Tags == nil && got.Fields == nil && !got.Drop && len(got.Meta) == 0,
		"returned-point-is-cleared")
	// every index entry of the predecessor went back to the metadata pool
	var drained []*TFMeta
	for i := 0; i < nmeta; i++ {
		x, _ := metaPool.Get().(*TFMeta)
		drained = append(drained, x)
	}
	for i := range drained {
		for j := 0; j < i; j++ {
			verifnd.Assert(drained[i] != drained[j], "returned-index-entries-distinct")
		}
	}
	for i := len(drained) - 1; i >= 0; i-- {
		metaPool.Put(drained[i])
	}

	// another live point first, then the point under observation
	other := InitPt(GetPoint(), "other", map[string]string{"a": "x"}, map[string]any{"message": "y"}, vc15Time(5))
	m1, t1, f1, tn1 := pl.args()
	pt := InitPt(got, m1, t1, f1, tn1)
	verifnd.Reach("initialised-on-recycled-point")
	vc15SamePoint("after-predecessor", ref, pt)
	vc15DistinctMeta("after-predecessor", ref, other, pt)
}

// VerifMetaReset: reset lemma for *TFMeta alone: GetMeta after PutMeta of an entry with
// arbitrary content returns that object with BOTH fields overwritten by the arguments.
func VerifMetaReset() {
	sm := vc15StaleMeta()
	PutMeta(sm)
	d, f := ast.DType(verifnd.Int64()), PtFlag(verifnd.Int64())
	m := GetMeta(d, f)
	verifnd.Reach("recycled")
	verifnd.Assert(m == sm, "pool-handed-out-the-returned-entry")
	verifnd.Assert(verifnd.And(m.DType == d, m.PtFlag == f), "both-fields-overwritten")
	n := GetMeta(d, f)
	verifnd.Assert(n != m, "empty-pool-gives-a-new-entry")
	verifnd.Assert(verifnd.And(n.DType == d, n.PtFlag == f), "new-entry-initialised")
}
