package ast

// Shared machinery of the C08 harnesses ("load-time checking rejects every invalid
// construct wherever it occurs"), used by the harnesses of package runtime (v1) and
// package runtimev2 (v2):
//
//   - VerifGen builds syntax trees with one hole per (node kind, child slot) pair;
//     every tree it builds is one the goyacc grammar (pkg/parser/gram.y) can produce.
//   - VerifRefScan is the reference traversal A8, written from the struct definitions of
//     expr.go / stmt.go (every child slot of every node kind), NOT from the checkers.
//   - VerifOffenders is the reference verdict: the set of offending constructs.
//   - VerifScript / VerifDump print a tree as script text / as an S-expression (native
//     use only: reporting of findings and the parser round-trip validation).
//
// All identifiers contain "Verif" so that they are excluded from the evidence of
// executed functions of the code under test.

import (
	"fmt"
	"strings"

	"github.com/GuanceCloud/platypus/pkg/token"
)

// ---------------------------------------------------------------------------------
// function table model
// ---------------------------------------------------------------------------------

// Registration states of a function name.
const (
	VerifAbsent    = iota // in no table
	VerifFull             // callable and checkable
	VerifCallOnly         // callable, no checker registered
	VerifCheckOnly        // checker registered, not callable
	VerifNilEntry         // v2 only: the name maps to a nil *Fn (counts as not registered)
	VerifStates
)

// Argument-shape rules of the harness-defined functions.
const (
	VerifRuleAny = iota // every argument list
	VerifRuleOne        // exactly one argument
	VerifRuleLit        // exactly one argument, a string literal
	VerifRuleRng        // exactly one argument, an integer literal in [0,10)
)

type VerifFn struct {
	Name  string
	State int
	Rule  int
}

const (
	VerifFnAny   = "f_any"
	VerifFnOne   = "f_one"
	VerifFnLit   = "f_lit"
	VerifFnRng   = "f_rng"
	VerifFnMaybe = "f_maybe"
)

// VerifArgsOK is the argument-shape rule of a harness-defined function (it is both the
// registered checker's decision and the oracle's: the rule belongs to the configuration,
// not to the code under test).
func VerifArgsOK(rule int, c *CallExpr) bool {
	switch rule {
	case VerifRuleOne:
		return len(c.Param) == 1
	case VerifRuleLit:
		return len(c.Param) == 1 && c.Param[0].NodeType == TypeStringLiteral
	case VerifRuleRng:
		if len(c.Param) != 1 || c.Param[0].NodeType != TypeIntegerLiteral {
			return false
		}
		v := c.Param[0].IntegerLiteral().Val
		return v >= 0 && v < 10
	}
	return true
}

func VerifLookup(tbl []VerifFn, name string) (VerifFn, bool) {
	for _, f := range tbl {
		if f.Name == name {
			return f, true
		}
	}
	return VerifFn{}, false
}

// ---------------------------------------------------------------------------------
// reference traversal (A8)
// ---------------------------------------------------------------------------------

type VerifJump struct {
	Pos     token.LnColPos
	InLoop  bool
	IsBreak bool
}

type VerifScan struct {
	Calls []*CallExpr
	Jumps []VerifJump
}

// VerifRefScan visits every child slot of every node kind of pkg/ast and collects all
// call expressions and all break/continue statements (with whether a for / for-in body
// encloses them).
func VerifRefScan(stmts Stmts) *VerifScan {
	s := &VerifScan{}
	s.stmts(stmts, 0)
	return s
}

func (s *VerifScan) stmts(l Stmts, loops int) {
	for _, n := range l {
		s.node(n, loops)
	}
}

func (s *VerifScan) block(b *BlockStmt, loops int) {
	if b != nil {
		s.stmts(b.Stmts, loops)
	}
}

func (s *VerifScan) node(n *Node, loops int) {
	if n == nil {
		return
	}
	switch n.NodeType {
	case TypeInvalid, TypeIdentifier, TypeStringLiteral, TypeIntegerLiteral,
		TypeFloatLiteral, TypeBoolLiteral, TypeNilLiteral:
		// leaves: no child slot
	case TypeListLiteral: // List []*Node
		for _, e := range n.ListLiteral().List {
			s.node(e, loops)
		}
	case TypeMapLiteral: // KeyValeList [][2]*Node
		for _, kv := range n.MapLiteral().KeyValeList {
			s.node(kv[0], loops)
			s.node(kv[1], loops)
		}
	case TypeInExpr: // LHS, RHS
		s.node(n.InExpr().LHS, loops)
		s.node(n.InExpr().RHS, loops)
	case TypeParenExpr: // Param
		s.node(n.ParenExpr().Param, loops)
	case TypeAttrExpr: // Obj, Attr
		s.node(n.AttrExpr().Obj, loops)
		s.node(n.AttrExpr().Attr, loops)
	case TypeIndexExpr: // Obj *Identifier (a leaf), Index []*Node
		for _, e := range n.IndexExpr().Index {
			s.node(e, loops)
		}
	case TypeUnaryExpr: // RHS
		s.node(n.UnaryExpr().RHS, loops)
	case TypeArithmeticExpr: // LHS, RHS
		s.node(n.ArithmeticExpr().LHS, loops)
		s.node(n.ArithmeticExpr().RHS, loops)
	case TypeConditionalExpr: // LHS, RHS
		s.node(n.ConditionalExpr().LHS, loops)
		s.node(n.ConditionalExpr().RHS, loops)
	case TypeAssignmentExpr: // LHS, RHS []*Node
		for _, e := range n.AssignmentExpr().LHS {
			s.node(e, loops)
		}
		for _, e := range n.AssignmentExpr().RHS {
			s.node(e, loops)
		}
	case TypeCallExpr: // Param []*Node (ParamNormalized/PrivateData are derived by the checkers)
		c := n.CallExpr()
		s.Calls = append(s.Calls, c)
		for _, e := range c.Param {
			s.node(e, loops)
		}
	case TypeSliceExpr: // Obj, Start, End, Step
		e := n.SliceExpr()
		s.node(e.Obj, loops)
		s.node(e.Start, loops)
		s.node(e.End, loops)
		s.node(e.Step, loops)
	case TypeBlockStmt: // Stmts
		s.block(n.BlockStmt(), loops)
	case TypeIfelseStmt: // IfList []{Condition, Block}, Else
		e := n.IfelseStmt()
		for _, el := range e.IfList {
			s.node(el.Condition, loops)
			s.block(el.Block, loops)
		}
		s.block(e.Else, loops)
	case TypeForStmt: // Init, Cond, Loop, Body
		e := n.ForStmt()
		s.node(e.Init, loops)
		s.node(e.Cond, loops)
		s.node(e.Loop, loops)
		s.block(e.Body, loops+1)
	case TypeForInStmt: // Varb, Iter, Body
		e := n.ForInStmt()
		s.node(e.Varb, loops)
		s.node(e.Iter, loops)
		s.block(e.Body, loops+1)
	case TypeContinueStmt:
		s.Jumps = append(s.Jumps, VerifJump{Pos: n.ContinueStmt().Start, InLoop: loops > 0})
	case TypeBreakStmt:
		s.Jumps = append(s.Jumps, VerifJump{Pos: n.BreakStmt().Start, InLoop: loops > 0, IsBreak: true})
	}
}

// VerifOffenders is the reference verdict: the positions of all offending constructs
// (calls: position of the function name; break/continue: position of the keyword).
// A name that is callable but has no checker is reported in `open` instead: the property
// statement does not say whether such a half-registered name counts as registered.
func VerifOffenders(sc *VerifScan, tbl []VerifFn) (off []token.LnColPos, open []token.LnColPos) {
	for _, c := range sc.Calls {
		f, ok := VerifLookup(tbl, c.Name)
		switch {
		case !ok || f.State == VerifAbsent || f.State == VerifCheckOnly || f.State == VerifNilEntry:
			off = append(off, c.NamePos)
		case f.State == VerifCallOnly:
			open = append(open, c.NamePos)
		case !VerifArgsOK(f.Rule, c):
			off = append(off, c.NamePos)
		}
	}
	for _, j := range sc.Jumps {
		if !j.InLoop {
			off = append(off, j.Pos)
		}
	}
	return off, open
}

func VerifPosIn(ln, col, pos int, set []token.LnColPos) bool {
	for _, p := range set {
		if p.Ln == ln && p.Col == col && int(p.Pos) == pos {
			return true
		}
	}
	return false
}

// ---------------------------------------------------------------------------------
// tree builder
// ---------------------------------------------------------------------------------

type VerifGen struct {
	// EmptyAfter: the block that ends just before the placed statement has an empty body
	EmptyAfter bool
	n   int // position counter: every position handed out is distinct
	rot int // filler rotation
}

func (g *VerifGen) P() token.LnColPos {
	g.n++
	return token.LnColPos{Pos: token.Pos(7 * g.n), Ln: g.n, Col: 1 + g.n%5}
}

func (g *VerifGen) Ident(name string) *Node {
	return WrapIdentifier(&Identifier{Name: name, Start: g.P()})
}
func (g *VerifGen) Int(v int64) *Node {
	return WrapIntegerLiteral(&IntegerLiteral{Val: v, Start: g.P()})
}
func (g *VerifGen) Str(v string) *Node {
	return WrapStringLiteral(&StringLiteral{Val: v, Start: g.P()})
}
func (g *VerifGen) Call(name string, args ...*Node) *Node {
	c := &CallExpr{Name: name, NamePos: g.P()}
	c.LParen = g.P()
	c.Param = append(c.Param, args...)
	c.RParen = g.P()
	return WrapCallExpr(c)
}
func (g *VerifGen) Named(key string, v *Node) *Node {
	return g.Assign(EQ, []*Node{g.Ident(key)}, []*Node{v})
}
func (g *VerifGen) Assign(op Op, l, r []*Node) *Node {
	return WrapAssignmentStmt(&AssignmentExpr{LHS: l, RHS: r, Op: op, OpPos: g.P()})
}
func (g *VerifGen) Break() *Node    { return WrapBreakStmt(&BreakStmt{Start: g.P()}) }
func (g *VerifGen) Continue() *Node { return WrapContinueStmt(&ContinueStmt{Start: g.P()}) }

// Fill returns a valid expression for a slot that does not hold the offender; the kinds
// rotate (identifier, valid calls of both rules, literals) so that valid calls with their
// own distinct positions surround the offender.
func (g *VerifGen) Fill() *Node {
	g.rot++
	switch g.rot % 6 {
	case 0:
		return g.Ident("a")
	case 1:
		return g.Call(VerifFnAny)
	case 2:
		return g.Int(int64(g.rot))
	case 3:
		return g.Call(VerifFnOne, g.Ident("b"))
	case 4:
		return g.Str("s")
	}
	return g.Call(VerifFnAny, g.Int(1), g.Named("k", g.Call(VerifFnOne, g.Int(2))))
}

// FillKey is a filler for map keys (the checkers reject number/bool/nil/list/map keys
// with an error that is not part of this property).
func (g *VerifGen) FillKey() *Node {
	g.rot++
	switch g.rot % 3 {
	case 0:
		return g.Ident("key")
	case 1:
		return g.Call(VerifFnOne, g.Str("k"))
	}
	return g.Str("k")
}

// FillBound is a filler for slice bounds (the parser refuses float/list/string literals).
func (g *VerifGen) FillBound() *Node {
	g.rot++
	switch g.rot % 3 {
	case 0:
		return g.Ident("i")
	case 1:
		return g.Call(VerifFnOne, g.Int(1))
	}
	return g.Int(1)
}

func (g *VerifGen) FillStmt() *Node {
	g.rot++
	switch g.rot % 3 {
	case 0:
		return g.Assign(EQ, []*Node{g.Ident("a")}, []*Node{g.Fill()})
	case 1:
		return g.Call(VerifFnAny, g.Fill())
	}
	return g.Assign(ADDEQ, []*Node{g.Ident("a")}, []*Node{g.Call(VerifFnOne, g.Int(3))})
}

func (g *VerifGen) Block(stmts ...*Node) *BlockStmt {
	return &BlockStmt{LBracePos: g.P(), Stmts: Stmts(stmts), RBracePos: g.P()}
}

type verifSel struct {
	k     int
	count int
}

// is reports whether the current slot is the selected one.
func (s *verifSel) is() bool {
	s.count++
	return s.count-1 == s.k
}

func verifIsCollection(x *Node) bool {
	return x != nil && (x.NodeType == TypeListLiteral || x.NodeType == TypeMapLiteral)
}

var verifArithOps = []Op{ADD, SUB, MUL, DIV, MOD}
var verifCondOps = []Op{EQEQ, NEQ, LTE, LT, GTE, GT, AND, OR}
var verifAssignOps = []Op{ADDEQ, SUBEQ, MULEQ, DIVEQ, MODEQ}

// ExprHost returns an expression with x in the k-th (node kind, child slot) position and
// valid fillers in all other slots, and a label of the position. With k out of range it
// returns nil and the number of positions. A nil node with a non-empty label means that x
// is not allowed in that slot (list/map literal as a map key or slice bound).
func (g *VerifGen) ExprHost(k int, x *Node) (*Node, string, int) {
	s := &verifSel{k: k}
	// the expression itself
	if s.is() {
		return x, "self", 0
	}
	// ListLiteral.List[i]
	for n := 1; n <= 3; n++ {
		for i := 0; i < n; i++ {
			if n == 3 && i != 2 {
				continue
			}
			if s.is() {
				l := &ListLiteral{LBracket: g.P()}
				for j := 0; j < n; j++ {
					if j == i {
						l.List = append(l.List, x)
					} else {
						l.List = append(l.List, g.Fill())
					}
				}
				l.RBracket = g.P()
				return WrapListInitExpr(l), "list.elem", 0
			}
		}
	}
	// MapLiteral.KeyValeList[i][0|1]
	for n := 1; n <= 2; n++ {
		for side := 0; side < 2; side++ {
			if s.is() {
				if side == 0 && verifIsCollection(x) {
					return nil, "map.key", 0
				}
				m := &MapLiteral{LBrace: g.P()}
				for j := 0; j < n; j++ {
					kv := [2]*Node{g.FillKey(), g.Fill()}
					if j == n-1 {
						kv[side] = x
					}
					m.KeyValeList = append(m.KeyValeList, kv)
				}
				m.RBrace = g.P()
				if side == 0 {
					return WrapMapLiteral(m), "map.key", 0
				}
				return WrapMapLiteral(m), "map.value", 0
			}
		}
	}
	// ParenExpr.Param
	if s.is() {
		return WrapParenExpr(&ParenExpr{LParen: g.P(), Param: x, RParen: g.P()}), "paren", 0
	}
	// IndexExpr.Index[i]  (chains of 1..3 indices, and the `.[x]` form without object)
	for n := 1; n <= 3; n++ {
		for i := 0; i < n; i++ {
			if n == 3 && i != 2 {
				continue
			}
			if s.is() {
				return g.index("a", n, i, x), "index.index", 0
			}
		}
	}
	if s.is() {
		e := &IndexExpr{Index: []*Node{x}, LBracket: []token.LnColPos{g.P()}, RBracket: []token.LnColPos{g.P()}}
		return WrapIndexExpr(e), "index.index", 0
	}
	// AttrExpr.Obj / AttrExpr.Attr (their children can only be identifiers, index and
	// attribute expressions, so the hole is an index of an index expression below them)
	if s.is() { // a.b[x]
		return WrapAttrExpr(&AttrExpr{Obj: g.Ident("a"), Attr: g.index("b", 1, 0, x), Start: g.P()}), "attr.attr", 0
	}
	if s.is() { // a[x].b
		return WrapAttrExpr(&AttrExpr{Obj: g.index("a", 1, 0, x), Attr: g.Ident("b"), Start: g.P()}), "attr.obj", 0
	}
	if s.is() { // a.b.c[x]
		in := WrapAttrExpr(&AttrExpr{Obj: g.Ident("a"), Attr: g.Ident("b"), Start: g.P()})
		return WrapAttrExpr(&AttrExpr{Obj: in, Attr: g.index("c", 1, 0, x), Start: g.P()}), "attr.attr", 0
	}
	if s.is() { // a.b[x].c
		in := WrapAttrExpr(&AttrExpr{Obj: g.Ident("a"), Attr: g.index("b", 1, 0, x), Start: g.P()})
		return WrapAttrExpr(&AttrExpr{Obj: in, Attr: g.Ident("c"), Start: g.P()}), "attr.obj", 0
	}
	// SliceExpr.Obj/Start/End/Step in all 12 presence forms
	for colon2 := 0; colon2 < 2; colon2++ {
		for form := 0; form < 8; form++ {
			hasStart, hasEnd, hasStep := form&1 != 0, form&2 != 0, form&4 != 0
			if colon2 == 0 && hasStep {
				continue
			}
			for slot := 0; slot < 4; slot++ {
				if (slot == 1 && !hasStart) || (slot == 2 && !hasEnd) || (slot == 3 && !hasStep) {
					continue
				}
				if !s.is() {
					continue
				}
				if slot != 0 && verifIsCollection(x) {
					return nil, "slice.bound", 0
				}
				e := &SliceExpr{Colon2: colon2 == 1, LBracket: g.P()}
				e.Obj = g.Ident("s")
				if hasStart {
					e.Start = g.FillBound()
				}
				if hasEnd {
					e.End = g.FillBound()
				}
				if hasStep {
					e.Step = g.FillBound()
				}
				e.RBracket = g.P()
				switch slot {
				case 0:
					if x.NodeType != TypeCallExpr && x.NodeType != TypeListLiteral && x.NodeType != TypeSliceExpr &&
						x.NodeType != TypeIdentifier {
						return nil, "slice.obj", 0 // not a slice_expr_start of the grammar
					}
					e.Obj = x
					return WrapSliceExpr(e), "slice.obj", 0
				case 1:
					e.Start = x
					return WrapSliceExpr(e), "slice.start", 0
				case 2:
					e.End = x
					return WrapSliceExpr(e), "slice.end", 0
				}
				e.Step = x
				return WrapSliceExpr(e), "slice.step", 0
			}
		}
	}
	// CallExpr.Param[i], positional and named
	for _, fn := range []string{VerifFnAny, VerifFnOne} {
		for named := 0; named < 2; named++ {
			for form := 0; form < 3; form++ { // (x) (x, F) (F, x)
				if fn == VerifFnOne && form != 0 {
					continue
				}
				if !s.is() {
					continue
				}
				arg := x
				if named == 1 {
					arg = g.Named("k", x)
				}
				var n *Node
				switch form {
				case 0:
					n = g.Call(fn, arg)
				case 1:
					n = g.Call(fn, arg, g.Fill())
				default:
					n = g.Call(fn, g.Fill(), arg)
				}
				if named == 1 {
					return n, "call.named", 0
				}
				return n, "call.arg", 0
			}
		}
	}
	// UnaryExpr.RHS
	for _, op := range []Op{ADD, SUB, NOT} {
		if s.is() {
			return WrapUnaryExpr(&UnaryExpr{Op: op, RHS: g.operand(x), OpPos: g.P()}), "unary", 0
		}
	}
	// ArithmeticExpr.LHS/RHS
	for _, op := range verifArithOps {
		for side := 0; side < 2; side++ {
			if s.is() {
				l, r := g.sides(side, x)
				return WrapArithmeticExpr(&ArithmeticExpr{Op: op, LHS: l, RHS: r, OpPos: g.P()}), "arith", 0
			}
		}
	}
	// ConditionalExpr.LHS/RHS
	for _, op := range verifCondOps {
		for side := 0; side < 2; side++ {
			if s.is() {
				l, r := g.sides(side, x)
				return WrapConditionExpr(&ConditionalExpr{Op: op, LHS: l, RHS: r, OpPos: g.P()}), "cond", 0
			}
		}
	}
	// InExpr.LHS/RHS
	for side := 0; side < 2; side++ {
		if s.is() {
			l, r := g.sides(side, x)
			return WrapInExpr(&InExpr{Op: "in", LHS: l, RHS: r, OpPos: g.P()}), "in", 0
		}
	}
	return nil, "", s.count
}

// operand parenthesises an operator expression that becomes an operand of another operator
// (or a for-in iterable), so that the tree is the one the parser builds for its text.
func (g *VerifGen) operand(x *Node) *Node {
	switch x.NodeType {
	case TypeUnaryExpr, TypeArithmeticExpr, TypeConditionalExpr, TypeInExpr:
		return WrapParenExpr(&ParenExpr{LParen: g.P(), Param: x, RParen: g.P()})
	}
	return x
}

func (g *VerifGen) sides(side int, x *Node) (*Node, *Node) {
	x = g.operand(x)
	if side == 0 {
		return x, g.Fill()
	}
	return g.Fill(), x
}

func (g *VerifGen) index(obj string, n, i int, x *Node) *Node {
	e := &IndexExpr{Obj: &Identifier{Name: obj, Start: g.P()}}
	for j := 0; j < n; j++ {
		e.LBracket = append(e.LBracket, g.P())
		if j == i {
			e.Index = append(e.Index, x)
		} else {
			e.Index = append(e.Index, g.Fill())
		}
		e.RBracket = append(e.RBracket, g.P())
	}
	return WrapIndexExpr(e)
}

// StmtHost returns a statement with expression x in its j-th statement-level slot.
// With j out of range it returns nil and the number of slots.
func (g *VerifGen) StmtHost(j int, x *Node) (*Node, string, int) {
	s := &verifSel{k: j}
	// value statement
	if s.is() {
		return x, "stmt.value", 0
	}
	// AssignmentExpr.LHS[i] / RHS[i] with `=`: 1:1 and 2:2
	for n := 1; n <= 2; n++ {
		for side := 0; side < 2; side++ {
			for i := 0; i < n; i++ {
				if !s.is() {
					continue
				}
				var l, r []*Node
				for q := 0; q < n; q++ {
					l = append(l, g.Ident("a"))
					r = append(r, g.Fill())
				}
				if side == 0 {
					l[i] = x
					return g.Assign(EQ, l, r), "assign.lhs", 0
				}
				r[i] = x
				return g.Assign(EQ, l, r), "assign.rhs", 0
			}
		}
	}
	// op= assignments
	for _, op := range verifAssignOps {
		for side := 0; side < 2; side++ {
			if s.is() {
				if side == 0 {
					return g.Assign(op, []*Node{x}, []*Node{g.Fill()}), "opassign.lhs", 0
				}
				return g.Assign(op, []*Node{g.Ident("a")}, []*Node{x}), "opassign.rhs", 0
			}
		}
	}
	// IfelseStmt.IfList[i].Condition
	for n := 1; n <= 3; n++ {
		for withElse := 0; withElse < 2; withElse++ {
			if n != 1 && withElse == 1 {
				continue
			}
			if !s.is() {
				continue
			}
			e := &IfelseStmt{}
			for q := 0; q < n; q++ {
				el := &IfStmtElem{Condition: g.Fill(), Start: g.P()}
				if q == n-1 {
					el.Condition = x
				}
				el.Block = g.Block(g.FillStmt())
				e.IfList = append(e.IfList, el)
			}
			if withElse == 1 {
				e.ElsePos = g.P()
				e.Else = g.Block(g.FillStmt())
			}
			if n == 1 {
				return WrapIfelseStmt(e), "if.cond", 0
			}
			return WrapIfelseStmt(e), "elif.cond", 0
		}
	}
	// ForStmt.Init / Cond / Loop in all 8 presence forms, clause = expression
	for form := 0; form < 8; form++ {
		for slot := 0; slot < 3; slot++ {
			if form&(1<<slot) == 0 {
				continue
			}
			if !s.is() {
				continue
			}
			e := &ForStmt{ForPos: g.P()}
			if form&1 != 0 {
				e.Init = g.Assign(EQ, []*Node{g.Ident("i")}, []*Node{g.Int(0)})
			}
			if form&2 != 0 {
				e.Cond = WrapConditionExpr(&ConditionalExpr{Op: LT, LHS: g.Ident("i"), RHS: g.Fill(), OpPos: g.P()})
			}
			if form&4 != 0 {
				e.Loop = g.Assign(ADDEQ, []*Node{g.Ident("i")}, []*Node{g.Int(1)})
			}
			e.Body = g.Block(g.FillStmt(), g.Break())
			switch slot {
			case 0:
				e.Init = x
				return WrapForStmt(e), "for.init", 0
			case 1:
				e.Cond = x
				return WrapForStmt(e), "for.cond", 0
			}
			e.Loop = x
			return WrapForStmt(e), "for.loop", 0
		}
	}
	// ForStmt.Init / Loop = assignment statement holding x
	for slot := 0; slot < 2; slot++ {
		for side := 0; side < 2; side++ {
			if !s.is() {
				continue
			}
			e := &ForStmt{ForPos: g.P()}
			e.Init = g.Assign(EQ, []*Node{g.Ident("i")}, []*Node{g.Int(0)})
			e.Cond = WrapConditionExpr(&ConditionalExpr{Op: LT, LHS: g.Ident("i"), RHS: g.Int(3), OpPos: g.P()})
			e.Loop = g.Assign(ADDEQ, []*Node{g.Ident("i")}, []*Node{g.Int(1)})
			e.Body = g.Block(g.Continue())
			var a *Node
			if side == 0 {
				a = g.Assign(EQ, []*Node{x}, []*Node{g.Int(0)})
			} else if slot == 0 {
				a = g.Assign(EQ, []*Node{g.Ident("i")}, []*Node{x})
			} else {
				a = g.Assign(SUBEQ, []*Node{g.Ident("i")}, []*Node{x})
			}
			if slot == 0 {
				e.Init = a
				return WrapForStmt(e), "for.init", 0
			}
			e.Loop = a
			return WrapForStmt(e), "for.loop", 0
		}
	}
	// ForInStmt.Iter
	if s.is() {
		e := &ForInStmt{ForPos: g.P(), Varb: g.Ident("v"), InPos: g.P(), Iter: g.operand(x)}
		e.Body = g.Block(g.FillStmt())
		return WrapForInStmt(e), "forin.iter", 0
	}
	return nil, "", s.count
}

// Kinds of enclosing blocks of a nesting path.
const (
	VerifIn_If = iota
	VerifIn_Elif
	VerifIn_Else
	VerifIn_For
	VerifIn_ForIn
	VerifInKinds
)

func (g *VerifGen) blockStmt(kind int, body Stmts) *Node {
	b := &BlockStmt{LBracePos: g.P(), Stmts: body, RBracePos: g.P()}
	switch kind {
	case VerifIn_If:
		return WrapIfelseStmt(&IfelseStmt{IfList: IfList{{Condition: g.Fill(), Block: b, Start: g.P()}}})
	case VerifIn_Elif:
		return WrapIfelseStmt(&IfelseStmt{IfList: IfList{
			{Condition: g.Fill(), Block: g.Block(g.FillStmt()), Start: g.P()},
			{Condition: g.Fill(), Block: b, Start: g.P()}}})
	case VerifIn_Else:
		return WrapIfelseStmt(&IfelseStmt{IfList: IfList{
			{Condition: g.Fill(), Block: g.Block(g.FillStmt()), Start: g.P()}}, Else: b, ElsePos: g.P()})
	case VerifIn_For:
		return WrapForStmt(&ForStmt{ForPos: g.P(),
			Init: g.Assign(EQ, []*Node{g.Ident("i")}, []*Node{g.Int(0)}),
			Cond: WrapConditionExpr(&ConditionalExpr{Op: LT, LHS: g.Ident("i"), RHS: g.Int(3), OpPos: g.P()}),
			Loop: g.Assign(ADDEQ, []*Node{g.Ident("i")}, []*Node{g.Int(1)}),
			Body: b})
	}
	return WrapForInStmt(&ForInStmt{ForPos: g.P(), Varb: g.Ident("v"), InPos: g.P(), Iter: g.Ident("l"), Body: b})
}

// Nest places statement st under the blocks of path (outermost first). With after=true
// st does not sit inside the innermost block but directly after it (a sibling that
// follows the block; the block then holds valid statements, and valid break/continue
// when it is a loop body).
func (g *VerifGen) Nest(path []int, after bool, st *Node) Stmts {
	last := len(path) - 1
	var cur Stmts
	if after && last >= 0 {
		body := Stmts{g.FillStmt()}
		if g.EmptyAfter {
			body = Stmts{}
		} else if path[last] == VerifIn_For || path[last] == VerifIn_ForIn {
			body = append(body, WrapIfelseStmt(&IfelseStmt{IfList: IfList{
				{Condition: g.Fill(), Block: g.Block(g.Continue()), Start: g.P()}}}), g.Break())
		}
		cur = Stmts{g.FillStmt(), g.blockStmt(path[last], body), st, g.FillStmt()}
		last--
	} else {
		cur = Stmts{g.FillStmt(), st, g.FillStmt()}
	}
	for i := last; i >= 0; i-- {
		cur = Stmts{g.FillStmt(), g.blockStmt(path[i], cur), g.FillStmt()}
	}
	return cur
}

// ---------------------------------------------------------------------------------
// printing (native use only)
// ---------------------------------------------------------------------------------

// VerifScript renders statements as script text.
func VerifScript(stmts Stmts) string {
	var b strings.Builder
	verifStmts(&b, stmts, "")
	return b.String()
}

func verifStmts(b *strings.Builder, stmts Stmts, ind string) {
	for _, s := range stmts {
		b.WriteString(ind)
		verifNode(b, s, ind)
		b.WriteString("\n")
	}
}

func verifBlock(b *strings.Builder, blk *BlockStmt, ind string) {
	b.WriteString("{\n")
	if blk != nil {
		verifStmts(b, blk.Stmts, ind+"  ")
	}
	b.WriteString(ind + "}")
}

func verifList(b *strings.Builder, l []*Node, ind string) {
	for i, e := range l {
		if i > 0 {
			b.WriteString(", ")
		}
		verifNode(b, e, ind)
	}
}

func verifNode(b *strings.Builder, n *Node, ind string) {
	if n == nil {
		return
	}
	switch n.NodeType {
	case TypeIdentifier:
		b.WriteString(n.Identifier().Name)
	case TypeStringLiteral:
		b.WriteString("\"" + n.StringLiteral().Val + "\"")
	case TypeIntegerLiteral:
		fmt.Fprintf(b, "%d", n.IntegerLiteral().Val)
	case TypeFloatLiteral:
		fmt.Fprintf(b, "%v", n.FloatLiteral().Val)
	case TypeBoolLiteral:
		fmt.Fprintf(b, "%v", n.BoolLiteral().Val)
	case TypeNilLiteral:
		b.WriteString("nil")
	case TypeListLiteral:
		b.WriteString("[")
		verifList(b, n.ListLiteral().List, ind)
		b.WriteString("]")
	case TypeMapLiteral:
		b.WriteString("{")
		for i, kv := range n.MapLiteral().KeyValeList {
			if i > 0 {
				b.WriteString(", ")
			}
			verifNode(b, kv[0], ind)
			b.WriteString(": ")
			verifNode(b, kv[1], ind)
		}
		b.WriteString("}")
	case TypeParenExpr:
		b.WriteString("(")
		verifNode(b, n.ParenExpr().Param, ind)
		b.WriteString(")")
	case TypeAttrExpr:
		verifNode(b, n.AttrExpr().Obj, ind)
		b.WriteString(".")
		verifNode(b, n.AttrExpr().Attr, ind)
	case TypeIndexExpr:
		e := n.IndexExpr()
		if e.Obj != nil {
			b.WriteString(e.Obj.Name)
		} else {
			b.WriteString(".")
		}
		for _, i := range e.Index {
			b.WriteString("[")
			verifNode(b, i, ind)
			b.WriteString("]")
		}
	case TypeUnaryExpr:
		b.WriteString(string(n.UnaryExpr().Op))
		verifNode(b, n.UnaryExpr().RHS, ind)
	case TypeArithmeticExpr:
		e := n.ArithmeticExpr()
		verifNode(b, e.LHS, ind)
		b.WriteString(" " + string(e.Op) + " ")
		verifNode(b, e.RHS, ind)
	case TypeConditionalExpr:
		e := n.ConditionalExpr()
		verifNode(b, e.LHS, ind)
		b.WriteString(" " + string(e.Op) + " ")
		verifNode(b, e.RHS, ind)
	case TypeInExpr:
		e := n.InExpr()
		verifNode(b, e.LHS, ind)
		b.WriteString(" in ")
		verifNode(b, e.RHS, ind)
	case TypeAssignmentExpr:
		e := n.AssignmentExpr()
		verifList(b, e.LHS, ind)
		b.WriteString(" " + string(e.Op) + " ")
		verifList(b, e.RHS, ind)
	case TypeCallExpr:
		b.WriteString(n.CallExpr().Name + "(")
		verifList(b, n.CallExpr().Param, ind)
		b.WriteString(")")
	case TypeSliceExpr:
		e := n.SliceExpr()
		verifNode(b, e.Obj, ind)
		b.WriteString("[")
		verifNode(b, e.Start, ind)
		b.WriteString(":")
		verifNode(b, e.End, ind)
		if e.Colon2 {
			b.WriteString(":")
			verifNode(b, e.Step, ind)
		}
		b.WriteString("]")
	case TypeIfelseStmt:
		e := n.IfelseStmt()
		for i, el := range e.IfList {
			if i == 0 {
				b.WriteString("if ")
			} else {
				b.WriteString(" elif ")
			}
			verifNode(b, el.Condition, ind)
			b.WriteString(" ")
			verifBlock(b, el.Block, ind)
		}
		if e.Else != nil {
			b.WriteString(" else ")
			verifBlock(b, e.Else, ind)
		}
	case TypeForStmt:
		e := n.ForStmt()
		b.WriteString("for ")
		verifNode(b, e.Init, ind)
		b.WriteString("; ")
		verifNode(b, e.Cond, ind)
		b.WriteString("; ")
		verifNode(b, e.Loop, ind)
		b.WriteString(" ")
		verifBlock(b, e.Body, ind)
	case TypeForInStmt:
		e := n.ForInStmt()
		b.WriteString("for ")
		verifNode(b, e.Varb, ind)
		b.WriteString(" in ")
		verifNode(b, e.Iter, ind)
		b.WriteString(" ")
		verifBlock(b, e.Body, ind)
	case TypeBreakStmt:
		b.WriteString("break")
	case TypeContinueStmt:
		b.WriteString("continue")
	default:
		b.WriteString("<" + n.NodeType.String() + ">")
	}
}

// VerifDump renders the structure of statements (node kinds, operators, names, literal
// values; no positions) for structural comparison with a parsed tree.
func VerifDump(stmts Stmts) string {
	var b strings.Builder
	for _, s := range stmts {
		verifDump(&b, s)
		b.WriteString("\n")
	}
	return b.String()
}

func verifDumpList(b *strings.Builder, tag string, l []*Node) {
	b.WriteString(" " + tag + "[")
	for _, e := range l {
		verifDump(b, e)
	}
	b.WriteString("]")
}

func verifDumpBlock(b *strings.Builder, tag string, blk *BlockStmt) {
	if blk == nil {
		b.WriteString(" " + tag + "<nil>")
		return
	}
	verifDumpList(b, tag, blk.Stmts)
}

func verifDump(b *strings.Builder, n *Node) {
	if n == nil {
		b.WriteString("(nil)")
		return
	}
	b.WriteString("(" + n.NodeType.String())
	switch n.NodeType {
	case TypeIdentifier:
		b.WriteString(" " + n.Identifier().Name)
	case TypeStringLiteral:
		b.WriteString(" '" + n.StringLiteral().Val + "'")
	case TypeIntegerLiteral:
		fmt.Fprintf(b, " %d", n.IntegerLiteral().Val)
	case TypeFloatLiteral:
		fmt.Fprintf(b, " %v", n.FloatLiteral().Val)
	case TypeBoolLiteral:
		fmt.Fprintf(b, " %v", n.BoolLiteral().Val)
	case TypeListLiteral:
		verifDumpList(b, "list", n.ListLiteral().List)
	case TypeMapLiteral:
		for _, kv := range n.MapLiteral().KeyValeList {
			verifDumpList(b, "kv", kv[:])
		}
	case TypeParenExpr:
		verifDump(b, n.ParenExpr().Param)
	case TypeAttrExpr:
		verifDump(b, n.AttrExpr().Obj)
		verifDump(b, n.AttrExpr().Attr)
	case TypeIndexExpr:
		if n.IndexExpr().Obj != nil {
			b.WriteString(" " + n.IndexExpr().Obj.Name)
		} else {
			b.WriteString(" <noobj>")
		}
		verifDumpList(b, "index", n.IndexExpr().Index)
	case TypeUnaryExpr:
		b.WriteString(" " + string(n.UnaryExpr().Op))
		verifDump(b, n.UnaryExpr().RHS)
	case TypeArithmeticExpr:
		b.WriteString(" " + string(n.ArithmeticExpr().Op))
		verifDump(b, n.ArithmeticExpr().LHS)
		verifDump(b, n.ArithmeticExpr().RHS)
	case TypeConditionalExpr:
		b.WriteString(" " + string(n.ConditionalExpr().Op))
		verifDump(b, n.ConditionalExpr().LHS)
		verifDump(b, n.ConditionalExpr().RHS)
	case TypeInExpr:
		verifDump(b, n.InExpr().LHS)
		verifDump(b, n.InExpr().RHS)
	case TypeAssignmentExpr:
		b.WriteString(" " + string(n.AssignmentExpr().Op))
		verifDumpList(b, "lhs", n.AssignmentExpr().LHS)
		verifDumpList(b, "rhs", n.AssignmentExpr().RHS)
	case TypeCallExpr:
		b.WriteString(" " + n.CallExpr().Name)
		verifDumpList(b, "args", n.CallExpr().Param)
	case TypeSliceExpr:
		e := n.SliceExpr()
		fmt.Fprintf(b, " colon2=%v", e.Colon2)
		verifDump(b, e.Obj)
		verifDump(b, e.Start)
		verifDump(b, e.End)
		verifDump(b, e.Step)
	case TypeIfelseStmt:
		for _, el := range n.IfelseStmt().IfList {
			b.WriteString(" cond")
			verifDump(b, el.Condition)
			verifDumpBlock(b, "then", el.Block)
		}
		verifDumpBlock(b, "else", n.IfelseStmt().Else)
	case TypeForStmt:
		e := n.ForStmt()
		verifDump(b, e.Init)
		verifDump(b, e.Cond)
		verifDump(b, e.Loop)
		verifDumpBlock(b, "body", e.Body)
	case TypeForInStmt:
		e := n.ForInStmt()
		verifDump(b, e.Varb)
		verifDump(b, e.Iter)
		verifDumpBlock(b, "body", e.Body)
	}
	b.WriteString(")")
}
