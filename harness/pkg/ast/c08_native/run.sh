#!/bin/sh
# Native side validations of the C08 harness (not part of `gosym check`):
#   - parser round trip: every tree the harness builds == ParsePipeline(printed script)
#   - exhaustive native sweep of VerifCheckShapes (MODE 0..3) / VerifCheckJumps for v1 and v2
#   - D10 through the real load path (engine.ParseScript / ParseV2)
# Usage: sh run.sh            (optionally VERIF_CASE='shapes:0:[0,36,0]' to print one script)
set -e
here=$(cd "$(dirname "$0")" && pwd)
tmp=$(mktemp -d)
python3 - "$here" "$tmp" <<'PY'
import json, os, sys
here, tmp = sys.argv[1], sys.argv[2]
ov = {}
root = '/verif/harness'
for d, _, fs in os.walk(root):
    for f in fs:
        if not f.endswith('.go'):
            continue
        rel = os.path.relpath(os.path.join(d, f), root)
        dd, ff = os.path.split(rel)
        if dd == 'verifnd':
            ov['/repo/internal/verifnd/' + ff] = os.path.join(d, f)
        else:
            ov['/repo/' + dd + '/zz_verif_' + ff] = os.path.join(d, f)
for src, dst in [('parser_roundtrip_test.go.txt', 'pkg/parser/zz_c08_rt_test.go'),
                 ('parser_print_test.go.txt', 'pkg/parser/zz_c08_print_test.go'),
                 ('runtime_sweep_test.go.txt', 'pkg/engine/runtime/zz_c08_sweep_test.go'),
                 ('runtimev2_sweep_test.go.txt', 'pkg/engine/runtimev2/zz_c08_sweep_test.go'),
                 ('engine_d10_test.go.txt', 'pkg/engine/zz_c08_d10_test.go')]:
    ov['/repo/' + dst] = os.path.join(here, src)
json.dump({'Replace': ov}, open(os.path.join(tmp, 'overlay.json'), 'w'))
PY
cd /repo
export GOFLAGS=-mod=mod GOPROXY=off GOSUMDB=off GOTOOLCHAIN=local VERIF_SWEEP_ALL=1
go test -v -vet=off -count=1 -overlay "$tmp/overlay.json" -run 'TestVerifRoundTrip|TestVerifSweep|TestVerifD10|TestVerifPrint' \
  ./pkg/parser ./pkg/engine/runtime ./pkg/engine/runtimev2 ./pkg/engine 2>&1 | grep -v '^=== '
