package ast

// C08 harness bodies shared by v1 (pkg/engine/runtime) and v2 (pkg/engine/runtimev2).
// The interpreter-specific part is the `load` callback: it turns the function table
// model into the interpreter's registration tables and runs Script.Check.

import (
	"github.com/GuanceCloud/platypus/internal/verifnd"
	"github.com/GuanceCloud/platypus/pkg/errchain"
	"github.com/GuanceCloud/platypus/pkg/token"
)

const VerifScriptName = "verif.p"

type VerifLoad func(stmts Stmts, tbl []VerifFn) *errchain.PlError

// VerifJudge asserts the property on one script: accepted <=> the reference traversal
// finds no offender; a rejection points at an offending construct of this script.
// where: label of the position under test (appended to the assertion labels so that
// findings are grouped by syntactic position).
// placed: the offender the builder put into the tree (nil: none), checked against the
// reference traversal first (self-check of the harness).
func VerifJudge(stmts Stmts, tbl []VerifFn, err *errchain.PlError, placed *token.LnColPos, selfCheck bool, where string) {
	off, open := VerifOffenders(VerifRefScan(stmts), tbl)
	if selfCheck {
		if placed != nil {
			verifnd.Assert(len(off) == 1 && off[0] == *placed, "SELF:reference-finds-placed-offender")
		} else {
			verifnd.Assert(len(off) == 0, "SELF:reference-finds-no-offender")
		}
	}
	if len(off) == 0 && len(open) == 0 {
		verifnd.Reach("valid-script")
		verifnd.Assert(err == nil, "valid-script-accepted@"+where)
		return
	}
	if len(off) > 0 {
		verifnd.Reach("offending-script")
		verifnd.Assert(err != nil, "offender-rejected@"+where)
	} else {
		verifnd.Reach("half-registered-only") // nothing asserted about the verdict
	}
	if err != nil {
		verifnd.Reach("rejected")
		verifnd.Assert(len(err.PosChain) > 0, "error-has-position")
		p := err.PosChain[0]
		verifnd.Assert(p.File == VerifScriptName, "error-names-script")
		all := append(append([]token.LnColPos{}, off...), open...)
		verifnd.Assert(VerifPosIn(p.Ln, p.Col, p.Pos, all), "error-points-at-offender@"+where)
	}
}

// VerifBaseTable: the always-registered valid functions used by the fillers.
func VerifBaseTable() []VerifFn {
	return []VerifFn{
		{Name: VerifFnAny, State: VerifFull, Rule: VerifRuleAny},
		{Name: VerifFnOne, State: VerifFull, Rule: VerifRuleOne},
	}
}

// verifCandidate returns the call that sits in the chosen slot and the table, for the
// five variants: call of a name that is (0) not registered / (1) registered; f_one with
// (2) no, (3) one, (4) two arguments. Variants 0, 2, 4 are offenders.
func verifCandidate(g *VerifGen, variant int) (*Node, []VerifFn, bool) {
	tbl := VerifBaseTable()
	switch variant {
	case 0:
		return g.Call(VerifFnMaybe, g.Fill()), tbl, true
	case 1:
		tbl = append(tbl, VerifFn{Name: VerifFnMaybe, State: VerifFull, Rule: VerifRuleAny})
		return g.Call(VerifFnMaybe, g.Fill()), tbl, false
	case 2:
		return g.Call(VerifFnOne), tbl, true
	case 3:
		return g.Call(VerifFnOne, g.Fill()), tbl, false
	}
	return g.Call(VerifFnOne, g.Fill(), g.Fill()), tbl, true
}

type verifContext struct {
	path  []int
	after bool
}

// verifContexts: the statement forms a slot is nested under.
var verifContexts = []verifContext{
	{nil, false},
	{[]int{VerifIn_If}, false},
	{[]int{VerifIn_Elif}, false},
	{[]int{VerifIn_Else}, false},
	{[]int{VerifIn_For}, false},
	{[]int{VerifIn_ForIn}, false},
	{[]int{VerifIn_For, VerifIn_ForIn}, false},
	{[]int{VerifIn_For, VerifIn_If}, false},
	{[]int{VerifIn_Else, VerifIn_For}, false},
	{[]int{VerifIn_ForIn, VerifIn_Elif}, false},
	{[]int{VerifIn_For}, true},
	{[]int{VerifIn_ForIn}, true},
	{[]int{VerifIn_If, VerifIn_For}, true},
	{[]int{VerifIn_For, VerifIn_ForIn}, true},
	{[]int{VerifIn_ForIn, VerifIn_If}, true},
}

// VerifShapeCase builds the script of VerifC08Shapes from the nondeterministic choices
// (exported separately so that the native round-trip validation can enumerate it).
// label names the position (outer/inner for the depth-2 modes), near the slot that
// directly holds the candidate call.
func VerifShapeCase(mode int) (stmts Stmts, tbl []VerifFn, placed *token.LnColPos, label string, near string) {
	g := &VerifGen{}
	_, _, nExpr := g.ExprHost(-1, nil)
	_, _, nStmt := g.StmtHost(-1, nil)
	variant := verifnd.Choice(5)
	x, tbl, isOff := verifCandidate(g, variant)
	if isOff {
		p := x.CallExpr().NamePos
		placed = &p
	}
	var st *Node
	ctx := verifContexts[0]
	switch mode {
	case 0:
		st, label, _ = g.ExprHost(verifnd.Choice(nExpr), x)
		ctx = verifContexts[verifnd.Choice(len(verifContexts))]
		near = label
	case 1:
		st, label, _ = g.StmtHost(verifnd.Choice(nStmt), x)
		ctx = verifContexts[verifnd.Choice(len(verifContexts))]
		near = label
	case 2:
		inner, l1, _ := g.ExprHost(verifnd.Choice(nExpr), x)
		verifnd.Assume(inner != nil)
		st, label, _ = g.ExprHost(verifnd.Choice(nExpr), inner)
		label += "/" + l1
		near = l1
	default:
		inner, l1, _ := g.ExprHost(verifnd.Choice(nExpr), x)
		verifnd.Assume(inner != nil)
		st, label, _ = g.StmtHost(verifnd.Choice(nStmt), inner)
		label += "/" + l1
		near = l1
	}
	verifnd.Assume(st != nil) // the slot does not admit this operand kind (see ExprHost)
	return g.Nest(ctx.path, ctx.after, st), tbl, placed, label, near
}

// VerifC08Shapes: one call in one (node kind, child slot) position, nested under a
// statement form; the call is an unknown function, a registered function with a rejected
// argument list, or valid.
//
//	MODE 0: expression slots x statement contexts
//	MODE 1: statement-level slots (assignment sides, if/elif conditions, for clauses, iterable) x contexts
//	MODE 2: expression slot inside expression slot (nesting depth 2), top level
//	MODE 3: statement-level slot x expression slot, top level
func VerifC08Shapes(load VerifLoad) {
	stmts, tbl, placed, label, near := VerifShapeCase(verifnd.Param("MODE", 0))
	verifnd.Reach("slot:" + label)
	err := load(stmts, tbl)
	_ = near
	VerifJudge(stmts, tbl, err, placed, true, label) // findings are keyed by the position label
}

// VerifJumpCase builds the script of VerifC08Jumps.
func VerifJumpCase(maxDepth int) (stmts Stmts, placed *token.LnColPos, label string) {
	g := &VerifGen{}
	depth := verifnd.Int(0, maxDepth)
	path := make([]int, depth)
	inLoop := false
	after := false
	if depth > 0 {
		after = verifnd.Choice(2) == 1
		if after {
			g.EmptyAfter = verifnd.Bool()
		}
	}
	isLoop := func(k int) bool { return k == VerifIn_For || k == VerifIn_ForIn }
	for i := range path {
		path[i] = verifnd.Choice(VerifInKinds)
		encloses := i < depth-1 || !after
		if encloses && isLoop(path[i]) {
			inLoop = true
		}
	}
	var st *Node
	var p token.LnColPos
	if verifnd.Choice(2) == 0 {
		st = g.Break()
		p = st.BreakStmt().Start
	} else {
		st = g.Continue()
		p = st.ContinueStmt().Start
	}
	stmts = g.Nest(path, after, st)
	switch {
	case !inLoop && after && isLoop(path[depth-1]):
		label = "jump-after-loop-ended"
	case !inLoop:
		label = "jump-outside-loop"
	case after:
		label = "jump-after-inner-block-in-loop"
	case depth >= 2 && !isLoop(path[depth-1]):
		label = "jump-in-if-in-loop"
	case depth >= 2 && isLoop(path[depth-2]):
		label = "jump-in-nested-loop"
	default:
		label = "jump-in-loop"
	}
	if !inLoop {
		placed = &p
	}
	return stmts, placed, label
}

// VerifC08Jumps: break / continue under every nesting of if / elif / else / for / for-in
// blocks up to DEPTH, placed inside the innermost block or directly after it.
func VerifC08Jumps(load VerifLoad) {
	stmts, placed, label := VerifJumpCase(verifnd.Param("DEPTH", 3))
	verifnd.Reach(label)
	tbl := VerifBaseTable()
	err := load(stmts, tbl)
	VerifJudge(stmts, tbl, err, placed, true, label)
}

// verifName is a symbolic one-byte function name over {a,b,c}.
func verifName() string {
	c := verifnd.Byte()
	verifnd.Assume(verifnd.Or(c == 'a', c == 'b', c == 'c'))
	return string([]byte{c})
}

// VerifC08Table: arbitrary registered function tables. Two table entries with symbolic
// one-byte names; the first has a symbolic registration state (absent / full / callable
// without checker / checker without callable / [v2] nil entry) and, when full, a symbolic
// argument rule; the second is absent or full. The script calls two symbolic names: the
// first call has an integer literal of symbolic value or a string literal as argument and
// sits at statement level, in a named argument, in a slice step or in a for condition;
// the second call follows at statement level.
func VerifC08Table(load VerifLoad, states int) {
	g := &VerifGen{}
	tbl := VerifBaseTable()
	n1, n2 := verifName(), verifName()
	verifnd.Assume(n1 != n2)
	st1 := verifnd.Choice(states)
	rule := VerifRuleAny
	if st1 == VerifFull {
		rule = verifnd.Int(VerifRuleAny, VerifRuleRng)
	}
	tbl = append(tbl, VerifFn{Name: n1, State: st1, Rule: rule})
	if verifnd.Bool() {
		tbl = append(tbl, VerifFn{Name: n2, State: VerifFull, Rule: VerifRuleOne})
	}
	var arg *Node
	if verifnd.Choice(2) == 0 {
		arg = g.Int(verifnd.Int64())
	} else {
		arg = g.Str("lit")
	}
	c1 := g.Call(verifName(), arg)
	c2 := g.Call(verifName(), g.Ident("x"))
	var st *Node
	switch verifnd.Choice(4) {
	case 0:
		st = c1
	case 1:
		st = g.Call(VerifFnAny, g.Named("k", c1))
	case 2:
		st = WrapSliceExpr(&SliceExpr{Obj: g.Ident("s"), Colon2: true, End: g.Int(2), Step: c1, LBracket: g.P(), RBracket: g.P()})
	default:
		st = WrapForStmt(&ForStmt{ForPos: g.P(), Cond: c1, Body: g.Block(g.Break())})
	}
	stmts := Stmts{st, c2}
	err := load(stmts, tbl)
	VerifJudge(stmts, tbl, err, nil, false, "table")
}
