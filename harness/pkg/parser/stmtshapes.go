package parser

import (
	"strings"

	"github.com/GuanceCloud/platypus/internal/verifnd"
)

// ---- C06: every component of a statement form lands in its own slot of the tree ----
//
// The layout and precedence harnesses compare two parses of the same form, so an action that
// drops or swaps a component in both goes unnoticed. Here the expected tree of a composed
// statement is assembled from the trees of its components parsed on their own; all components
// of one form are pairwise different, so a dropped, duplicated or swapped one shows.

func vsCanon(src string) string {
	c, ok := vParseAll(src)
	verifnd.Assert(ok, "component-parses")
	return c
}

func vsBody(k int) (string, string) {
	switch k {
	case 0:
		return "", ""
	case 1:
		return "f(i)", vsCanon("f(i)")
	}
	return "g(1)\nbreak", vsCanon("g(1)") + " | break"
}

// VerifStmtShapes: for (8 clause shapes), for-in, if/elif/else chains, multi-assignment, calls
// with positional and named arguments, list and map literals, index and attribute chains.
func VerifStmtShapes() {
	form := verifnd.Choice(9)
	var src, want string
	switch form {
	case 0: // for init; cond; loop { body }
		hi, hc, hl := verifnd.Bool(), verifnd.Bool(), verifnd.Bool()
		v := verifnd.Choice(2)
		init := []string{"i = 0", "j = a + 1"}[v]
		cond := []string{"i < 3", "ok"}[v]
		loop := []string{"i += 1", "j = j * 2"}[v]
		bt, bc := vsBody(verifnd.Choice(3))
		ci, cc, cl := "_", "_", "_"
		src = "for "
		if hi {
			src += init
			ci = vsCanon(init)
		}
		src += "; "
		if hc {
			src += cond
			cc = vsCanon(cond)
		}
		src += "; "
		if hl {
			src += loop
			cl = vsCanon(loop)
		}
		src += " {\n" + bt + "\n}"
		want = "for(" + ci + ";" + cc + ";" + cl + "{" + bc + "})"
	case 1: // for-in
		vn := []string{"x", "k2"}[verifnd.Choice(2)]
		it := []string{"[1, 2]", "m", "\"ab\"", "f(y)"}[verifnd.Choice(4)]
		bt, bc := vsBody(verifnd.Choice(3))
		src = "for " + vn + " in " + it + " {\n" + bt + "\n}"
		want = "forin(" + vn + " in " + vsCanon(it) + "{" + bc + "})"
	case 2: // if / elif / else
		nb := verifnd.Int(1, 3)
		conds := []string{"a < 1", "b", "c == \"x\""}
		bodies := []string{"p = 1", "q = 2\nr = 3", ""}
		bcanon := []string{vsCanon("p = 1"), vsCanon("q = 2") + " | " + vsCanon("r = 3"), ""}
		rot := verifnd.Choice(3)
		want = "if("
		for b := 0; b < nb; b++ {
			kw := "elif "
			if b == 0 {
				kw = "if "
			}
			ci, bi := (b+rot)%3, (b+2*rot)%3
			src += kw + conds[ci] + " {\n" + bodies[bi] + "\n} "
			want += vsCanon(conds[ci]) + "{" + bcanon[bi] + "}"
		}
		if verifnd.Bool() {
			src += "else {\nz = 0\n}"
			want += "else{" + vsCanon("z = 0") + "}"
		}
		want += ")"
	case 3: // multi-assignment
		n := verifnd.Int(1, 3)
		lhs := []string{"a", "b[0]", "c"}
		rhs := []string{"1", "x + 2", "f(3)"}
		rot := verifnd.Choice(3)
		var l, r, lc, rc []string
		for k := 0; k < n; k++ {
			l = append(l, lhs[(k+rot)%3])
			r = append(r, rhs[(k+2*rot)%3])
			lc = append(lc, vsCanon(lhs[(k+rot)%3]))
			rc = append(rc, vsCanon(rhs[(k+2*rot)%3]))
		}
		src = strings.Join(l, ", ") + " = " + strings.Join(r, ", ")
		want = "asg([" + strings.Join(lc, ",") + "] = [" + strings.Join(rc, ",") + "])"
	case 4: // call with positional and named arguments
		np, nn := verifnd.Int(0, 2), verifnd.Int(0, 2)
		pos := []string{"a", "g(1)"}
		named := []string{"x = 1", "y = [2]"}
		rot := verifnd.Choice(2)
		var args, ac []string
		for k := 0; k < np; k++ {
			args = append(args, pos[(k+rot)%2])
			ac = append(ac, vsCanon(pos[(k+rot)%2]))
		}
		for k := 0; k < nn; k++ {
			args = append(args, named[(k+rot)%2])
			ac = append(ac, vsCanon(named[(k+rot)%2]))
		}
		src = "f(" + strings.Join(args, ", ") + ")"
		want = "call(f"
		for _, c := range ac {
			want += ";" + c
		}
		want += ")"
	case 5: // list and map literals
		n := verifnd.Int(0, 3)
		el := []string{"1", "\"s\"", "[a]"}
		rot := verifnd.Choice(3)
		if verifnd.Bool() {
			var e, ec []string
			for k := 0; k < n; k++ {
				e = append(e, el[(k+rot)%3])
				ec = append(ec, vsCanon(el[(k+rot)%3]))
			}
			src = "v = [" + strings.Join(e, ", ") + "]"
			want = "asg([v] = [list(" + strings.Join(ec, ";") + ")])"
		} else {
			keys := []string{"\"k\"", "\"j\"", "\"i\""}
			var e, ec []string
			for k := 0; k < n; k++ {
				e = append(e, keys[(k+2*rot)%3]+": "+el[(k+rot)%3])
				ec = append(ec, vsCanon(keys[(k+2*rot)%3])+":"+vsCanon(el[(k+rot)%3]))
			}
			src = "v = {" + strings.Join(e, ", ") + "}"
			want = "asg([v] = [map(" + strings.Join(ec, ";") + ")])"
		}
	case 6: // index chain
		n := verifnd.Int(1, 3)
		ix := []string{"0", "\"k\"", "i + 1"}
		rot := verifnd.Choice(3)
		src = "a"
		want = "idx(a"
		for k := 0; k < n; k++ {
			src += "[" + ix[(k+rot)%3] + "]"
			want += ";[" + vsCanon(ix[(k+rot)%3]) + "]"
		}
		want += ")"
	case 7: // redundant parentheses add exactly one paren node each
		depth := verifnd.Int(1, 3)
		inner := []string{"a", "a + b", "f(x)", "-1"}[verifnd.Choice(4)]
		txt, c := inner, vsCanon(inner)
		for k := 0; k < depth; k++ {
			txt = "(" + txt + ")"
			c = "P(" + c + ")"
		}
		switch verifnd.Choice(4) {
		case 0:
			src, want = txt, c
		case 1:
			src, want = txt+" * c", "("+c+" * #c)"
			want = "(" + c + " * c)"
		case 2:
			src, want = "-"+txt, "(- "+c+")"
		default:
			src, want = "g("+txt+", (b))", "call(g;"+c+";P(b))"
		}
	default: // unary operators against a tighter binary operator
		op := []string{"-", "+", "!"}[verifnd.Choice(3)]
		bin := []string{"*", "/", "%", "+", "==", "&&"}[verifnd.Choice(6)]
		src = op + "a " + bin + " b"
		want = "((" + op + " a) " + bin + " b)"
	}
	got, ok := vParseAll(src)
	verifnd.Reach("composed")
	verifnd.Assert(ok, "composed-statement-parses")
	verifnd.Assert(got == want, "components-in-their-slots")
}

// vpsSlots: statement templates with one expression slot (%).
var vpsSlots = []string{
	"%", "v = %", "a[%]", "a[0][%]", "a[%] = 1", "a[%:2]", "a[1:%]", "a[1:2:%]", "a[:%]", "a[%:]", "a[::%]", "a[%::2]", "a[:%:2]",
	"f(x)[%:2]", "f(x)[1:%]", "f(x)[1:2:%]", "f(x)[:%]", "f(x)[%:]", "f(x)[::%]", "f(x)[%]",
	"v = [1, %, 3]", "v = {\"k\": %}", "if % {\n}", "if a {\n} elif % {\n}", "for i = 0; %; i = i + 1 {\n}", "for i = %; i < 2; i = i + 1 {\n}",
	"f(k = %)", "f(1, %)", "v = -%", "v = !%", "v = % in [1]", "v = 1 in %", "v, w = 1, %", "v = % * 2", "v = 2 - %", "v = % && b", "v += %",
}

// VerifParenSlots: redundant parentheses add exactly one explicit paren node each, in every
// expression slot: the tree of the statement with `(e)` (or `((e))`) in the slot is the tree of
// the statement with `e` in which e's subtree is wrapped in one (two) paren node(s) and nothing
// else differs. e is chosen so that its rendering occurs exactly once in the statement's.
func VerifParenSlots() {
	tpl := vpsSlots[verifnd.Choice(len(vpsSlots))]
	inner := []string{"qq + 1", "qq", "g(qq)", "qq[0]"}[verifnd.Choice(4)]
	depth := verifnd.Int(1, 2)
	bare := strings.Replace(tpl, "%", inner, 1)
	wrapped := inner
	ic, ok0 := vParseAll(inner)
	verifnd.Assert(ok0, "component-parses")
	wc := ic
	for k := 0; k < depth; k++ {
		wrapped = "(" + wrapped + ")"
		wc = "P(" + wc + ")"
	}
	par := strings.Replace(tpl, "%", wrapped, 1)
	got0, ok1 := vParseAll(bare)
	if !ok1 {
		verifnd.Reach("slot-rejects-this-expression")
		return
	}
	verifnd.Reach("slot")
	if strings.Count(got0, ic) != 1 {
		verifnd.Reach("ambiguous-rendering")
		return
	}
	got1, ok2 := vParseAll(par)
	verifnd.Assert(ok2, "parenthesised-slot-parses")
	verifnd.Assert(got1 == strings.Replace(got0, ic, wc, 1), "parentheses-add-only-paren-nodes")
}
