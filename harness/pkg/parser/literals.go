package parser

import (
	"github.com/GuanceCloud/platypus/pkg/ast"
	plToken "github.com/GuanceCloud/platypus/pkg/token"
	"unicode/utf8"

	"github.com/GuanceCloud/platypus/internal/verifnd"
)

// ---- C07: literals denote exactly the values they spell ----

// vAlphabet: bytes a source text is drawn from (quotes, backslash, newline, NUL, every escape
// letter family, octal/hex digits, the two bytes of a 2-byte rune; with WIDE=1 also the three
// bytes of U+FFFD and a 4-byte rune).
func vSrcByte() byte {
	c := verifnd.Byte()
	if verifnd.Param("WIDE", 0) == 1 {
		verifnd.Assume(verifnd.Or(c == '"', c == '\'', c == '`', c == '\\', c == '\n', c == 0, c == 'a', c == 'n', c == 'x',
			c == 'u', c == 'U', c == '0', c == '3', c == '7', c == '8', c == 'f', c == 'F', c == 'g', c == 'D', c == 0xC3, c == 0xA9,
			c == 0xEF, c == 0xBF, c == 0xBD, c == 0xF0, c == 0x9F, c == 0x98, c == 0x80))
	} else {
		verifnd.Assume(verifnd.Or(c == '"', c == '\'', c == '`', c == '\\', c == '\n', c == 0, c == 'a', c == 'n', c == 'x',
			c == 'u', c == '0', c == '7', c == '8', c == 'f', c == 0xC3, c == 0xA9))
	}
	return c
}

func vSource(n int) string {
	b := make([]byte, n)
	for i := range b {
		b[i] = vSrcByte()
	}
	return string(b)
}

func vHex(c byte) (int, bool) {
	switch {
	case '0' <= c && c <= '9':
		return int(c - '0'), true
	case 'a' <= c && c <= 'f':
		return int(c-'a') + 10, true
	case 'A' <= c && c <= 'F':
		return int(c-'A') + 10, true
	}
	return 0, false
}

// vRefQuoted is the reference decoder A5 for '...' and "..." literals (Go escape rules with
// ' equivalent to "). ok=false: s is not a well-formed quoted literal.
func vRefQuoted(s string) (out []byte, ok bool) {
	n := len(s)
	if n < 2 {
		return nil, false
	}
	q := s[0]
	if (q != '"' && q != '\'') || s[n-1] != q {
		return nil, false
	}
	body := s[1 : n-1]
	out = []byte{}
	i := 0
	for i < len(body) {
		c := body[i]
		if c == q || c == '\n' {
			return nil, false
		}
		if c != '\\' {
			out = append(out, c)
			i++
			continue
		}
		if i+1 >= len(body) {
			return nil, false
		}
		e := body[i+1]
		i += 2
		switch e {
		case 'a':
			out = append(out, 7)
		case 'b':
			out = append(out, 8)
		case 'f':
			out = append(out, 12)
		case 'n':
			out = append(out, 10)
		case 'r':
			out = append(out, 13)
		case 't':
			out = append(out, 9)
		case 'v':
			out = append(out, 11)
		case '\\':
			out = append(out, '\\')
		case '\'', '"':
			if e != q {
				return nil, false
			}
			out = append(out, e)
		case '0', '1', '2', '3', '4', '5', '6', '7':
			if i+2 > len(body) {
				return nil, false
			}
			v := int(e - '0')
			for k := 0; k < 2; k++ {
				d := body[i+k]
				if d < '0' || d > '7' {
					return nil, false
				}
				v = v*8 + int(d-'0')
			}
			i += 2
			if v > 255 {
				return nil, false
			}
			out = append(out, byte(v))
		case 'x', 'u', 'U':
			nd := 2
			if e == 'u' {
				nd = 4
			} else if e == 'U' {
				nd = 8
			}
			if i+nd > len(body) {
				return nil, false
			}
			v := 0
			for k := 0; k < nd; k++ {
				d, okh := vHex(body[i+k])
				if !okh {
					return nil, false
				}
				v = v*16 + d
			}
			i += nd
			if e == 'x' {
				out = append(out, byte(v))
				break
			}
			if v > 0x10FFFF || (v >= 0xD800 && v < 0xE000) {
				return nil, false
			}
			var tmp [4]byte
			m := utf8.EncodeRune(tmp[:], rune(v))
			out = append(out, tmp[:m]...)
		default:
			return nil, false
		}
	}
	return out, true
}

// vRefRaw: back-quoted identifier: the bytes between the back-quotes, no back-quote inside.
func vRefRaw(s string) ([]byte, bool) {
	n := len(s)
	if n < 2 || s[0] != '`' || s[n-1] != '`' {
		return nil, false
	}
	for i := 1; i < n-1; i++ {
		if s[i] == '`' {
			return nil, false
		}
	}
	return []byte(s[1 : n-1]), true
}

// vRefTriple: triple-quoted raw multi-line string: bytes between the first and last three
// quote characters (the same character). defined=false where the reference leaves the
// denotation open (content with two adjacent quote characters, or ending in a quote).
func vRefTriple(s string) (out []byte, ok bool, defined bool) {
	n := len(s)
	if n < 6 {
		return nil, false, true
	}
	q := s[0]
	if q != '"' && q != '\'' {
		return nil, false, true
	}
	for k := 0; k < 3; k++ {
		if s[k] != q || s[n-1-k] != q {
			return nil, false, true
		}
	}
	body := s[3 : n-3]
	for i := 0; i < len(body); i++ {
		isq := body[i] == '"' || body[i] == '\''
		if isq && (i+1 == len(body) || body[i+1] == '"' || body[i+1] == '\'') {
			return nil, false, false
		}
	}
	return []byte(body), true, true
}

// VerifStringLiteral: for every valid-UTF-8 source text s of 2..N bytes over the alphabet:
// if s spells a well-formed string literal, the lexer turns it into exactly one string token
// spanning s and the unquoter returns exactly the denoted bytes; and whenever the lexer+unquoter
// accept s as one literal, s is well-formed and the value is the denoted one.
func VerifStringLiteral() {
	n := verifnd.Int(2, verifnd.Param("N", 4))
	s := vSource(n)
	verifnd.Assume(utf8.ValidString(s))
	q := s[0]
	verifnd.Assume(verifnd.Or(q == '"', q == '\'', q == '`'))
	vCheckStringLiteral(s)
}

// vCheckStringLiteral: the obligations of VerifStringLiteral on one source text.
func vCheckStringLiteral(s string) {
	n := len(s)
	q := s[0]

	var ref []byte
	var refOK bool
	defined := true
	triple := n >= 6 && s[1] == q && s[2] == q && q != '`'
	switch {
	case q == '`':
		ref, refOK = vRefRaw(s)
	case triple:
		ref, refOK, defined = vRefTriple(s)
	default:
		ref, refOK = vRefQuoted(s)
	}

	p := &parser{}
	p.lex = Lexer{input: s, state: lexStatements}
	var it Item
	p.lex.NextItem(&it)
	isStr := it.Typ == STRING || it.Typ == QUOTED_STRING || it.Typ == MULTILINE_STRING
	spans := isStr && it.Pos == 0 && len(it.Val) == len(s)
	accepted := false
	var val string
	if spans {
		verifnd.Assert(it.Val == s, "token-text-is-source")
		if it.Typ == MULTILINE_STRING {
			val = p.unquoteMultilineString(it.Val)
		} else {
			val = p.unquoteString(it.Val)
		}
		accepted = len(p.errs) == 0
	}
	if !defined {
		verifnd.Reach("denotation-open")
		return
	}
	if refOK {
		verifnd.Reach("well-formed")
		verifnd.Assert(spans, "well-formed-literal-is-one-token")
		verifnd.Assert(accepted, "well-formed-literal-accepted")
		if accepted {
			verifnd.Assert(val == string(ref), "literal-value")
		}
	} else {
		verifnd.Reach("malformed")
		verifnd.Assert(!accepted, "malformed-literal-rejected")
	}
}

// vQuotedUnits: what a literal's content is assembled from in VerifQuotedTemplate.
var vQuotedUnits = []string{"a", " ", "\n", "\t", "\\", "\xC3\xA9", "\xEF\xBF\xBD", "\xF0\x9F\x98\x80", "#", "\\n", "\x00"}

// VerifQuotedTemplate: each of the five quoting forms (single, double, back-quoted, triple
// single, triple double) around a content of 0..K units drawn from vQuotedUnits (letters, blanks,
// raw line breaks and tabs, a backslash, an escape, NUL, 2-, 3- and 4-byte characters including a
// well-formed U+FFFD): the same obligations as VerifStringLiteral, for contents longer than its
// byte bound (a triple-quoted literal needs six bytes of quotes alone).
func VerifQuotedTemplate() {
	form := verifnd.Choice(5)
	k := verifnd.Int(0, verifnd.Param("K", 2))
	body := ""
	for i := 0; i < k; i++ {
		body += vQuotedUnits[verifnd.Choice(len(vQuotedUnits))]
	}
	open := []string{"'", "\"", "`", "'''", "\"\"\""}[form]
	verifnd.Reach([]string{"single", "double", "back-quoted", "triple-single", "triple-double"}[form])
	vCheckStringLiteral(open + body + open)
}

// VerifIntLiteral: C07(b) - a decimal or hexadecimal digit string of 1..D symbolic digits
// lexes as one NUMBER token and becomes an integer literal of exactly that value
// (reference A6: sum of digit * base^k); a directly applied sign negates/keeps it and
// moves the literal's start to the sign.
func VerifIntLiteral() {
	hex := verifnd.Int(0, 1) == 1
	nd := 0
	if hex {
		nd = verifnd.Int(1, verifnd.Param("DH", 2))
	} else {
		nd = verifnd.Int(1, verifnd.Param("DD", 3))
	}
	b := []byte{}
	if hex {
		b = append(b, '0')
		x := verifnd.Byte()
		verifnd.Assume(verifnd.Or(x == 'x', x == 'X'))
		b = append(b, x)
	}
	var ref int64
	for i := 0; i < nd; i++ {
		c := verifnd.Byte()
		if hex {
			verifnd.Assume(verifnd.Or(verifnd.And(c >= '0', c <= '9'), verifnd.And(c >= 'a', c <= 'f'), verifnd.And(c >= 'A', c <= 'F')))
			var d int64
			switch {
			case c <= '9':
				d = int64(c - '0')
			case c >= 'a':
				d = int64(c-'a') + 10
			default:
				d = int64(c-'A') + 10
			}
			ref = ref*16 + d
		} else {
			verifnd.Assume(verifnd.And(c >= '0', c <= '9'))
			ref = ref*10 + int64(c-'0')
		}
		b = append(b, c)
	}
	s := string(b)
	leadingZero := !hex && nd > 1 && s[0] == '0'
	if verifnd.Param("LZ", 1) == 0 {
		verifnd.Assume(!leadingZero) // position-only use of this harness (C17): the value question is C07's
	}
	sign := verifnd.Int(0, 2) // 0 none, 1 '+', 2 '-'
	src := s
	if sign == 1 {
		src = "+" + s
	} else if sign == 2 {
		src = "-" + s
	}
	p := &parser{}
	p.lex = Lexer{input: src, state: lexStatements}
	p.posCache = *plToken.NewPosCache(src)
	var opItem, it Item
	if sign != 0 {
		p.lex.NextItem(&opItem)
		verifnd.Assert((sign == 1 && opItem.Typ == ADD) || (sign == 2 && opItem.Typ == SUB), "sign-token")
	}
	p.lex.NextItem(&it)
	verifnd.Assert(it.Typ == NUMBER && it.Val == s, "digits-are-one-number-token")
	if it.Typ != NUMBER {
		return
	}
	p.yyParser.lval.item = it
	node := p.newNumberLiteral(it)
	if sign != 0 && node != nil {
		node = p.newUnaryExpr(opItem, node)
	}
	want := ref
	if sign == 2 {
		want = -ref
	}
	ok := node != nil && node.NodeType == ast.TypeIntegerLiteral && node.IntegerLiteral().Val == want
	if leadingZero {
		verifnd.Reach("leading-zero")
		verifnd.Assert(ok, "int-literal-value:decimal-with-leading-zero")
		return
	}
	verifnd.Reach("int-literal")
	verifnd.Assert(ok, "int-literal-value")
	if ok {
		verifnd.Assert(node.IntegerLiteral().Start.Pos == 0, "literal-start-is-first-byte-or-sign")
	}
}

// VerifNumberBoundary: integers at power-of-two / decimal-digit boundaries, and non-integer
// numerics (stored as the nearest float64 as strconv.ParseFloat computes it: plumbing only).
func VerifNumberBoundary() {
	type tc struct {
		s     string
		isInt bool
		i     int64
		f     float64
	}
	cases := []tc{
		{"9223372036854775807", true, 9223372036854775807, 0},
		{"9223372036854775806", true, 9223372036854775806, 0},
		{"4611686018427387904", true, 4611686018427387904, 0},
		{"9007199254740993", true, 9007199254740993, 0},
		{"9007199254740992", true, 9007199254740992, 0},
		{"4294967296", true, 4294967296, 0},
		{"2147483648", true, 2147483648, 0},
		{"999999999999999999", true, 999999999999999999, 0},
		{"1000000000000000000", true, 1000000000000000000, 0},
		{"0x7fffffffffffffff", true, 9223372036854775807, 0},
		{"0X7FFFFFFFFFFFFFFF", true, 9223372036854775807, 0},
		{"0xdeadBEEF", true, 0xdeadbeef, 0},
		{"0", true, 0, 0},
		{"9223372036854775808", false, 0, 9223372036854775808},
		{"18446744073709551616", false, 0, 18446744073709551616},
		{"1.5", false, 0, 1.5},
		{"0.1", false, 0, 0.1},
		{"1e3", false, 0, 1e3},
		{"1E-3", false, 0, 1e-3},
		{"2.5e+10", false, 0, 2.5e+10},
		{"123456789.123456789", false, 0, 123456789.123456789},
		{"1e400", false, 0, 0}, // out of range: an error or +Inf, never a wrong finite value
	}
	k := verifnd.Choice(len(cases))
	c := cases[k]
	sign := verifnd.Int(0, 2)
	src := c.s
	if sign == 1 {
		src = "+" + c.s
	} else if sign == 2 {
		src = "-" + c.s
	}
	p := &parser{}
	p.lex = Lexer{input: src, state: lexStatements}
	p.posCache = *plToken.NewPosCache(src)
	var opItem, it Item
	if sign != 0 {
		p.lex.NextItem(&opItem)
	}
	p.lex.NextItem(&it)
	verifnd.Assert(it.Typ == NUMBER && it.Val == c.s, "number-is-one-token")
	if it.Typ != NUMBER {
		return
	}
	p.yyParser.lval.item = it
	node := p.newNumberLiteral(it)
	if c.s == "1e400" {
		verifnd.Reach("overflow")
		if node != nil && node.NodeType == ast.TypeFloatLiteral {
			f := node.FloatLiteral().Val
			verifnd.Assert(f > 1e308, "overflowing-literal-is-inf-or-error")
		} else {
			verifnd.Assert(node == nil && len(p.errs) > 0, "overflowing-literal-is-inf-or-error")
		}
		return
	}
	verifnd.Assert(node != nil, "number-literal-accepted")
	if node == nil {
		return
	}
	if sign != 0 {
		node = p.newUnaryExpr(opItem, node)
	}
	if c.isInt {
		verifnd.Reach("int-boundary")
		want := c.i
		if sign == 2 {
			want = -c.i
		}
		verifnd.Assert(node.NodeType == ast.TypeIntegerLiteral && node.IntegerLiteral().Val == want, "int-boundary-value")
	} else {
		verifnd.Reach("float")
		want := c.f
		if sign == 2 {
			want = -c.f
		}
		verifnd.Assert(node.NodeType == ast.TypeFloatLiteral && node.FloatLiteral().Val == want, "float-value")
	}
}

// VerifKeywordCase: C07(c) - true/false/nil/null and the statement keywords are recognised
// in every letter case (one symbolic case bit per letter).
func VerifKeywordCase() {
	kws := []struct {
		w string
		t ItemType
	}{{"true", TRUE}, {"false", FALSE}, {"nil", NIL}, {"null", NULL}, {"if", IF}, {"elif", ELIF}, {"else", ELSE},
		{"for", FOR}, {"in", IN}, {"break", BREAK}, {"continue", CONTINUE}}
	k := verifnd.Choice(len(kws))
	w := kws[k].w
	b := make([]byte, len(w))
	for i := range b {
		c := verifnd.Byte()
		verifnd.Assume(verifnd.Or(c == w[i], c == w[i]-32))
		b[i] = c
	}
	l := Lex(string(b))
	var it Item
	l.NextItem(&it)
	verifnd.Reach("keyword")
	verifnd.Assert(it.Typ == kws[k].t, "keyword-recognised-in-any-case")
	verifnd.Assert(it.Pos == 0 && len(it.Val) == len(w), "keyword-token-spans-word")
}

// VerifEscapeTemplate: quoted literals consisting of one numeric escape - \ooo, \xHH, \uHHHH,
// \UHHHHHHHH - whose digits are symbolic (any hex digit in either case, or the non-digit 'g'),
// optionally followed by one plain character: lexer + unquoter accept it exactly when the
// reference does (digits valid for the base, octal <= 377, code point <= U+10FFFF and no
// surrogate), and then decode to exactly the reference bytes.
func VerifEscapeTemplate() {
	kinds := []struct {
		letter byte
		n      int
	}{{'0', 3}, {'x', 2}, {'u', 4}, {'U', 8}}
	k := kinds[verifnd.Choice(4)]
	q := byte('"')
	if verifnd.Param("FULL", 0) == 1 {
		q = []byte{'"', '\''}[verifnd.Int(0, 1)]
	}
	b := []byte{q, '\\'}
	if k.letter != '0' {
		b = append(b, k.letter)
	}
	for i := 0; i < k.n; i++ {
		c := verifnd.Byte()
		if k.letter == 'U' && i < 2 {
			verifnd.Assume(c == '0') // keep \U within reach: the top two digits are 0
		} else {
			verifnd.Assume(verifnd.Or(verifnd.And(c >= '0', c <= '9'), verifnd.And(c >= 'a', c <= 'g'), verifnd.And(c >= 'A', c <= 'F')))
		}
		b = append(b, c)
	}
	if verifnd.Param("FULL", 0) == 1 && verifnd.Int(0, 1) == 1 {
		b = append(b, 'z')
	}
	b = append(b, q)
	s := string(b)
	ref, refOK := vRefQuoted(s)

	p := &parser{}
	p.lex = Lexer{input: s, state: lexStatements}
	var it Item
	p.lex.NextItem(&it)
	spans := it.Typ == STRING && it.Pos == 0 && len(it.Val) == len(s)
	accepted := false
	var val string
	if spans {
		val = p.unquoteString(it.Val)
		accepted = len(p.errs) == 0
	}
	if refOK {
		verifnd.Reach("well-formed-escape")
		verifnd.Assert(spans && accepted, "well-formed-escape-accepted")
		if accepted {
			verifnd.Assert(val == string(ref), "escape-value")
		}
	} else {
		verifnd.Reach("malformed-escape")
		verifnd.Assert(!accepted, "malformed-escape-rejected")
	}
}
