package parser

import (
	"errors"

	"github.com/GuanceCloud/platypus/internal/verifnd"
	"github.com/GuanceCloud/platypus/pkg/ast"
	"github.com/GuanceCloud/platypus/pkg/errchain"
	plToken "github.com/GuanceCloud/platypus/pkg/token"
)

// ---- C15 (parser side): the outcome of ParsePipeline is a function of (name, source) alone ----
//
// The pooled object is *parser. Its state: lex, yyParser{lval, stack[16], char}, parseResult,
// lastClosing, errs, inject, injecting, posCache. "Fresh" = the object parserPool.New returns.

// ---- structural comparison of two outcomes (written from the ast type definitions) ----

func vc15Pos(a, b plToken.LnColPos) bool {
	return verifnd.And(a.Pos == b.Pos, a.Ln == b.Ln, a.Col == b.Col)
}

func vc15PosList(a, b []plToken.LnColPos) bool {
	if len(a) != len(b) {
		return false
	}
	ok := true
	for i := range a {
		ok = verifnd.And(ok, vc15Pos(a[i], b[i]))
	}
	return ok
}

func vc15Nodes(a, b []*ast.Node) bool {
	if len(a) != len(b) {
		return false
	}
	ok := true
	for i := range a {
		ok = verifnd.And(ok, vc15Node(a[i], b[i]))
	}
	return ok
}

func vc15Block(a, b *ast.BlockStmt) bool {
	if a == nil || b == nil {
		return a == nil && b == nil
	}
	return verifnd.And(vc15Pos(a.LBracePos, b.LBracePos), vc15Pos(a.RBracePos, b.RBracePos), vc15Nodes(a.Stmts, b.Stmts))
}

func vc15Float(a, b float64) bool { return verifnd.Or(a == b, verifnd.And(a != a, b != b)) }

// vc15Node: same shape, same payloads, same positions. Node identity is NOT compared
// (two parses build two trees).
func vc15Node(a, b *ast.Node) bool {
	if a == nil || b == nil {
		return a == nil && b == nil
	}
	if a.NodeType != b.NodeType {
		return false
	}
	switch a.NodeType {
	case ast.TypeIdentifier:
		x, y := a.Identifier(), b.Identifier()
		return verifnd.And(x.Name == y.Name, vc15Pos(x.Start, y.Start))
	case ast.TypeStringLiteral:
		x, y := a.StringLiteral(), b.StringLiteral()
		return verifnd.And(x.Val == y.Val, vc15Pos(x.Start, y.Start))
	case ast.TypeIntegerLiteral:
		x, y := a.IntegerLiteral(), b.IntegerLiteral()
		return verifnd.And(x.Val == y.Val, vc15Pos(x.Start, y.Start))
	case ast.TypeFloatLiteral:
		x, y := a.FloatLiteral(), b.FloatLiteral()
		return verifnd.And(vc15Float(x.Val, y.Val), vc15Pos(x.Start, y.Start))
	case ast.TypeBoolLiteral:
		x, y := a.BoolLiteral(), b.BoolLiteral()
		return verifnd.And(x.Val == y.Val, vc15Pos(x.Start, y.Start))
	case ast.TypeNilLiteral:
		return vc15Pos(a.NilLiteral().Start, b.NilLiteral().Start)
	case ast.TypeListLiteral:
		x, y := a.ListLiteral(), b.ListLiteral()
		return verifnd.And(vc15Nodes(x.List, y.List), vc15Pos(x.LBracket, y.LBracket), vc15Pos(x.RBracket, y.RBracket))
	case ast.TypeMapLiteral:
		x, y := a.MapLiteral(), b.MapLiteral()
		if len(x.KeyValeList) != len(y.KeyValeList) {
			return false
		}
		ok := verifnd.And(vc15Pos(x.LBrace, y.LBrace), vc15Pos(x.RBrace, y.RBrace))
		for i := range x.KeyValeList {
			ok = verifnd.And(ok, vc15Node(x.KeyValeList[i][0], y.KeyValeList[i][0]), vc15Node(x.KeyValeList[i][1], y.KeyValeList[i][1]))
		}
		return ok
	case ast.TypeInExpr:
		x, y := a.InExpr(), b.InExpr()
		return verifnd.And(x.Op == y.Op, vc15Node(x.LHS, y.LHS), vc15Node(x.RHS, y.RHS), vc15Pos(x.OpPos, y.OpPos))
	case ast.TypeParenExpr:
		x, y := a.ParenExpr(), b.ParenExpr()
		return verifnd.And(vc15Node(x.Param, y.Param), vc15Pos(x.LParen, y.LParen), vc15Pos(x.RParen, y.RParen))
	case ast.TypeAttrExpr:
		x, y := a.AttrExpr(), b.AttrExpr()
		return verifnd.And(vc15Node(x.Obj, y.Obj), vc15Node(x.Attr, y.Attr), vc15Pos(x.Start, y.Start))
	case ast.TypeIndexExpr:
		x, y := a.IndexExpr(), b.IndexExpr()
		if (x.Obj == nil) != (y.Obj == nil) {
			return false
		}
		ok := verifnd.And(vc15Nodes(x.Index, y.Index), vc15PosList(x.LBracket, y.LBracket), vc15PosList(x.RBracket, y.RBracket))
		if x.Obj != nil {
			ok = verifnd.And(ok, x.Obj.Name == y.Obj.Name, vc15Pos(x.Obj.Start, y.Obj.Start))
		}
		return ok
	case ast.TypeUnaryExpr:
		x, y := a.UnaryExpr(), b.UnaryExpr()
		return verifnd.And(x.Op == y.Op, vc15Node(x.RHS, y.RHS), vc15Pos(x.OpPos, y.OpPos))
	case ast.TypeArithmeticExpr:
		x, y := a.ArithmeticExpr(), b.ArithmeticExpr()
		return verifnd.And(x.Op == y.Op, vc15Node(x.LHS, y.LHS), vc15Node(x.RHS, y.RHS), vc15Pos(x.OpPos, y.OpPos))
	case ast.TypeConditionalExpr:
		x, y := a.ConditionalExpr(), b.ConditionalExpr()
		return verifnd.And(x.Op == y.Op, vc15Node(x.LHS, y.LHS), vc15Node(x.RHS, y.RHS), vc15Pos(x.OpPos, y.OpPos))
	case ast.TypeAssignmentExpr:
		x, y := a.AssignmentExpr(), b.AssignmentExpr()
		return verifnd.And(x.Op == y.Op, vc15Nodes(x.LHS, y.LHS), vc15Nodes(x.RHS, y.RHS), vc15Pos(x.OpPos, y.OpPos))
	case ast.TypeCallExpr:
		x, y := a.CallExpr(), b.CallExpr()
		return verifnd.And(x.Name == y.Name, vc15Pos(x.NamePos, y.NamePos), vc15Pos(x.LParen, y.LParen), vc15Pos(x.RParen, y.RParen),
			vc15Nodes(x.Param, y.Param), vc15Nodes(x.ParamNormalized, y.ParamNormalized),
			x.PrivateData == nil, y.PrivateData == nil, x.Grok == nil, y.Grok == nil, x.Re == nil, y.Re == nil)
	case ast.TypeSliceExpr:
		x, y := a.SliceExpr(), b.SliceExpr()
		return verifnd.And(vc15Node(x.Obj, y.Obj), vc15Node(x.Start, y.Start), vc15Node(x.End, y.End), vc15Node(x.Step, y.Step),
			x.Colon2 == y.Colon2, vc15Pos(x.LBracket, y.LBracket), vc15Pos(x.RBracket, y.RBracket))
	case ast.TypeBlockStmt:
		return vc15Block(a.BlockStmt(), b.BlockStmt())
	case ast.TypeIfelseStmt:
		x, y := a.IfelseStmt(), b.IfelseStmt()
		if len(x.IfList) != len(y.IfList) {
			return false
		}
		ok := verifnd.And(vc15Block(x.Else, y.Else), vc15Pos(x.ElsePos, y.ElsePos))
		for i := range x.IfList {
			p, q := x.IfList[i], y.IfList[i]
			if p == nil || q == nil {
				if p != nil || q != nil {
					return false
				}
				continue
			}
			ok = verifnd.And(ok, vc15Node(p.Condition, q.Condition), vc15Block(p.Block, q.Block), vc15Pos(p.Start, q.Start))
		}
		return ok
	case ast.TypeForStmt:
		x, y := a.ForStmt(), b.ForStmt()
		return verifnd.And(vc15Node(x.Init, y.Init), vc15Node(x.Cond, y.Cond), vc15Node(x.Loop, y.Loop), vc15Block(x.Body, y.Body), vc15Pos(x.ForPos, y.ForPos))
	case ast.TypeForInStmt:
		x, y := a.ForInStmt(), b.ForInStmt()
		return verifnd.And(vc15Node(x.Varb, y.Varb), vc15Node(x.Iter, y.Iter), vc15Block(x.Body, y.Body), vc15Pos(x.ForPos, y.ForPos), vc15Pos(x.InPos, y.InPos))
	case ast.TypeContinueStmt:
		return vc15Pos(a.ContinueStmt().Start, b.ContinueStmt().Start)
	case ast.TypeBreakStmt:
		return vc15Pos(a.BreakStmt().Start, b.BreakStmt().Start)
	}
	return false
}

// vc15SameOutcome asserts that two (tree, error) outcomes of ParsePipeline are equal:
// error-ness, error position chain, error text, tree nil-ness, tree shape/payload/positions.
func vc15SameOutcome(tag string, r0 ast.Stmts, e0 error, r1 ast.Stmts, e1 error) {
	verifnd.Assert((e0 == nil) == (e1 == nil), tag+":same-error-ness")
	if (e0 == nil) != (e1 == nil) {
		return
	}
	if e0 != nil {
		verifnd.Reach(tag + ":error")
		p0, ok0 := e0.(*errchain.PlError)
		p1, ok1 := e1.(*errchain.PlError)
		verifnd.Assert(ok0 == ok1, tag+":same-error-kind")
		if ok0 && ok1 {
			verifnd.Assert(len(p0.PosChain) == len(p1.PosChain), tag+":same-error-chain-length")
			if len(p0.PosChain) == len(p1.PosChain) {
				for i := range p0.PosChain {
					a, b := p0.PosChain[i], p1.PosChain[i]
					verifnd.Assert(verifnd.And(a.File == b.File, a.Pos == b.Pos, a.Ln == b.Ln, a.Col == b.Col), tag+":same-error-position")
				}
			}
			verifnd.Assert(p0.Err == p1.Err, tag+":same-error-text")
		} else if !ok0 && !ok1 {
			verifnd.Assert(e0 == e1, tag+":same-error-value")
		}
	}
	verifnd.Assert((r0 == nil) == (r1 == nil), tag+":same-tree-nilness")
	if r0 != nil && r1 != nil {
		verifnd.Reach(tag + ":tree")
		verifnd.Assert(vc15Nodes(r0, r1), tag+":same-tree")
	}
}

// ---- sources ----

// vc15Corpus: concrete scripts that together exercise the grammar's node kinds, the
// epsilon rule (SPACE_EOLS), error recovery, action-reported errors and lexer errors.
var vc15Corpus = []string{
	// valid, wide
	"a = 1 + f(x, \"s\", k=2)\nif a > 1 && !b { b = [1, 2.5] } elif b { c = {\"k\": nil} } else { d = -1 }\n",
	"for i = 0; i < 3; i += 1 {\n if i in [1] { break }\n}\nfor x in \"ab\" { continue }\n# c\ng(\n 1,\n)\n",
	"y = a[1:2]\nz = a.b[0]\nw = (a)\nv = x[1][\"k\"]\np, q = 1, true\nr = `k` + '''m''' * 2.5 % 3\n",
	"",
	"\n\n;\n",
	// syntax errors (error recovery pops the stack)
	"a = (1 +\n",
	"if x { f(1) } elif {",
	"x = 1 }",
	"f(1,, 2)",
	// errors reported by actions
	"a = 1 / 0",
	"for 1 in x { }",
	"a = 0x",
	"b = \"\\xZ\"",
	// lexer errors
	"a = \"abc",
	"a = 1 $ 2",
	"`",
}

// vc15Source: a concrete corpus member (SRC=0), or 0..N symbolic bytes (SRC=1), or a
// concrete statement followed by 0..N symbolic bytes (SRC=2).
func vc15Source() string {
	switch verifnd.Param("SRC", 0) {
	case 1:
		return vLexInput(verifnd.Int(0, verifnd.Param("N", 2)))
	case 2:
		return "a = f(1) " + vLexInput(verifnd.Int(0, verifnd.Param("N", 2)))
	}
	k := verifnd.Choice(len(vc15Corpus))
	return vc15Corpus[k]
}

// ---- arbitrary residue ----

const vc15Stale = "STALE"

func vc15StaleNode() *ast.Node {
	return ast.WrapIdentifier(&ast.Identifier{Name: vc15Stale, Start: plToken.LnColPos{Pos: -7777, Ln: -7777, Col: -7777}})
}

func vc15StaleSym() yySymType {
	var s yySymType
	s.yys = int(verifnd.Int64())
	// pointer/slice fields: nil or a distinguished stale object
	if verifnd.Param("STALEPTR", 1) == 1 {
		n := vc15StaleNode()
		s.aststmts = ast.Stmts{n, n}
		s.astblock = &ast.BlockStmt{Stmts: ast.Stmts{n}}
		s.ifitem = &ast.IfStmtElem{Condition: n, Block: s.astblock}
		s.iflist = []*ast.IfStmtElem{s.ifitem}
		s.node = n
		s.nodes = []*ast.Node{n, n, n}
	}
	s.item = Item{Typ: ItemType(verifnd.Int64()), Pos: plToken.Pos(verifnd.Int64()), Val: vc15Stale}
	return s
}

// vc15StaleParser: a *parser whose every field holds residue no reset has touched:
// scalars are unconstrained symbolic values, containers are non-empty and hold
// distinguished stale objects, the lexer is in the middle of another text.
func vc15StaleParser() *parser {
	st := &parser{}
	st.inject = ItemType(verifnd.Int64())
	st.injecting = verifnd.Bool()
	st.lastClosing = plToken.Pos(verifnd.Int64())
	st.errs = ParseErrors{
		{Pos: &PositionRange{Start: 3, End: 4}, Err: errors.New(vc15Stale), Query: vc15Stale},
		{Pos: &PositionRange{Start: 0, End: 1}, Err: errors.New(vc15Stale), Query: vc15Stale},
	}
	st.parseResult = ast.Stmts{vc15StaleNode(), vc15StaleNode()}
	staleItem := &Item{Typ: ERROR, Pos: 99, Val: vc15Stale}
	st.lex = Lexer{
		input:         "STALE \"stale text\nwith (lines [\n",
		state:         lexString,
		pos:           plToken.Pos(verifnd.Int64()),
		start:         plToken.Pos(verifnd.Int64()),
		width:         plToken.Pos(verifnd.Int64()),
		lastPos:       plToken.Pos(verifnd.Int64()),
		itemp:         staleItem,
		scannedItem:   verifnd.Bool(),
		parenDepth:    int(verifnd.Int64()),
		braceDepth:    int(verifnd.Int64()),
		bracketDepth:  int(verifnd.Int64()),
		stringOpen:    rune(verifnd.Int64()),
		backquoteOpen: rune(verifnd.Int64()),
	}
	st.posCache = *plToken.NewPosCache("STALE\n\n\n\nanother text\n\n")
	st.yyParser.lval = vc15StaleSym()
	st.yyParser.char = int(verifnd.Int64())
	for i := range st.yyParser.stack {
		st.yyParser.stack[i] = vc15StaleSym()
	}
	return st
}

// VerifParserResetArbitrary: reset lemma for *parser, arbitrary residue. The reference outcome
// is ParsePipeline on the empty pool (the pool's New object = fresh process state). Then
// the pool is drained and loaded with a parser carrying arbitrary residue in EVERY field;
// ParsePipeline must hand that object out (asserted) and produce an equal outcome.
func VerifParserResetArbitrary() {
	src := vc15Source()
	r0, e0 := ParsePipeline("verif.p", src)
	used, _ := parserPool.Get().(*parser) // drain: the pool is empty again
	verifnd.Assert(used != nil, "pool-returned-first-parser")

	st := vc15StaleParser()
	parserPool.Put(st)
	r1, e1 := ParsePipeline("verif.p", src)
	verifnd.Reach("parsed-on-stale-parser")
	got, _ := parserPool.Get().(*parser)
	verifnd.Assert(got == st, "stale-parser-was-the-one-used")
	vc15SameOutcome("arbitrary", r0, e0, r1, e1)
}

// vc15Few: indices of corpus members used as fixed predecessors / successors when the other
// side is symbolic: valid wide, valid loops, empty, syntax error with recovery, unbalanced
// brace, action error, lexer error (ordered: the first FEW are used).
var vc15Few = []int{0, 5, 13, 9, 1, 3, 7}

// vc15Fresh parses on the pool's New object and drains the pool again, so that every call
// sees the fresh process state.
func vc15Fresh(name, src string) (ast.Stmts, error) {
	r, e := ParsePipeline(name, src)
	parserPool.Get()
	return r, e
}

// VerifParserReuse: reset lemma for *parser, REACHABLE residue = two-operation
// non-interference of loading. Reference: load(s2) in the fresh state. Then load(s1) leaves
// its residue in the pooled parser (error list, injection flags, lexer state, position
// cache, lookahead, value stack); load(s2) on that same object must equal the reference;
// and load(s1) repeated afterwards must equal the earlier load(s1) (no later parse
// modified a tree handed out earlier).
//   SRC=0: s1, s2 any pair of corpus members.
//   SRC=1: s1 = ANY source of 0..N bytes, s2 = each of the vc15Few members (each on the residue of s1).
//   SRC=2: s2 = ANY source of 0..N bytes, s1 = corpus members 0, 5, 13 in turn (valid, syntax error, lexer error).
func VerifParserReuse() {
	switch verifnd.Param("SRC", 0) {
	case 0:
		s2 := vc15Corpus[verifnd.Choice(len(vc15Corpus))]
		s1 := vc15Corpus[verifnd.Choice(len(vc15Corpus))]
		vc15Pair(s1, s2, true)
	case 1:
		s1 := vLexInput(verifnd.Int(0, verifnd.Param("N", 2)))
		var refR []ast.Stmts
		var refE []error
		few := vc15Few[:verifnd.Param("FEW", 4)]
		for _, k := range few {
			r, e := vc15Fresh("two.p", vc15Corpus[k])
			refR, refE = append(refR, r), append(refE, e)
		}
		ra, ea := ParsePipeline("one.p", s1)
		p1, _ := parserPool.Get().(*parser)
		// the residue of load(s1), restored before every successor so that each of them
		// meets the state load(s1) left (heap objects are shared, which is what a real
		// history has as well)
		snap := *p1
		parserPool.Put(p1)
		for j, k := range few {
			r, e := ParsePipeline("two.p", vc15Corpus[k])
			vc15SameOutcome("after-predecessor", refR[j], refE[j], r, e)
			p, _ := parserPool.Get().(*parser)
			verifnd.Assert(p == p1, "successor-reused-the-predecessors-parser")
			*p = snap
			parserPool.Put(p)
		}
		rb, eb := ParsePipeline("one.p", s1)
		vc15SameOutcome("predecessor-repeated", ra, ea, rb, eb)
	case 2:
		s2 := vLexInput(verifnd.Int(0, verifnd.Param("N", 2)))
		r0, e0 := vc15Fresh("two.p", s2)
		for _, k := range []int{0, 5, 13} {
			ParsePipeline("one.p", vc15Corpus[k])
			r1, e1 := ParsePipeline("two.p", s2)
			vc15SameOutcome("after-predecessor", r0, e0, r1, e1)
		}
	}
	verifnd.Reach("done")
}

func vc15Pair(s1, s2 string, fromFresh bool) {
	r0, e0 := vc15Fresh("two.p", s2)
	if fromFresh {
		// the predecessor itself starts from the fresh state
		parserPool.Get()
	}
	ra, ea := ParsePipeline("one.p", s1)
	p1, _ := parserPool.Get().(*parser)
	parserPool.Put(p1)
	r1, e1 := ParsePipeline("two.p", s2)
	p2, _ := parserPool.Get().(*parser)
	parserPool.Put(p2)
	verifnd.Assert(p1 != nil && p1 == p2, "successor-reused-the-predecessors-parser")
	rb, eb := ParsePipeline("one.p", s1)
	vc15SameOutcome("after-predecessor", r0, e0, r1, e1)
	vc15SameOutcome("predecessor-repeated", ra, ea, rb, eb)
}

// ---- sensitivity self-test (NOT part of the check): a harness-local copy of
// newParser/ParsePipeline with ONE reset statement removed (MUT=1 errs, 2 injecting,
// 3 parseResult, 4 lex, 5 posCache) run on the arbitrary-residue parser. The comparison
// above must report a finding for every reset that matters. MUT=0 is the unmutated copy.
func vc15MutantPipeline(mut int, name, input string) (res ast.Stmts, err error) {
	p, _ := parserPool.Get().(*parser)
	if mut != 2 {
		p.injecting = false
	}
	if mut != 1 {
		p.errs = nil
	}
	if mut != 3 {
		p.parseResult = nil
	}
	if mut != 4 {
		p.lex = Lexer{input: input, state: lexStatements}
	}
	if mut != 5 {
		p.posCache = *plToken.NewPosCache(input)
	}
	defer parserPool.Put(p)
	defer p.recover(&err)
	p.InjectItem(START_STMTS)
	p.yyParser.Parse(p)
	if len(p.errs) != 0 {
		err = conv2PlError(name, p.errs, &p.posCache)
		return
	}
	if p.parseResult != nil {
		res = p.parseResult
	}
	return res, err
}

func VerifParserResetMutant() {
	src := vc15Source()
	r0, e0 := vc15Fresh("verif.p", src)
	parserPool.Put(vc15StaleParser())
	r1, e1 := vc15MutantPipeline(verifnd.Param("MUT", 0), "verif.p", src)
	verifnd.Reach("parsed-by-mutant")
	vc15SameOutcome("mutant", r0, e0, r1, e1)
}
