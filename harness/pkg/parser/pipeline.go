package parser

import (
	"github.com/GuanceCloud/platypus/internal/verifnd"
	"github.com/GuanceCloud/platypus/pkg/errchain"
)

// VerifParsePipeline: C05 integration - the public ParsePipeline (pooled parser, real lexer,
// goyacc driver, actions, recover, conv2PlError) on ANY source of 0..N bytes: it returns,
// no panic is swallowed by its recover, and a reported error names the script and a
// line/column inside the source that are consistent with its byte offset.
func VerifParsePipeline() {
	n := verifnd.Int(0, verifnd.Param("N", 2))
	src := vLexInput(n)
	res, err := ParsePipeline("verif.p", src)
	verifnd.Reach("returned")
	verifnd.Assert(err != errUnexpected, "no-panic-inside-parser")
	if err == nil {
		verifnd.Reach("tree")
		_ = res
		return
	}
	verifnd.Reach("error")
	verifnd.Assert(res == nil, "error-and-tree-are-exclusive")
	pe, ok := err.(*errchain.PlError)
	verifnd.Assert(ok, "error-is-positioned-error")
	if !ok {
		return
	}
	verifnd.Assert(len(pe.PosChain) == 1, "one-position")
	if len(pe.PosChain) != 1 {
		return
	}
	pos := pe.PosChain[0]
	verifnd.Assert(pos.File == "verif.p", "error-names-the-script")
	verifnd.Assert(pos.Pos >= 0 && pos.Pos <= len(src), "error-offset-inside-source")
	if pos.Pos < 0 || pos.Pos > len(src) {
		return
	}
	ln, last := 1, -1
	for i := 0; i < pos.Pos; i++ {
		if src[i] == '\n' {
			ln++
			last = i
		}
	}
	verifnd.Assert(pos.Ln == ln && pos.Col == pos.Pos-last, "error-line-column-match-offset")
}
