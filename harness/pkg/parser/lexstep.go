package parser

import (
	"github.com/GuanceCloud/platypus/internal/verifnd"
	plToken "github.com/GuanceCloud/platypus/pkg/token"
)

// ---- C05 layer 1 / C17(b): lexer step lemma ----

// vLexInput: N bytes, arbitrary (ALPHA=0) or over the token-relevant alphabet (ALPHA=1).
func vLexInput(n int) string {
	if verifnd.Param("ALPHA", 0) == 0 {
		return verifnd.Bytes(n)
	}
	b := make([]byte, n)
	for i := range b {
		c := verifnd.Byte()
		verifnd.Assume(verifnd.Or(c == ' ', c == '\n', c == '#', c == '"', c == '\'', c == '`', c == '\\', c == 'a', c == '1',
			c == '.', c == '=', c == '(', c == ')', c == '!', c == 0xC3, c == 0xA9, c == 'e', c == 'x', c == '0'))
		b[i] = c
	}
	return string(b)
}

// VerifLexStep: from the statement state at position 0 of ANY input of 0..N bytes (invalid
// UTF-8 included) with arbitrary non-negative bracket depths, one NextItem returns; the item is
// an error or a token whose text is the source bytes at its offset, preceded only by blanks;
// the lexer has advanced to the end of the token; EOF appears only at the end of input and
// every other token is non-empty. By induction on the token index (the lexer only looks
// forward: position p of s is position 0 of s[p:]) tokens cover the source in order without
// overlap, skipping only blanks.
func VerifLexStep() {
	n := verifnd.Int(0, verifnd.Param("N", 3))
	src := vLexInput(n)
	l := Lex(src)
	pd, bd, kd := verifnd.Int64(), verifnd.Int64(), verifnd.Int64()
	verifnd.Assume(verifnd.And(pd >= 0, bd >= 0, kd >= 0, pd < 1000, bd < 1000, kd < 1000))
	l.parenDepth, l.braceDepth, l.bracketDepth = int(pd), int(bd), int(kd)
	var it Item
	l.NextItem(&it)
	verifnd.Reach("returned")
	verifnd.Assert(l.start >= 0 && int(l.start) <= len(src), "lexer-start-inside-source")
	verifnd.Assert(l.pos >= 0 && int(l.pos) <= len(src), "lexer-pos-inside-source")
	if it.Typ == ERROR {
		verifnd.Reach("error-item")
		return
	}
	verifnd.Reach("token")
	p := int(it.Pos)
	verifnd.Assert(p >= 0 && p+len(it.Val) <= len(src), "token-inside-source")
	if p < 0 || p+len(it.Val) > len(src) {
		return
	}
	verifnd.Assert(it.Val == src[p:p+len(it.Val)], "token-text-is-source-at-offset")
	for i := 0; i < p; i++ {
		c := src[i]
		verifnd.Assert(verifnd.Or(c == ' ', c == '\t', c == '\r'), "only-blanks-skipped")
	}
	verifnd.Assert(int(l.start) == p+len(it.Val) && l.pos == l.start, "lexer-advanced-to-token-end")
	if it.Typ == EOF {
		verifnd.Assert(p == len(src), "eof-only-at-end")
	} else {
		verifnd.Assert(len(it.Val) > 0, "token-non-empty")
		verifnd.Assert(l.state != nil, "stream-continues")
	}
	verifnd.Assert(l.lastPos == it.Pos, "lastpos")
	_ = plToken.Pos(0)
}
