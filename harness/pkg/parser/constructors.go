package parser

import (
	"github.com/GuanceCloud/platypus/internal/verifnd"
	"github.com/GuanceCloud/platypus/pkg/ast"
	plToken "github.com/GuanceCloud/platypus/pkg/token"
)

// ---- C05 layer 3: node constructors on everything their grammar slots can deliver ----

// vExprSlot returns what an `expr` slot of the grammar can hold: nil (an operand whose own
// constructor failed and recorded an error) or a node of any expression kind.
func vExprSlot(p *parser) *ast.Node {
	pos := plToken.LnColPos{Pos: 1, Ln: 1, Col: 2}
	switch verifnd.Choice(12) {
	case 0:
		return nil
	case 9:
		// constructors that do not inspect their operands build nodes with a nil child when an
		// operand failed to parse (its error is recorded): such nodes reach later constructors
		return ast.WrapInExpr(&ast.InExpr{Op: "in", LHS: ast.WrapIdentifier(&ast.Identifier{Name: "x", Start: pos}), RHS: nil})
	case 10:
		return ast.WrapInExpr(&ast.InExpr{Op: "in", LHS: nil, RHS: ast.WrapIdentifier(&ast.Identifier{Name: "y", Start: pos})})
	case 11:
		return ast.WrapParenExpr(&ast.ParenExpr{Param: nil})
	case 1:
		return ast.WrapIdentifier(&ast.Identifier{Name: "a", Start: pos})
	case 2:
		return ast.WrapIntegerLiteral(&ast.IntegerLiteral{Val: verifnd.Int64(), Start: pos})
	case 3:
		return ast.WrapFloatLiteral(&ast.FloatLiteral{Val: verifnd.Float64(), Start: pos})
	case 4:
		return ast.WrapStringLiteral(&ast.StringLiteral{Val: "s", Start: pos})
	case 5:
		return ast.WrapListInitExpr(&ast.ListLiteral{List: []*ast.Node{}, LBracket: pos})
	case 6:
		return ast.WrapCallExpr(&ast.CallExpr{Name: "f", NamePos: pos})
	case 7:
		return ast.WrapIndexExpr(&ast.IndexExpr{Obj: &ast.Identifier{Name: "a", Start: pos}, Index: []*ast.Node{ast.WrapIntegerLiteral(&ast.IntegerLiteral{Val: 0})}})
	}
	return ast.WrapInExpr(&ast.InExpr{Op: "in", LHS: ast.WrapIdentifier(&ast.Identifier{Name: "x", Start: pos}), RHS: ast.WrapIdentifier(&ast.Identifier{Name: "y", Start: pos})})
}

// VerifConstructors: no constructor panics on any combination of slot contents, and a
// constructor that returns nil for non-nil operands has recorded an error.
func VerifConstructors() {
	src := "0123456789"
	p := &parser{}
	p.lex = Lexer{input: src}
	p.posCache = *plToken.NewPosCache(src)
	p.yyParser.lval.item = Item{Typ: ID, Pos: 3, Val: "x"}
	tk := func(t ItemType, at int) Item { return Item{Typ: t, Pos: plToken.Pos(at), Val: "x"} }
	which := verifnd.Choice(13)
	var res *ast.Node
	anyNil := false
	nslots := 0
	slot := func() *ast.Node {
		nslots++
		if nslots > 2 { // at most two slots vary per path; the rest hold an identifier
			return ast.WrapIdentifier(&ast.Identifier{Name: "z"})
		}
		n := vExprSlot(p)
		if n == nil {
			anyNil = true
		} else if n.NodeType == ast.TypeInExpr && (n.InExpr().LHS == nil || n.InExpr().RHS == nil) {
			anyNil = true // a node with a nil child: the child's error is already recorded
		} else if n.NodeType == ast.TypeParenExpr && n.ParenExpr().Param == nil {
			anyNil = true
		}
		return n
	}
	switch which {
	case 0:
		ops := []ItemType{ADD, SUB, NOT}
		res = p.newUnaryExpr(tk(ops[verifnd.Choice(3)], 0), slot())
	case 1:
		ops := []ItemType{ADD, SUB, MUL, DIV, MOD}
		res = p.newArithmeticExpr(slot(), slot(), tk(ops[verifnd.Choice(5)], 2))
	case 2:
		ops := []ItemType{EQEQ, NEQ, LT, LTE, GT, GTE, AND, OR}
		res = p.newConditionalExpr(slot(), slot(), tk(ops[verifnd.Choice(8)], 2))
	case 3:
		res = p.newInExpr(slot(), slot(), tk(IN, 2))
	case 4:
		res = p.newForInStmt(slot(), &ast.BlockStmt{}, tk(FOR, 0))
	case 5:
		res = p.newCallExpr(slot(), []*ast.Node{slot()}, tk(LEFT_PAREN, 1), tk(RIGHT_PAREN, 2))
	case 6:
		res = p.newIndexExpr(slot(), tk(LEFT_BRACKET, 1), slot(), tk(RIGHT_BRACKET, 2))
	case 7:
		var a [4]*ast.Node
		first := verifnd.Choice(4) // which two of obj/start/end/step vary
		a[first], a[(first+1)%4] = slot(), slot()
		for k := range a {
			if k != first && k != (first+1)%4 {
				a[k] = slot()
			}
		}
		res = p.newSliceExpr(a[0], a[1], a[2], a[3], verifnd.Int(0, 1) == 1, tk(LEFT_BRACKET, 1), tk(RIGHT_BRACKET, 2))
	case 8:
		res = p.newParenExpr(tk(LEFT_PAREN, 0), slot(), tk(RIGHT_PAREN, 2))
	case 9:
		l := p.newListLiteralStart(0)
		res = p.newListLiteralAppendExpr(l, slot())
		if res != nil {
			res = p.newListLiteralEnd(res, 2)
		}
	case 10:
		m := p.newMapLiteralStart(0)
		res = p.newMapLiteralAppendExpr(m, slot(), slot())
		if res != nil {
			res = p.newMapLiteralEnd(res, 2)
		}
	case 11:
		res = p.newForStmt(slot(), slot(), slot(), &ast.BlockStmt{}, tk(FOR, 0))
	case 12:
		e := p.newIfElem(tk(IF, 0), slot(), &ast.BlockStmt{})
		if e != nil {
			res = p.newIfElifStmt([]*ast.IfStmtElem{e})
		}
		ops := []ItemType{EQ, ADD_EQ, SUB_EQ, MUL_EQ, DIV_EQ, MOD_EQ}
		_ = p.newAssignmentStmt([]*ast.Node{slot()}, []*ast.Node{slot()}, tk(ops[verifnd.Choice(6)], 1))
		_ = p.newAttrExpr(slot(), slot())
		if e == nil {
			verifnd.Assert(len(p.errs) > 0, "nil-result-has-recorded-error")
			return
		}
	}
	verifnd.Reach("constructed")
	if res == nil && !anyNil {
		verifnd.Assert(len(p.errs) > 0, "nil-result-has-recorded-error")
	}
}
