package parser

import (
	"github.com/GuanceCloud/platypus/internal/verifnd"
)

// ---- C06(c): layout never matters ----

// gap kinds: where the grammar allows what
const (
	gBlank0 = iota // between two tokens that need no separator: blanks only
	gBlank1        // between two tokens that need a separator: at least one blank
	gBreak         // after an operator, a comma, an opening bracket: blanks, line breaks, comments
	gStmt          // between statements: separators, blank lines, comment lines
	gBreak1        // like gBreak after a word operator (`in`): a separator is required
)

var vGapOptions = [][]string{
	gBlank0: {"", " ", "\t", " \r ", "  "},
	gBlank1: {" ", "\t", "  ", " \t "},
	gBreak:  {"", " ", "\n", "\n\n", " # c\n", "\n\t ", "# x\n# y\n", "#\n", " #\n  "},
	gStmt:   {"\n", ";", "\n\n", " # c\n", ";\n", "\n# c\n", " ; ", " #\n", "\n#\n"},
	gBreak1: {" ", "\n", "\n\n", " # c\n", "\n\t ", " # x\n# y\n", " #\n"},
}

type vSeg struct {
	text string
	gap  int // kind of the gap AFTER this segment (ignored for the last one)
}

// vForms: every statement/expression form with its gap slots.
var vForms = [][]vSeg{
	// binary operators
	{{"a", gBlank0}, {"+", gBreak}, {"b", gBlank0}, {"*", gBreak}, {"c", gBlank0}, {"==", gBreak}, {"d", 0}},
	{{"a", gBlank0}, {"&&", gBreak}, {"b", gBlank0}, {"||", gBreak}, {"!", gBlank0}, {"c", 0}},
	{{"a", gBlank1}, {"in", gBreak1}, {"b", 0}},
	{{"-", gBlank0}, {"a", gBlank0}, {"%", gBreak}, {"-", gBlank0}, {"1", 0}},
	// every operand kind in front of a sign-like operator that is followed by a digit
	{{"`f`", gBlank0}, {"-", gBreak}, {"1", gBlank0}, {"+", gBreak}, {"`g h`", 0}},
	{{"a", gBlank0}, {"[", gBreak}, {"0", gBlank0}, {"]", gBlank0}, {"-", gBreak}, {"1", gBlank0}, {"+", gBreak}, {"2", 0}},
	{{"f", gBlank0}, {"(", gBreak}, {"x", gBlank0}, {")", gBlank0}, {"-", gBreak}, {"1", 0}},
	{{"2", gBlank0}, {"-", gBreak}, {"1", gBlank0}, {"+", gBreak}, {"1.5", gBlank0}, {"-", gBreak}, {"0x1f", 0}},
	{{"x", gBlank0}, {"=", gBreak}, {"true", gBlank0}, {"-", gBreak}, {"1", gBlank0}, {"+", gBreak}, {"nil", gBlank0}, {"-", gBreak}, {"2", 0}},
	{{"x", gBlank0}, {"=", gBreak}, {"\"s\"", gBlank0}, {"+", gBreak}, {"1", gBlank0}, {"-", gBreak}, {"'t'", gBlank0}, {"-", gBreak}, {"3", 0}},
	// parentheses, calls with positional and named arguments
	{{"(", gBreak}, {"a", gBlank0}, {"-", gBreak}, {"b", gBlank0}, {")", gBlank0}, {"/", gBreak}, {"c", 0}},
	{{"f", gBlank0}, {"(", gBreak}, {"a", gBlank0}, {",", gBreak}, {"x", gBlank0}, {"=", gBreak}, {"1", gBlank0}, {")", 0}},
	{{"f", gBlank0}, {"(", gBreak}, {")", 0}},
	{{"f", gBlank0}, {"(", gBreak}, {"g", gBlank0}, {"(", gBreak}, {"a", gBlank0}, {")", gBlank0}, {",", gBreak}, {"\"s\"", gBlank0}, {")", 0}},
	// list and map literals
	{{"[", gBreak}, {"a", gBlank0}, {",", gBreak}, {"b", gBlank0}, {",", gBreak}, {"1.5", gBlank0}, {"]", 0}},
	{{"[", gBreak}, {"]", 0}},
	{{"x", gBlank0}, {"=", gBreak}, {"{", gBreak}, {"\"k\"", gBlank0}, {":", gBlank0}, {"a", gBlank0}, {",", gBreak}, {"\"j\"", gBlank0}, {":", gBlank0}, {"[", gBreak}, {"b", gBlank0}, {"]", gBlank0}, {"}", 0}},
	// index chains, attribute chains
	{{"a", gBlank0}, {"[", gBreak}, {"i", gBlank0}, {"]", gBlank0}, {"[", gBreak}, {"\"k\"", gBlank0}, {"]", 0}},
	{{"a", gBlank0}, {".", gBlank0}, {"b", gBlank0}, {".", gBlank0}, {"c", 0}},
	// slices (all bound presence forms are enumerated by VerifLayoutSlices)
	{{"a", gBlank0}, {"[", gBreak}, {"1", gBlank0}, {":", gBreak}, {"2", gBlank0}, {":", gBreak}, {"3", gBlank0}, {"]", 0}},
	// assignments
	{{"a", gBlank0}, {"=", gBreak}, {"b", gBlank0}, {"+", gBreak}, {"1", 0}},
	{{"a", gBlank0}, {"+=", gBreak}, {"b", 0}},
	{{"a", gBlank0}, {",", gBreak}, {"b", gBlank0}, {"=", gBreak}, {"1", gBlank0}, {",", gBreak}, {"2", 0}},
	{{"a", gBlank0}, {"[", gBreak}, {"0", gBlank0}, {"]", gBlank0}, {"*=", gBreak}, {"2", 0}},
	// statement sequences
	{{"a = 1", gStmt}, {"b = a", gStmt}, {"f(b)", 0}},
	// if / elif / else
	{{"if", gBlank1}, {"a", gBlank0}, {"{", gBreak}, {"b = 1", gStmt}, {"c = 2", gBlank0}, {"}", gBlank0}, {"elif", gBlank1}, {"d", gBlank0}, {"{", gBreak}, {"}", gBlank0}, {"else", gBlank0}, {"{", gBreak}, {"e", gBlank0}, {"}", 0}},
	{{"if", gBlank1}, {"a", gBlank0}, {"<", gBreak}, {"1", gBlank0}, {"{", gBreak}, {"}", gStmt}, {"x", 0}},
	// for (8 clause shapes) and for-in
	{{"for", gBlank1}, {"i = 0", gBlank0}, {";", gBlank0}, {"i < 3", gBlank0}, {";", gBlank0}, {"i = i + 1", gBlank0}, {"{", gBreak}, {"f(i)", gStmt}, {"continue", gBlank0}, {"}", 0}},
	{{"for", gBlank1}, {"i = 0", gBlank0}, {";", gBlank0}, {"i < 3", gBlank0}, {";", gBlank0}, {"{", gBreak}, {"break", gBlank0}, {"}", 0}},
	{{"for", gBlank0}, {";", gBlank0}, {"i < 3", gBlank0}, {";", gBlank0}, {"i += 1", gBlank0}, {"{", gBreak}, {"}", 0}},
	{{"for", gBlank0}, {";", gBlank0}, {"i < 3", gBlank0}, {";", gBlank0}, {"{", gBreak}, {"}", 0}},
	{{"for", gBlank1}, {"i = 0", gBlank0}, {";", gBlank0}, {";", gBlank0}, {"i += 1", gBlank0}, {"{", gBreak}, {"}", 0}},
	{{"for", gBlank1}, {"i = 0", gBlank0}, {";", gBlank0}, {";", gBlank0}, {"{", gBreak}, {"}", 0}},
	{{"for", gBlank0}, {";", gBlank0}, {";", gBlank0}, {"i += 1", gBlank0}, {"{", gBreak}, {"}", 0}},
	{{"for", gBlank0}, {";", gBlank0}, {";", gBlank0}, {"{", gBreak}, {"break", gBlank0}, {"}", 0}},
	{{"for", gBlank1}, {"x", gBlank1}, {"in", gBreak1}, {"[", gBreak}, {"1", gBlank0}, {",", gBreak}, {"2", gBlank0}, {"]", gBlank0}, {"{", gBreak}, {"f(x)", gBlank0}, {"}", 0}},
}

func vBuild(form []vSeg, vary1, opt1, vary2, opt2 int) string {
	s := ""
	for i, seg := range form {
		s += seg.text
		if i == len(form)-1 {
			break
		}
		o := 0
		if i == vary1 {
			o = opt1
		} else if i == vary2 {
			o = opt2
		}
		s += vGapOptions[seg.gap][o]
	}
	return s
}

func vParseAll(src string) (string, bool) {
	res, err := ParsePipeline("verif.p", src)
	if err != nil {
		return "", false
	}
	return vCanonStmts(res), true
}

// VerifLayout: for every form, varying one gap (PAIRS=0) or two gaps (PAIRS=1) over every
// admissible filler yields the tree of the minimally spaced text.
func VerifLayout() {
	f := verifnd.Choice(len(vForms))
	form := vForms[f]
	g := len(form) - 1
	v1 := verifnd.Choice(g)
	o1 := verifnd.Choice(len(vGapOptions[form[v1].gap]))
	v2, o2 := -1, 0
	if verifnd.Param("PAIRS", 0) == 1 && g > 1 {
		v2 = verifnd.Int(v1, g-1)
		if v2 != v1 {
			o2 = verifnd.Choice(len(vGapOptions[form[v2].gap]))
		}
	}
	base, okb := vParseAll(vBuild(form, -1, 0, -1, 0))
	verifnd.Assert(okb, "base-text-parses")
	got, ok := vParseAll(vBuild(form, v1, o1, v2, o2))
	verifnd.Reach("variant")
	verifnd.Assert(ok, "layout-variant-parses")
	if ok && okb {
		verifnd.Assert(got == base, "layout-does-not-change-tree")
	}
}

// VerifLayoutSlices: the 24 slice forms (12 bound-presence forms on an identifier and on a
// call result) with a filler after the opening bracket and after each colon.
func VerifLayoutSlices() {
	objs := []string{"a", "f(x)"}
	obj := objs[verifnd.Int(0, 1)]
	hasS, hasE := verifnd.Int(0, 1) == 1, verifnd.Int(0, 1) == 1
	colon2 := verifnd.Int(0, 1) == 1
	hasT := colon2 && verifnd.Int(0, 1) == 1
	fill := func() string { return vGapOptions[gBreak][verifnd.Choice(len(vGapOptions[gBreak]))] }
	build := func(g1, g2, g3 string) string {
		s := obj + "[" + g1
		if hasS {
			s += "1"
		}
		s += ":" + g2
		if hasE {
			s += "2"
		}
		if colon2 {
			s += ":" + g3
			if hasT {
				s += "3"
			}
		}
		return s + "]"
	}
	base, okb := vParseAll(build("", "", ""))
	verifnd.Assert(okb, "base-slice-parses")
	g := [3]string{}
	if verifnd.Param("ALLGAPS", 0) == 1 {
		g = [3]string{fill(), fill(), fill()}
	} else {
		g[verifnd.Choice(3)] = fill()
	}
	got, ok := vParseAll(build(g[0], g[1], g[2]))
	verifnd.Reach("slice-variant")
	verifnd.Assert(ok, "slice-layout-variant-parses")
	if ok && okb {
		verifnd.Assert(got == base, "slice-layout-does-not-change-tree")
		want := "slice(" + map[string]string{"a": "a", "f(x)": "call(f;x)"}[obj] + ";"
		b := func(has bool, v string) string {
			if has {
				return v
			}
			return "_"
		}
		want += b(hasS, "#1") + ";" + b(hasE, "#2") + ";" + b(hasT, "#3") + ";"
		if colon2 {
			want += "true)"
		} else {
			want += "false)"
		}
		verifnd.Assert(base == want, "slice-form-tree")
	}
}
