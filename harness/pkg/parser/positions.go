package parser

import (
	"strings"

	"github.com/GuanceCloud/platypus/internal/verifnd"
	"github.com/GuanceCloud/platypus/pkg/ast"
	plToken "github.com/GuanceCloud/platypus/pkg/token"
)

// ---- C17(c): every position stored in the syntax tree designates its token ----

type vPosAudit struct {
	src string
}

// at asserts that pos is consistent (line/column of its offset, reference A7) and that the
// source at that offset starts with one of the expected spellings (case-insensitive for keywords).
func (a *vPosAudit) at(pos plToken.LnColPos, label string, fold bool, want ...string) {
	p := int(pos.Pos)
	verifnd.Assert(p >= 0 && p <= len(a.src), label+":offset-inside-source")
	if p < 0 || p > len(a.src) {
		return
	}
	ln, last := 1, -1
	for i := 0; i < p; i++ {
		if a.src[i] == '\n' {
			ln++
			last = i
		}
	}
	verifnd.Assert(pos.Ln == ln && pos.Col == p-last, label+":line-column-of-offset")
	ok := false
	for _, w := range want {
		if p+len(w) <= len(a.src) {
			got := a.src[p : p+len(w)]
			if got == w || (fold && strings.EqualFold(got, w)) {
				ok = true
			}
		}
	}
	verifnd.Assert(ok, label+":designates-its-token")
}

func (a *vPosAudit) node(n *ast.Node) {
	if n == nil {
		return
	}
	switch n.NodeType {
	case ast.TypeIdentifier:
		e := n.Identifier()
		a.at(e.Start, "Identifier.Start", false, e.Name, "`"+e.Name+"`")
	case ast.TypeStringLiteral:
		a.at(n.StringLiteral().Start, "StringLiteral.Start", false, "\"", "'")
	case ast.TypeIntegerLiteral:
		a.at(n.IntegerLiteral().Start, "IntegerLiteral.Start", false, "0", "1", "2", "3", "4", "5", "6", "7", "8", "9", "-", "+")
	case ast.TypeFloatLiteral:
		a.at(n.FloatLiteral().Start, "FloatLiteral.Start", true, "0", "1", "2", "3", "4", "5", "6", "7", "8", "9", "-", "+", "inf", "nan")
	case ast.TypeBoolLiteral:
		a.at(n.BoolLiteral().Start, "BoolLiteral.Start", true, "true", "false")
	case ast.TypeNilLiteral:
		a.at(n.NilLiteral().Start, "NilLiteral.Start", true, "nil", "null")
	case ast.TypeListLiteral:
		e := n.ListLiteral()
		a.at(e.LBracket, "ListLiteral.LBracket", false, "[")
		a.at(e.RBracket, "ListLiteral.RBracket", false, "]")
		for _, x := range e.List {
			a.node(x)
		}
	case ast.TypeMapLiteral:
		e := n.MapLiteral()
		a.at(e.LBrace, "MapLiteral.LBrace", false, "{")
		a.at(e.RBrace, "MapLiteral.RBrace", false, "}")
		for _, kv := range e.KeyValeList {
			a.node(kv[0])
			a.node(kv[1])
		}
	case ast.TypeParenExpr:
		e := n.ParenExpr()
		a.at(e.LParen, "ParenExpr.LParen", false, "(")
		a.at(e.RParen, "ParenExpr.RParen", false, ")")
		a.node(e.Param)
	case ast.TypeUnaryExpr:
		e := n.UnaryExpr()
		a.at(e.OpPos, "UnaryExpr.OpPos", false, string(e.Op))
		a.node(e.RHS)
	case ast.TypeArithmeticExpr:
		e := n.ArithmeticExpr()
		a.at(e.OpPos, "ArithmeticExpr.OpPos", false, string(e.Op))
		a.node(e.LHS)
		a.node(e.RHS)
	case ast.TypeConditionalExpr:
		e := n.ConditionalExpr()
		a.at(e.OpPos, "ConditionalExpr.OpPos", false, string(e.Op))
		a.node(e.LHS)
		a.node(e.RHS)
	case ast.TypeInExpr:
		e := n.InExpr()
		a.at(e.OpPos, "InExpr.OpPos", true, "in")
		a.node(e.LHS)
		a.node(e.RHS)
	case ast.TypeAssignmentExpr:
		e := n.AssignmentExpr()
		a.at(e.OpPos, "AssignmentExpr.OpPos", false, string(e.Op))
		for _, x := range e.LHS {
			a.node(x)
		}
		for _, x := range e.RHS {
			a.node(x)
		}
	case ast.TypeCallExpr:
		e := n.CallExpr()
		a.at(e.NamePos, "CallExpr.NamePos", false, e.Name, "`"+e.Name+"`")
		a.at(e.LParen, "CallExpr.LParen", false, "(")
		a.at(e.RParen, "CallExpr.RParen", false, ")")
		for _, x := range e.Param {
			a.node(x)
		}
	case ast.TypeIndexExpr:
		e := n.IndexExpr()
		if e.Obj != nil {
			a.at(e.Obj.Start, "IndexExpr.Obj.Start", false, e.Obj.Name, "`"+e.Obj.Name+"`")
		}
		for i := range e.Index {
			a.at(e.LBracket[i], "IndexExpr.LBracket", false, "[")
			a.at(e.RBracket[i], "IndexExpr.RBracket", false, "]")
			a.node(e.Index[i])
		}
	case ast.TypeSliceExpr:
		e := n.SliceExpr()
		a.at(e.LBracket, "SliceExpr.LBracket", false, "[")
		a.at(e.RBracket, "SliceExpr.RBracket", false, "]")
		a.node(e.Obj)
		a.node(e.Start)
		a.node(e.End)
		a.node(e.Step)
	case ast.TypeAttrExpr:
		e := n.AttrExpr()
		// the attribute expression starts where its object starts
		first := ast.NodeStartPos(e.Obj)
		verifnd.Assert(e.Start == first, "AttrExpr.Start:designates-its-token")
		a.node(e.Obj)
		a.node(e.Attr)
	case ast.TypeIfelseStmt:
		e := n.IfelseStmt()
		for i, it := range e.IfList {
			if i == 0 {
				a.at(it.Start, "IfStmtElem.Start", true, "if")
			} else {
				a.at(it.Start, "IfStmtElem.Start(elif)", true, "elif")
			}
			a.node(it.Condition)
			a.block(it.Block)
		}
		if e.Else != nil {
			a.at(e.ElsePos, "IfelseStmt.ElsePos", true, "else")
			a.block(e.Else)
		}
	case ast.TypeForStmt:
		e := n.ForStmt()
		a.at(e.ForPos, "ForStmt.ForPos", true, "for")
		a.node(e.Init)
		a.node(e.Cond)
		a.node(e.Loop)
		a.block(e.Body)
	case ast.TypeForInStmt:
		e := n.ForInStmt()
		a.at(e.ForPos, "ForInStmt.ForPos", true, "for")
		a.at(e.InPos, "ForInStmt.InPos", true, "in")
		a.node(e.Varb)
		a.node(e.Iter)
		a.block(e.Body)
	case ast.TypeBreakStmt:
		a.at(n.BreakStmt().Start, "BreakStmt.Start", true, "break")
	case ast.TypeContinueStmt:
		a.at(n.ContinueStmt().Start, "ContinueStmt.Start", true, "continue")
	}
	// the start position of every node is a valid position inside the source
	sp := ast.NodeStartPos(n)
	verifnd.Assert(sp.Pos >= 0 && int(sp.Pos) <= len(a.src) && sp.Ln >= 1 && sp.Col >= 1, "NodeStartPos("+n.NodeType.String()+"):valid")
}

func (a *vPosAudit) block(b *ast.BlockStmt) {
	if b == nil {
		return
	}
	a.at(b.LBracePos, "BlockStmt.LBracePos", false, "{")
	a.at(b.RBracePos, "BlockStmt.RBracePos", false, "}")
	for _, s := range b.Stmts {
		a.node(s)
	}
}

// extra forms exercising multi-byte text before tokens, keywords in mixed case, back-quoted names
var vPosExtra = []string{
	"a = \"héllo\" + 'wörld' ; b = a",
	"x = \"\"\"li\nne\"\"\"\ny = x",
	"if TRUE { a = NIL } ELIF false { } else { b = Null }",
	"`weird-name` = 1\nf(`weird-name`, k = [1, 2.5, -3])",
	"# comment é\n  a = {\"k\": [1, {\"j\": nil}]}\n\n\tb = a[\"k\"][1][\"j\"]",
	"for x IN \"añb\" { if x == \"ñ\" { break } }",
	"a = b[1:2][::-1]",
	"c = a.b.c[0].d",
	"z = !(-a) + (+1.5) * -2",
	// line breaks inside tokens: a back-quoted name and a triple-quoted string spanning lines
	"`a\nb` = 1\nx = `a\nb` + 2\ny = x",
	"s = '''l1\n\nl3''' ; t = `p\n\nq`\nu = [s,\n t]\nf(u)",
}

// VerifTreePositions: parse every form of the layout family (with every filler in one gap)
// and the extra texts; audit every position stored in the tree.
func VerifTreePositions() {
	var src string
	if verifnd.Int(0, 1) == 0 {
		f := verifnd.Choice(len(vForms))
		form := vForms[f]
		g := len(form) - 1
		v1 := verifnd.Choice(g)
		o1 := verifnd.Choice(len(vGapOptions[form[v1].gap]))
		// a leading line shifts every offset and line number
		lead := []string{"", "\n", "# é\n", "q = 'ü'; "}[verifnd.Choice(4)]
		src = lead + vBuild(form, v1, o1, -1, 0)
	} else {
		src = vPosExtra[verifnd.Choice(len(vPosExtra))]
	}
	res, err := ParsePipeline("verif.p", src)
	verifnd.Assert(err == nil, "text-parses")
	if err != nil {
		return
	}
	verifnd.Reach("audited")
	a := &vPosAudit{src: src}
	for _, s := range res {
		a.node(s)
	}
}
