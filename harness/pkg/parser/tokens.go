package parser

import (
	"github.com/GuanceCloud/platypus/internal/verifnd"
	plToken "github.com/GuanceCloud/platypus/pkg/token"
)

// ---- C05 layer 2: the real goyacc driver and all semantic actions on a symbolic token stream ----

var vTokEmitted, vTokK int
var vTokTypes []ItemType

const vTokSrc = "0123456789abcdef"

// vSymLex is a lexer state that emits K symbolic tokens (any token type of the grammar's
// alphabet) and then EOF. The token text is lexer-producible for its type; for NUMBER and the
// string types a symbolic boolean decides whether the text is decodable ("1" vs "0x" which
// strconv rejects; "\"a\"" vs "\"\\X\"" which Unquote rejects) - both are texts the real lexer emits.
func vSymLex(l *Lexer) stateFn {
	if vTokEmitted >= vTokK {
		*l.itemp = Item{Typ: EOF, Pos: plToken.Pos(vTokEmitted)}
		l.scannedItem = true
		return nil
	}
	t := verifnd.Int64()
	verifnd.Assume(verifnd.And(t > int64(ERROR), t < int64(startSymbolsStart), t != int64(EOF), t != int64(COMMENT), t != int64(SPACE),
		t != int64(operatorsStart), t != int64(operatorsEnd), t != int64(keywordsStart), t != int64(keywordsEnd)))
	typ := ItemType(verifnd.Pick(t))
	val := "x"
	switch typ {
	case NUMBER:
		if verifnd.Int(0, 1) == 1 {
			val = "1"
		} else {
			val = "0x"
		}
	case STRING:
		if verifnd.Int(0, 1) == 1 {
			val = "\"a\""
		} else {
			val = "\"\\X\""
		}
	case QUOTED_STRING:
		val = "`a`"
	case MULTILINE_STRING:
		val = "\"\"\"a\"\"\""
	}
	vTokTypes = append(vTokTypes, typ)
	*l.itemp = Item{Typ: typ, Pos: plToken.Pos(vTokEmitted), Val: val}
	l.scannedItem = true
	vTokEmitted++
	return vSymLex
}

// VerifParseTokens: Parse terminates on every stream of K tokens, no panic reaches recover,
// and the outcome is a tree or an error with a recorded position inside the source.
func VerifParseTokens() {
	vTokEmitted = 0
	vTokTypes = nil
	vTokK = verifnd.Param("K", 2)
	p := &parser{}
	p.lex = Lexer{input: vTokSrc, state: vSymLex}
	p.posCache = *plToken.NewPosCache(vTokSrc)
	var err error
	func() {
		defer p.recover(&err)
		p.InjectItem(START_STMTS)
		p.yyParser.Parse(p)
	}()
	verifnd.Reach("parsed")
	verifnd.Assert(err == nil, "no-panic-recovered-in-parser")
	verifnd.Assert(len(p.errs) != 0 || p.parseResult != nil || vTokEmittedAllSeparators(), "tree-or-error")
	for _, e := range p.errs {
		verifnd.Assert(e.Pos != nil, "error-has-position")
		if e.Pos != nil {
			verifnd.Assert(e.Pos.Start >= 0 && int(e.Pos.Start) <= len(vTokSrc), "error-position-inside-source")
		}
	}
}

// an input made only of statement separators parses to an empty statement list (no tree, no error)
func vTokEmittedAllSeparators() bool {
	for _, t := range vTokTypes {
		if t != EOL && t != SEMICOLON {
			return false
		}
	}
	return true
}
