package parser

import (
	"fmt"
	"strings"

	"github.com/GuanceCloud/platypus/internal/verifnd"
	"github.com/GuanceCloud/platypus/pkg/ast"
)

// ---- C06: expressions group by the documented precedence; layout never matters ----

// vCanon prints a tree fully parenthesised, positions erased, paren nodes explicit.
func vCanon(n *ast.Node) string {
	if n == nil {
		return "_"
	}
	switch n.NodeType {
	case ast.TypeIdentifier:
		return n.Identifier().Name
	case ast.TypeIntegerLiteral:
		return fmt.Sprintf("#%d", n.IntegerLiteral().Val)
	case ast.TypeFloatLiteral:
		return fmt.Sprintf("#f%v", n.FloatLiteral().Val)
	case ast.TypeStringLiteral:
		return fmt.Sprintf("s%q", n.StringLiteral().Val)
	case ast.TypeBoolLiteral:
		return fmt.Sprintf("b%v", n.BoolLiteral().Val)
	case ast.TypeNilLiteral:
		return "nil"
	case ast.TypeParenExpr:
		return "P(" + vCanon(n.ParenExpr().Param) + ")"
	case ast.TypeArithmeticExpr:
		e := n.ArithmeticExpr()
		return "(" + vCanon(e.LHS) + " " + string(e.Op) + " " + vCanon(e.RHS) + ")"
	case ast.TypeConditionalExpr:
		e := n.ConditionalExpr()
		return "(" + vCanon(e.LHS) + " " + string(e.Op) + " " + vCanon(e.RHS) + ")"
	case ast.TypeInExpr:
		e := n.InExpr()
		return "(" + vCanon(e.LHS) + " in " + vCanon(e.RHS) + ")"
	case ast.TypeUnaryExpr:
		e := n.UnaryExpr()
		return "(" + string(e.Op) + " " + vCanon(e.RHS) + ")"
	case ast.TypeIndexExpr:
		e := n.IndexExpr()
		s := "idx("
		if e.Obj != nil {
			s += e.Obj.Name
		} else {
			s += "."
		}
		for _, i := range e.Index {
			s += ";[" + vCanon(i) + "]"
		}
		return s + ")"
	case ast.TypeAttrExpr:
		e := n.AttrExpr()
		return "attr(" + vCanon(e.Obj) + "." + vCanon(e.Attr) + ")"
	case ast.TypeCallExpr:
		e := n.CallExpr()
		s := "call(" + e.Name
		for _, p := range e.Param {
			s += ";" + vCanon(p)
		}
		return s + ")"
	case ast.TypeSliceExpr:
		e := n.SliceExpr()
		return fmt.Sprintf("slice(%s;%s;%s;%s;%v)", vCanon(e.Obj), vCanon(e.Start), vCanon(e.End), vCanon(e.Step), e.Colon2)
	case ast.TypeListLiteral:
		s := "list("
		for i, x := range n.ListLiteral().List {
			if i > 0 {
				s += ";"
			}
			s += vCanon(x)
		}
		return s + ")"
	case ast.TypeMapLiteral:
		s := "map("
		for i, kv := range n.MapLiteral().KeyValeList {
			if i > 0 {
				s += ";"
			}
			s += vCanon(kv[0]) + ":" + vCanon(kv[1])
		}
		return s + ")"
	case ast.TypeAssignmentExpr:
		e := n.AssignmentExpr()
		l, r := []string{}, []string{}
		for _, x := range e.LHS {
			l = append(l, vCanon(x))
		}
		for _, x := range e.RHS {
			r = append(r, vCanon(x))
		}
		return "asg([" + strings.Join(l, ",") + "] " + string(e.Op) + " [" + strings.Join(r, ",") + "])"
	case ast.TypeIfelseStmt:
		e := n.IfelseStmt()
		s := "if("
		for _, it := range e.IfList {
			s += vCanon(it.Condition) + vCanonBlock(it.Block)
		}
		if e.Else != nil {
			s += "else" + vCanonBlock(e.Else)
		}
		return s + ")"
	case ast.TypeForStmt:
		e := n.ForStmt()
		return "for(" + vCanon(e.Init) + ";" + vCanon(e.Cond) + ";" + vCanon(e.Loop) + vCanonBlock(e.Body) + ")"
	case ast.TypeForInStmt:
		e := n.ForInStmt()
		return "forin(" + vCanon(e.Varb) + " in " + vCanon(e.Iter) + vCanonBlock(e.Body) + ")"
	case ast.TypeBreakStmt:
		return "break"
	case ast.TypeContinueStmt:
		return "continue"
	}
	return "?" + n.NodeType.String()
}

func vCanonBlock(b *ast.BlockStmt) string {
	if b == nil {
		return "{nil}"
	}
	return "{" + vCanonStmts(b.Stmts) + "}"
}

func vCanonStmts(st ast.Stmts) string {
	parts := []string{}
	for _, s := range st {
		parts = append(parts, vCanon(s))
	}
	return strings.Join(parts, " | ")
}

// ---- reference: precedence climbing over the documented table (A12) ----
// lowest to highest: || < && < in < comparisons < + - < * / % < prefix ! + - < postfix

type vTok struct {
	text  string // source spelling
	canon string // for operands: the canonical form of the atom
	kind  int    // 0 operand, 1 binary op, 2 prefix op, 3 '(' , 4 ')'
	num   bool   // operand is a number literal (sign folding applies)
}

func vBinPrec(op string) int {
	switch op {
	case "||":
		return 1
	case "&&":
		return 2
	case "in":
		return 3
	case ">=", ">", "!=", "==", "<=", "<":
		return 4
	case "+", "-":
		return 5
	case "*", "/", "%":
		return 6
	}
	return 0
}

type vRefParser struct {
	toks []vTok
	pos  int
}

func (p *vRefParser) peek() *vTok {
	if p.pos < len(p.toks) {
		return &p.toks[p.pos]
	}
	return nil
}

// returns canonical form and whether the result is a (possibly sign-folded) number literal
func (p *vRefParser) unary() (string, bool) {
	t := p.peek()
	if t != nil && t.kind == 2 {
		p.pos++
		x, isNum := p.unary()
		if isNum && (t.text == "-" || t.text == "+") {
			if strings.HasPrefix(x, "#f") { // float literal: the sign folds into the literal
				if t.text == "-" {
					if strings.HasPrefix(x, "#f-") {
						return "#f" + x[3:], true
					}
					return "#f-" + x[2:], true
				}
				return x, true
			}
			if t.text == "-" {
				if strings.HasPrefix(x, "#-") {
					return "#" + x[2:], true
				}
				if x == "#0" {
					return "#0", true
				}
				return "#-" + x[1:], true
			}
			return x, true
		}
		return "(" + t.text + " " + x + ")", false
	}
	if t != nil && t.kind == 3 {
		p.pos++
		x := p.expr(1)
		p.pos++ // ')'
		return "P(" + x + ")", false
	}
	p.pos++
	return t.canon, t.num
}

func (p *vRefParser) expr(minPrec int) string {
	lhs, _ := p.unary()
	for {
		t := p.peek()
		if t == nil || t.kind != 1 {
			return lhs
		}
		pr := vBinPrec(t.text)
		if pr < minPrec {
			return lhs
		}
		p.pos++
		rhs := p.expr(pr + 1) // left associative
		lhs = "(" + lhs + " " + t.text + " " + rhs + ")"
	}
}

func vText(toks []vTok) string {
	parts := make([]string, len(toks))
	for i, t := range toks {
		parts[i] = t.text
	}
	return strings.Join(parts, " ")
}

var vBinOps = []string{"||", "&&", "in", ">=", ">", "!=", "==", "<=", "<", "+", "-", "*", "/", "%"}
var vPreOps = []string{"!", "+", "-"}

func vOperandTok(k int, name string) vTok {
	switch k {
	case 0:
		return vTok{text: name, canon: name}
	case 1:
		return vTok{text: "7", canon: "#7", num: true}
	case 2:
		return vTok{text: name + "[i]", canon: "idx(" + name + ";[i])"}
	case 3:
		return vTok{text: "f(" + name + ")", canon: "call(f;" + name + ")"}
	case 4:
		return vTok{text: name + ".b", canon: "attr(" + name + ".b)"}
	case 5:
		return vTok{text: name + "[1:2]", canon: "slice(" + name + ";#1;#2;_;false)"}
	case 6:
		return vTok{text: "[" + name + "]", canon: "list(" + name + ")"}
	case 7:
		return vTok{text: "\"s\"", canon: "s\"s\""}
	case 9:
		return vTok{text: "2.5", canon: "#f2.5", num: true}
	}
	return vTok{text: name + "[i][j]", canon: "idx(" + name + ";[i];[j])"}
}

func vParseOne(src string) (string, bool) {
	res, err := ParsePipeline("verif.p", src)
	if err != nil || len(res) != 1 {
		return "", false
	}
	return vCanon(res[0]), true
}

// VerifPrecedence: the real parse tree of operator templates equals the tree built by
// precedence climbing over the documented table, for every assignment of operators to holes.
func VerifPrecedence() {
	var toks []vTok
	op := func() vTok { return vTok{text: vBinOps[verifnd.Choice(len(vBinOps))], kind: 1} }
	pre := func() []vTok {
		k := verifnd.Choice(4)
		if k == 0 {
			return nil
		}
		return []vTok{{text: vPreOps[k-1], kind: 2}}
	}
	switch verifnd.Param("MODE", 0) {
	case 0: // a op b op c op d
		toks = []vTok{vOperandTok(0, "a"), op(), vOperandTok(0, "b"), op(), vOperandTok(0, "c"), op(), vOperandTok(0, "d")}
	case 1: // prefix operators around one binary operator, identifiers and number literals
		toks = append(toks, pre()...)
		toks = append(toks, pre()...)
		k1 := []int{0, 1, 9}[verifnd.Choice(3)]
		toks = append(toks, vOperandTok(k1, "a"), op())
		toks = append(toks, pre()...)
		k2 := []int{0, 1, 9}[verifnd.Choice(3)]
		toks = append(toks, vOperandTok(k2, "b"))
	case 2: // postfix forms bind tighter than prefix and binary operators
		toks = append(toks, pre()...)
		toks = append(toks, vOperandTok(verifnd.Choice(9), "a"), op(), vOperandTok(verifnd.Choice(9), "b"))
	case 3: // parentheses: redundant or required, explicit paren nodes
		a, b, c := vOperandTok(0, "a"), vOperandTok(0, "b"), vOperandTok(0, "c")
		lp, rp := vTok{text: "(", kind: 3}, vTok{text: ")", kind: 4}
		switch verifnd.Choice(4) {
		case 0:
			toks = []vTok{lp, a, op(), b, rp, op(), c}
		case 1:
			toks = []vTok{a, op(), lp, b, op(), c, rp}
		case 2:
			toks = []vTok{lp, lp, a, rp, op(), b, rp}
		case 3:
			toks = append(pre(), lp, a, op(), b, rp)
		}
	}
	src := vText(toks)
	want := (&vRefParser{toks: toks}).expr(1)
	got, ok := vParseOne(src)
	verifnd.Reach("template")
	verifnd.Assert(ok, "template-parses")
	if ok {
		verifnd.Assert(got == want, "groups-by-documented-precedence")
	}
}

// VerifAssignForms: assignment statements and named arguments bind weakest; `a = b = 3` is
// documented as right-associative.
func VerifAssignForms() {
	aops := []string{"=", "+=", "-=", "*=", "/=", "%="}
	b1 := vBinOps[verifnd.Choice(len(vBinOps))]
	switch verifnd.Choice(5) {
	case 0:
		ao := aops[verifnd.Choice(6)]
		got, ok := vParseOne("a " + ao + " b " + b1 + " c")
		verifnd.Reach("assign")
		verifnd.Assert(ok && got == "asg([a] "+ao+" [(b "+b1+" c)])", "assignment-binds-weakest")
	case 1:
		got, ok := vParseOne("a, b = c " + b1 + " d, e")
		verifnd.Reach("multi-assign")
		verifnd.Assert(ok && got == "asg([a,b] = [(c "+b1+" d),e])", "multi-assignment")
	case 2:
		got, ok := vParseOne("f(x = a " + b1 + " b, c)")
		verifnd.Reach("named-arg")
		verifnd.Assert(ok && got == "call(f;asg([x] = [(a "+b1+" b)]);c)", "named-argument")
	case 3:
		got, ok := vParseOne("a[i] = b " + b1 + " c")
		verifnd.Reach("index-assign")
		verifnd.Assert(ok && got == "asg([idx(a;[i])] = [(b "+b1+" c)])", "index-assignment")
	case 4:
		// the reference's own example: `a = b = 3` is a = (b = 3)
		got, ok := vParseOne("a = b = 3")
		verifnd.Reach("chained-assign")
		verifnd.Assert(ok && got == "asg([a] = [asg([b] = [#3])])", "chained-assignment-is-right-associative")
	}
}
