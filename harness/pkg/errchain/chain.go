package errchain

import (
	"encoding/json"
	"strings"

	"github.com/GuanceCloud/platypus/internal/verifnd"
	"github.com/GuanceCloud/platypus/pkg/token"
)

// ---- C17(e): error chains ----

func vPos(i int) token.LnColPos {
	if i > 0 {
		return token.LnColPos{Pos: token.Pos(verifnd.Int64()), Ln: 20 + i, Col: 3 * i}
	}
	return token.LnColPos{Pos: token.Pos(verifnd.Int64()), Ln: 1 + verifnd.Int(0, 1), Col: 1 + verifnd.Int(0, 2)}
}

// VerifChain: chains of 1..4 positions: Copy shares nothing with the original - appends through
// the original, through a copy and through a second copy never show up in one another, in any
// order - positions keep their order, and the rendering is `file:ln:col: message` followed by
// one `file:ln:col:` line per outer call site.
func VerifChain() {
	n := verifnd.Int(1, 4)
	files := []string{"a.p", "b.p", "c.p", "d.p", "e.p"}
	var ps []token.LnColPos
	for i := 0; i < n; i++ {
		ps = append(ps, vPos(i))
	}
	// the message is text, not a format: percent signs, verbs and line breaks are rendered as they are
	boom := []string{"boom", "unsupported operand type(s) for %: int and str", "100%d %s %v %% %!", "two\nlines"}[verifnd.Choice(4)]
	e := NewErr(files[0], ps[0], boom)
	for i := 1; i < n; i++ {
		e.ChainAppend(files[i], ps[i])
	}
	verifnd.Assert(len(e.PosChain) == n, "chain-length")
	for i := 0; i < n; i++ {
		p := e.PosChain[i]
		verifnd.Assert(p.File == files[i] && p.Ln == ps[i].Ln && p.Col == ps[i].Col && p.Pos == int(ps[i].Pos), "positions-in-order")
	}
	// rendering
	want := ""
	for i := 0; i < n; i++ {
		if i == 0 {
			want += files[0] + ":" + vItoa(ps[0].Ln) + ":" + vItoa(ps[0].Col) + ": " + boom
		} else {
			want += "\n" + files[i] + ":" + vItoa(ps[i].Ln) + ":" + vItoa(ps[i].Col) + ":"
		}
	}
	verifnd.Assert(e.Error() == want, "rendering")
	verifnd.Assert(strings.Count(e.Error(), "\n") == n-1+strings.Count(boom, "\n"), "one-line-per-outer-call-site")

	// independence of copies, every order of three appends through three holders
	c1 := e.Copy()
	c2 := e.Copy()
	pa, pb, pc := token.LnColPos{Pos: 101, Ln: 11, Col: 1}, token.LnColPos{Pos: 102, Ln: 12, Col: 2}, token.LnColPos{Pos: 103, Ln: 13, Col: 3}
	order := verifnd.Choice(6)
	perm := [][3]int{{0, 1, 2}, {0, 2, 1}, {1, 0, 2}, {1, 2, 0}, {2, 0, 1}, {2, 1, 0}}[order]
	for _, who := range perm {
		switch who {
		case 0:
			e.ChainAppend("orig.p", pa)
		case 1:
			c1.ChainAppend("copy1.p", pb)
		case 2:
			c2.ChainAppend("copy2.p", pc)
		}
	}
	verifnd.Reach("appended")
	check := func(x *PlError, file string, p token.LnColPos, label string) {
		verifnd.Assert(len(x.PosChain) == n+1, label+":length")
		if len(x.PosChain) != n+1 {
			return
		}
		for i := 0; i < n; i++ {
			q := x.PosChain[i]
			verifnd.Assert(q.File == files[i] && q.Ln == ps[i].Ln && q.Col == ps[i].Col, label+":prefix-unchanged")
		}
		l := x.PosChain[n]
		verifnd.Assert(l.File == file && l.Ln == p.Ln && l.Col == p.Col && l.Pos == int(p.Pos), label+":own-append-kept")
		verifnd.Assert(x.Err == boom, label+":message")
	}
	check(e, "orig.p", pa, "original")
	check(c1, "copy1.p", pb, "copy1")
	check(c2, "copy2.p", pc, "copy2")
}

func vItoa(v int) string {
	if v == 0 {
		return "0"
	}
	s := ""
	for v > 0 {
		s = string(rune('0'+v%10)) + s
		v /= 10
	}
	return s
}

// ---- C17(e'): an error chain survives a JSON round trip ----

type vJSONProfile struct {
	file         string
	ln, col, pos int
}

var vJSONProfiles = []vJSONProfile{
	{"a.p", 1, 1, 0},
	{"dir/b.ppl", 12, 7, 311},
	{"", 0, 0, 0},
	{"q\"uo\\te.p", -1, -1, -1},
	{"<&>.p", 9223372036854775807, 9007199254740993, -9223372036854775808},
	{"hé世\U0001F600.p", 2147483648, 4294967297, 9007199254740992},
	{"line\nbreak\ttab\x01.p", 3, 4, 5},
	{"  .p", 65536, 255, 1000000000000},
}

var vJSONMessages = []string{"boom", "", "unexpected: \"x\"\n\tat <eof> \\ hé世 &  ", "{\"error\":1}"}

// VerifChainJSON: a chain of 0..N positions drawn from a table of boundary profiles (file names
// with quotes, backslashes, control characters, HTML-sensitive and multi-byte characters, line
// separators; integers at the 32/53/63-bit boundaries) and a message with the same character
// classes is marshalled with encoding/json and unmarshalled into a fresh PlError: nothing is lost
// or altered, and the rendering is the same. The same for a PlErrors list holding it twice.
func VerifChainJSON() {
	n := verifnd.Int(0, verifnd.Param("N", 2))
	e := &PlError{Err: vJSONMessages[verifnd.Choice(len(vJSONMessages))]}
	for i := 0; i < n; i++ {
		p := vJSONProfiles[verifnd.Choice(len(vJSONProfiles))]
		if i == 0 && verifnd.Bool() {
			e = NewErr(p.file, token.LnColPos{Pos: token.Pos(p.pos), Ln: p.ln, Col: p.col}, e.Err)
			continue
		}
		e.ChainAppend(p.file, token.LnColPos{Pos: token.Pos(p.pos), Ln: p.ln, Col: p.col})
	}
	text, err := json.Marshal(e)
	verifnd.Assert(err == nil, "json:marshal-succeeds")
	if err != nil {
		return
	}
	var back PlError
	err = json.Unmarshal(text, &back)
	verifnd.Assert(err == nil, "json:unmarshal-succeeds")
	if err != nil {
		return
	}
	verifnd.Reach("round-trip")
	same := func(a, b *PlError, label string) {
		verifnd.Assert(a.Err == b.Err, label+":message-kept")
		verifnd.Assert(len(a.PosChain) == len(b.PosChain), label+":chain-length-kept")
		if len(a.PosChain) != len(b.PosChain) {
			return
		}
		for i := range a.PosChain {
			x, y := a.PosChain[i], b.PosChain[i]
			verifnd.Assert(x.File == y.File, label+":file-kept")
			verifnd.Assert(x.Ln == y.Ln && x.Col == y.Col, label+":line-column-kept")
			verifnd.Assert(x.Pos == y.Pos, label+":offset-kept")
		}
		verifnd.Assert(a.Error() == b.Error(), label+":same-rendering")
	}
	same(e, &back, "json")
	// a second trip is the identity on the text
	text2, err2 := json.Marshal(&back)
	verifnd.Assert(err2 == nil && string(text2) == string(text), "json:second-trip-same-text")

	// a list of chains
	list := PlErrors{*e, *e.Copy()}
	lt, lerr := json.Marshal(list)
	verifnd.Assert(lerr == nil, "json:list-marshal-succeeds")
	var lback PlErrors
	lerr = json.Unmarshal(lt, &lback)
	verifnd.Assert(lerr == nil && len(lback) == 2, "json:list-unmarshal-succeeds")
	if lerr == nil && len(lback) == 2 {
		same(e, &lback[0], "json-list0")
		same(e, &lback[1], "json-list1")
		verifnd.Assert(list.Error() == lback.Error(), "json:list-same-rendering")
	}
}
