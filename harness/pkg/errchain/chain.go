package errchain

import (
	"strings"

	"github.com/GuanceCloud/platypus/internal/verifnd"
	"github.com/GuanceCloud/platypus/pkg/token"
)

// ---- C17(e): error chains ----

func vPos(i int) token.LnColPos {
	if i > 0 {
		return token.LnColPos{Pos: token.Pos(verifnd.Int64()), Ln: 20 + i, Col: 3 * i}
	}
	return token.LnColPos{Pos: token.Pos(verifnd.Int64()), Ln: 1 + verifnd.Int(0, 1), Col: 1 + verifnd.Int(0, 2)}
}

// VerifChain: chains of 1..4 positions: Copy shares nothing with the original - appends through
// the original, through a copy and through a second copy never show up in one another, in any
// order - positions keep their order, and the rendering is `file:ln:col: message` followed by
// one `file:ln:col:` line per outer call site.
func VerifChain() {
	n := verifnd.Int(1, 4)
	files := []string{"a.p", "b.p", "c.p", "d.p", "e.p"}
	var ps []token.LnColPos
	for i := 0; i < n; i++ {
		ps = append(ps, vPos(i))
	}
	e := NewErr(files[0], ps[0], "boom")
	for i := 1; i < n; i++ {
		e.ChainAppend(files[i], ps[i])
	}
	verifnd.Assert(len(e.PosChain) == n, "chain-length")
	for i := 0; i < n; i++ {
		p := e.PosChain[i]
		verifnd.Assert(p.File == files[i] && p.Ln == ps[i].Ln && p.Col == ps[i].Col && p.Pos == int(ps[i].Pos), "positions-in-order")
	}
	// rendering
	want := ""
	for i := 0; i < n; i++ {
		if i == 0 {
			want += files[0] + ":" + vItoa(ps[0].Ln) + ":" + vItoa(ps[0].Col) + ": boom"
		} else {
			want += "\n" + files[i] + ":" + vItoa(ps[i].Ln) + ":" + vItoa(ps[i].Col) + ":"
		}
	}
	verifnd.Assert(e.Error() == want, "rendering")
	verifnd.Assert(strings.Count(e.Error(), "\n") == n-1, "one-line-per-outer-call-site")

	// independence of copies, every order of three appends through three holders
	c1 := e.Copy()
	c2 := e.Copy()
	pa, pb, pc := token.LnColPos{Pos: 101, Ln: 11, Col: 1}, token.LnColPos{Pos: 102, Ln: 12, Col: 2}, token.LnColPos{Pos: 103, Ln: 13, Col: 3}
	order := verifnd.Choice(6)
	perm := [][3]int{{0, 1, 2}, {0, 2, 1}, {1, 0, 2}, {1, 2, 0}, {2, 0, 1}, {2, 1, 0}}[order]
	for _, who := range perm {
		switch who {
		case 0:
			e.ChainAppend("orig.p", pa)
		case 1:
			c1.ChainAppend("copy1.p", pb)
		case 2:
			c2.ChainAppend("copy2.p", pc)
		}
	}
	verifnd.Reach("appended")
	check := func(x *PlError, file string, p token.LnColPos, label string) {
		verifnd.Assert(len(x.PosChain) == n+1, label+":length")
		if len(x.PosChain) != n+1 {
			return
		}
		for i := 0; i < n; i++ {
			q := x.PosChain[i]
			verifnd.Assert(q.File == files[i] && q.Ln == ps[i].Ln && q.Col == ps[i].Col, label+":prefix-unchanged")
		}
		l := x.PosChain[n]
		verifnd.Assert(l.File == file && l.Ln == p.Ln && l.Col == p.Col && l.Pos == int(p.Pos), label+":own-append-kept")
		verifnd.Assert(x.Err == "boom", label+":message")
	}
	check(e, "orig.p", pa, "original")
	check(c1, "copy1.p", pb, "copy1")
	check(c2, "copy2.p", pc, "copy2")
}

func vItoa(v int) string {
	if v == 0 {
		return "0"
	}
	s := ""
	for v > 0 {
		s = string(rune('0'+v%10)) + s
		v /= 10
	}
	return s
}
