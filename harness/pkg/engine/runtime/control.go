package runtime

// C03 - control flow and variable scoping: program builders, observable probes and the
// reference interpreter the harnesses of control_h.go compare the real interpreter with.
//
// The reference interpreter (vc3Ref) is written from the language reference
// (docs/src/references/01-syntax-spec.md) and the property statement: structured
// control flow through Go control flow and return signals (no pending flags), an
// environment that is a list of scopes (no linked stack), lock-step consumption of the
// probe trace recorded by the real run.

import (
	"github.com/GuanceCloud/platypus/internal/verifnd"
	"github.com/GuanceCloud/platypus/pkg/ast"
	"github.com/GuanceCloud/platypus/pkg/errchain"
)

// vc3Ev is one observable event: probe id and the value/type the probe saw.
type vc3Ev struct {
	id int
	v  any
	t  ast.DType
}

var vc3Trace []vc3Ev

// vc3Debug, when set (native debugging only), receives every program after its real run.
var vc3Debug func(prog []*ast.Node, failed bool)

type vc3Probe struct {
	id  int
	arg bool // pass-through probe pa<id>(e): evaluates e, records and returns it
	v   any  // constant probe pc<id>(): records and returns (v,t)
	t   ast.DType
}

type vc3Var struct {
	name string
	v    any
	t    ast.DType
}

// vc3World: one program run = input point + task + registered probes + root variables.
type vc3World struct {
	in     *vInput
	ctx    *Task
	probes map[string]*vc3Probe
	names  []string // every name whose final visibility is compared
	root   []vc3Var // variables defined in the root scope before the run
	arm    map[int]bool
}

// armOrder makes probe id switch on the exploration of every Go map iteration order; every
// other probe switches it off again. Used on the iterable of a for-in over a map: the
// order is chosen when the range starts, and the loop body's leading probe ends the window
// (so that unrelated ranges of the interpreter, e.g. Stack.Clear, do not fork).
func (w *vc3World) armOrder(id int) { w.arm[id] = true }

func vc3New() *vc3World {
	vc3Trace = nil
	in := &vInput{}
	w := &vc3World{in: in, ctx: vNewTask(in), probes: map[string]*vc3Probe{}, arm: map[int]bool{}}
	w.ctx.funcCall = map[string]FuncCall{}
	w.ctx.funcCheck = map[string]FuncCheck{}
	return w
}

func vc3Itoa(n int) string {
	if n == 0 {
		return "0"
	}
	s := ""
	for n > 0 {
		s = string(rune('0'+n%10)) + s
		n /= 10
	}
	return s
}

func vc3CheckOK(*Task, *ast.CallExpr) *errchain.PlError { return nil }

// pc returns a call `pc<id>()`: records (id,v,t), yields (v,t).
func (w *vc3World) pc(id int, v any, t ast.DType) *ast.Node {
	name := "pc" + vc3Itoa(id)
	w.probes[name] = &vc3Probe{id: id, v: v, t: t}
	w.ctx.funcCall[name] = func(c *Task, e *ast.CallExpr) *errchain.PlError {
		vc3Trace = append(vc3Trace, vc3Ev{id, v, t})
		c.Regs.ReturnAppend(v, t)
		verifnd.NondetMapOrder(w.arm[id])
		return nil
	}
	w.ctx.funcCheck[name] = vc3CheckOK
	return ast.WrapCallExpr(&ast.CallExpr{Name: name})
}

// mark is a constant probe used as a statement.
func (w *vc3World) mark(id int) *ast.Node { return w.pc(id, nil, ast.Nil) }

// pa returns a call `pa<id>(arg)`: evaluates arg, records (id,value,type), yields the value.
func (w *vc3World) pa(id int, arg *ast.Node) *ast.Node {
	name := "pa" + vc3Itoa(id)
	w.probes[name] = &vc3Probe{id: id, arg: true}
	w.ctx.funcCall[name] = func(c *Task, e *ast.CallExpr) *errchain.PlError {
		v, t, err := RunStmt(c, e.Param[0])
		if err != nil {
			return err
		}
		vc3Trace = append(vc3Trace, vc3Ev{id, v, t})
		c.Regs.ReturnAppend(v, t)
		verifnd.NondetMapOrder(w.arm[id])
		return nil
	}
	w.ctx.funcCheck[name] = vc3CheckOK
	return ast.WrapCallExpr(&ast.CallExpr{Name: name, Param: []*ast.Node{arg}})
}

// rd is the statement `pa<id>(name)`: observe what the name reads as.
func (w *vc3World) rd(id int, name string) *ast.Node {
	w.name(name)
	return w.pa(id, vIdent(name))
}

func (w *vc3World) name(n string) {
	for _, x := range w.names {
		if x == n {
			return
		}
	}
	w.names = append(w.names, n)
}

// setVar defines a root-scope variable before the run (as an earlier top-level assignment would).
func (w *vc3World) setVar(name string, v any, t ast.DType) {
	w.name(name)
	w.ctx.stackCur.Set(name, v, t)
	for i := range w.root {
		if w.root[i].name == name {
			w.root[i].v, w.root[i].t = v, t
			return
		}
	}
	w.root = append(w.root, vc3Var{name, v, t})
}

// setKey gives the input point a key.
func (w *vc3World) setKey(name string, v any, t ast.DType) {
	w.name(name)
	w.in.put(name, v, t)
}

// operand: kind 0 literal (scalars; else variable), 1 variable, 2 point key, 3 constant probe.
func (w *vc3World) operand(name string, id int, v any, t ast.DType, kind int) *ast.Node {
	switch kind {
	case 3:
		return w.pc(id, v, t)
	case 2:
		w.setKey(name, v, t)
		return vIdent(name)
	case 0:
		switch t {
		case ast.Nil:
			return vNil()
		case ast.Bool:
			return vBool(v.(bool))
		case ast.Int:
			return vInt(v.(int64))
		case ast.Float:
			return vFloat(v.(float64))
		case ast.String:
			return vStr(v.(string))
		}
	}
	w.setVar(name, v, t)
	return vIdent(name)
}

// ---- AST builders ----

func vc3Assign(name string, op ast.Op, rhs *ast.Node) *ast.Node {
	return ast.WrapAssignmentStmt(&ast.AssignmentExpr{Op: op, LHS: []*ast.Node{vIdent(name)}, RHS: []*ast.Node{rhs}})
}

func vc3Set(name string, rhs *ast.Node) *ast.Node { return vc3Assign(name, ast.EQ, rhs) }

func vc3Cmp(op ast.Op, l, r *ast.Node) *ast.Node {
	return ast.WrapConditionExpr(&ast.ConditionalExpr{Op: op, LHS: l, RHS: r})
}

func vc3Plus1(name string) *ast.Node {
	return vc3Set(name, ast.WrapArithmeticExpr(&ast.ArithmeticExpr{Op: ast.ADD, LHS: vIdent(name), RHS: vInt(1)}))
}

func vc3Block(s []*ast.Node) *ast.BlockStmt { return &ast.BlockStmt{Stmts: ast.Stmts(s)} }

// vc3If builds if c0 {b0} elif c1 {b1} ... [else {els}].
func vc3If(conds []*ast.Node, bodies [][]*ast.Node, hasElse bool, els []*ast.Node) *ast.Node {
	st := &ast.IfelseStmt{}
	for i := range conds {
		st.IfList = append(st.IfList, &ast.IfStmtElem{Condition: conds[i], Block: vc3Block(bodies[i])})
	}
	if hasElse {
		st.Else = vc3Block(els)
	}
	return ast.WrapIfelseStmt(st)
}

func vc3If1(cond *ast.Node, body ...*ast.Node) *ast.Node {
	return vc3If([]*ast.Node{cond}, [][]*ast.Node{body}, false, nil)
}

func vc3For(init, cond, loop *ast.Node, body []*ast.Node) *ast.Node {
	return ast.WrapForStmt(&ast.ForStmt{Init: init, Cond: cond, Loop: loop, Body: vc3Block(body)})
}

func vc3ForIn(varb string, iter *ast.Node, body []*ast.Node) *ast.Node {
	return ast.WrapForInStmt(&ast.ForInStmt{Varb: vIdent(varb), Iter: iter, Body: vc3Block(body)})
}

func vc3Break() *ast.Node    { return ast.WrapBreakStmt(&ast.BreakStmt{}) }
func vc3Continue() *ast.Node { return ast.WrapContinueStmt(&ast.ContinueStmt{}) }

func vc3List(elems ...*ast.Node) *ast.Node {
	return ast.WrapListInitExpr(&ast.ListLiteral{List: elems})
}

// vc3Small is a symbolic integer in 0..hi (decided by the solver, not enumerated up front).
func vc3Small(hi int) int64 {
	v := verifnd.Int64()
	verifnd.Assume(verifnd.And(v >= 0, v <= int64(hi)))
	return v
}

// ---- reference semantics ----

// vc3Truthy is the documented truthiness table: 0, 0.0, "", nil, empty list/map are false,
// a bool is itself, everything else (NaN included) is true.
func vc3Truthy(v any) bool {
	switch x := v.(type) {
	case nil:
		return false
	case bool:
		return x
	case int64:
		return x != 0
	case float64:
		return x != 0
	case string:
		return len(x) != 0
	case []any:
		return len(x) != 0
	case map[string]any:
		return len(x) != 0
	}
	panic("vc3Truthy: value outside the invariant")
}

func vc3TypeOf(v any) ast.DType {
	switch v.(type) {
	case nil:
		return ast.Nil
	case bool:
		return ast.Bool
	case int64:
		return ast.Int
	case float64:
		return ast.Float
	case string:
		return ast.String
	case []any:
		return ast.List
	case map[string]any:
		return ast.Map
	}
	panic("vc3TypeOf: value outside the invariant")
}

const (
	vc3None = iota
	vc3Brk
	vc3Cont
	vc3Err  // the program raised a run-time error: the script stops
	vc3Stop // nothing (more) can be asserted: spec silent / trace already diverged
)

type vc3Ref struct {
	w      *vc3World
	scopes [][]vc3Var
	pos    int  // next event of vc3Trace to be matched
	silent bool // the program did something the reference does not define
	same   bool // every matched event so far carried the reference's value and type
	steps  int
}

func (r *vc3Ref) push() { r.scopes = append(r.scopes, nil) }
func (r *vc3Ref) pop()  { r.scopes = r.scopes[:len(r.scopes)-1] }

func (r *vc3Ref) find(name string) *vc3Var {
	for i := len(r.scopes) - 1; i >= 0; i-- {
		for j := range r.scopes[i] {
			if r.scopes[i][j].name == name {
				return &r.scopes[i][j]
			}
		}
	}
	return nil
}

// read: nearest enclosing variable, else the input point's key, else nil.
func (r *vc3Ref) read(name string) (any, ast.DType, bool) {
	if p := r.find(name); p != nil {
		return p.v, p.t, true
	}
	if v, t, err := r.w.in.Get(name); err == nil {
		return v, t, true
	}
	return nil, ast.Nil, false
}

// assign: update the nearest enclosing variable, else define one in the current block.
func (r *vc3Ref) assign(name string, v any, t ast.DType) {
	if p := r.find(name); p != nil {
		p.v, p.t = v, t
		return
	}
	top := len(r.scopes) - 1
	r.scopes[top] = append(r.scopes[top], vc3Var{name, v, t})
}

func (r *vc3Ref) quiet(why string) int {
	if !r.silent {
		verifnd.Reach("spec-silent:" + why)
	}
	r.silent = true
	return vc3Stop
}

// emit matches one reference event against the recorded trace.
func (r *vc3Ref) emit(id int, v any, t ast.DType) int {
	if r.pos >= len(vc3Trace) {
		verifnd.Assert(false, "trace-event-missing")
		return vc3Stop
	}
	e := vc3Trace[r.pos]
	r.pos++
	if e.id != id {
		verifnd.Assert(false, "trace-order")
		return vc3Stop
	}
	r.same = verifnd.And(r.same, e.t == t, vc3Same(e.v, v))
	return vc3None
}

func (r *vc3Ref) eval(n *ast.Node) (any, ast.DType, int) {
	switch n.NodeType {
	case ast.TypeNilLiteral:
		return nil, ast.Nil, vc3None
	case ast.TypeBoolLiteral:
		return n.BoolLiteral().Val, ast.Bool, vc3None
	case ast.TypeIntegerLiteral:
		return n.IntegerLiteral().Val, ast.Int, vc3None
	case ast.TypeFloatLiteral:
		return n.FloatLiteral().Val, ast.Float, vc3None
	case ast.TypeStringLiteral:
		return n.StringLiteral().Val, ast.String, vc3None
	case ast.TypeIdentifier:
		v, t, _ := r.read(n.Identifier().Name)
		return v, t, vc3None
	case ast.TypeListLiteral:
		l := []any{}
		for _, e := range n.ListLiteral().List {
			v, _, sig := r.eval(e)
			if sig != vc3None {
				return nil, ast.Nil, sig
			}
			l = append(l, v)
		}
		return l, ast.List, vc3None
	case ast.TypeCallExpr:
		c := n.CallExpr()
		p := r.w.probes[c.Name]
		if p == nil {
			return nil, ast.Nil, r.quiet("unknown-call")
		}
		if !p.arg {
			return p.v, p.t, r.emit(p.id, p.v, p.t)
		}
		v, t, sig := r.eval(c.Param[0])
		if sig != vc3None {
			return nil, ast.Nil, sig
		}
		return v, t, r.emit(p.id, v, t)
	case ast.TypeConditionalExpr:
		c := n.ConditionalExpr()
		lv, _, sig := r.eval(c.LHS)
		if sig != vc3None {
			return nil, ast.Nil, sig
		}
		rv, _, sig := r.eval(c.RHS)
		if sig != vc3None {
			return nil, ast.Nil, sig
		}
		li, ok1 := lv.(int64)
		ri, ok2 := rv.(int64)
		if ok1 && ok2 {
			switch c.Op {
			case ast.EQEQ:
				return li == ri, ast.Bool, vc3None
			case ast.NEQ:
				return li != ri, ast.Bool, vc3None
			case ast.LT:
				return li < ri, ast.Bool, vc3None
			case ast.LTE:
				return li <= ri, ast.Bool, vc3None
			case ast.GT:
				return li > ri, ast.Bool, vc3None
			case ast.GTE:
				return li >= ri, ast.Bool, vc3None
			}
		}
		ls, ok1 := lv.(string)
		rs, ok2 := rv.(string)
		if ok1 && ok2 {
			switch c.Op {
			case ast.EQEQ:
				return ls == rs, ast.Bool, vc3None
			case ast.NEQ:
				return ls != rs, ast.Bool, vc3None
			}
		}
		return nil, ast.Nil, r.quiet("comparison-operands") // other operand classes: property C02, not modelled here
	case ast.TypeArithmeticExpr:
		a := n.ArithmeticExpr()
		lv, _, sig := r.eval(a.LHS)
		if sig != vc3None {
			return nil, ast.Nil, sig
		}
		rv, _, sig := r.eval(a.RHS)
		if sig != vc3None {
			return nil, ast.Nil, sig
		}
		return r.arith(a.Op, lv, rv)
	case ast.TypeAssignmentExpr:
		return r.assignExpr(n.AssignmentExpr())
	}
	return nil, ast.Nil, r.quiet("expression-form")
}

// arith: + - * on two integers (wrapping), + on two strings; nil/list/map operands and a
// string mixed with a non-string are errors (language reference, property C02); the rest
// (floats, bools, / and %) is not modelled here.
func (r *vc3Ref) arith(op ast.Op, lv, rv any) (any, ast.DType, int) {
	li, ok1 := lv.(int64)
	ri, ok2 := rv.(int64)
	if ok1 && ok2 {
		switch op {
		case ast.ADD:
			return li + ri, ast.Int, vc3None
		case ast.SUB:
			return li - ri, ast.Int, vc3None
		case ast.MUL:
			return li * ri, ast.Int, vc3None
		}
		return nil, ast.Nil, r.quiet("operator")
	}
	bad := func(v any) bool {
		switch v.(type) {
		case nil, []any, map[string]any:
			return true
		}
		return false
	}
	if bad(lv) || bad(rv) {
		return nil, ast.Nil, vc3Err
	}
	ls, ok1 := lv.(string)
	rs, ok2 := rv.(string)
	if ok1 && ok2 {
		if op == ast.ADD {
			return ls + rs, ast.String, vc3None
		}
		return nil, ast.Nil, vc3Err
	}
	if ok1 || ok2 {
		return nil, ast.Nil, vc3Err
	}
	return nil, ast.Nil, r.quiet("arithmetic-on-bool-or-float")
}

func (r *vc3Ref) assignExpr(a *ast.AssignmentExpr) (any, ast.DType, int) {
	if len(a.LHS) != 1 || len(a.RHS) != 1 || a.LHS[0].NodeType != ast.TypeIdentifier {
		return nil, ast.Nil, r.quiet("assignment-form")
	}
	name := a.LHS[0].Identifier().Name
	v, t, sig := r.eval(a.RHS[0])
	if sig != vc3None {
		return nil, ast.Nil, sig
	}
	if a.Op == ast.EQ {
		r.assign(name, v, t)
		return v, t, vc3None
	}
	var op ast.Op
	switch a.Op {
	case ast.ADDEQ:
		op = ast.ADD
	case ast.SUBEQ:
		op = ast.SUB
	case ast.MULEQ:
		op = ast.MUL
	default:
		return nil, ast.Nil, r.quiet("operator")
	}
	cur, _, found := r.read(name)
	if !found {
		// `x += e` on a name that is neither a variable nor a point key: the language
		// reference does not say what happens.
		return nil, ast.Nil, r.quiet("compound-assignment-to-unknown-name")
	}
	nv, nt, sig := r.arith(op, cur, v)
	if sig != vc3None {
		return nil, ast.Nil, sig
	}
	r.assign(name, nv, nt)
	return nv, nt, vc3None
}

func (r *vc3Ref) block(stmts []*ast.Node) int {
	for _, s := range stmts {
		if sig := r.exec(s); sig != vc3None {
			return sig
		}
	}
	return vc3None
}

// scoped runs a statement block in a scope of its own.
func (r *vc3Ref) scoped(b *ast.BlockStmt) int {
	if b == nil {
		return vc3None
	}
	r.push()
	sig := r.block(b.Stmts)
	r.pop()
	return sig
}

func (r *vc3Ref) tick() bool {
	r.steps++
	return r.steps <= 200
}

func (r *vc3Ref) exec(n *ast.Node) int {
	switch n.NodeType {
	case ast.TypeBreakStmt:
		return vc3Brk
	case ast.TypeContinueStmt:
		return vc3Cont
	case ast.TypeIfelseStmt:
		st := n.IfelseStmt()
		for _, e := range st.IfList {
			c, _, sig := r.eval(e.Condition)
			if sig != vc3None {
				return sig
			}
			if vc3Truthy(c) {
				return r.scoped(e.Block)
			}
		}
		return r.scoped(st.Else)
	case ast.TypeForStmt:
		f := n.ForStmt()
		r.push() // the loop header (init/cond/loop clauses) has a scope enclosing the body
		sig := r.forLoop(f)
		r.pop()
		return sig
	case ast.TypeForInStmt:
		return r.forIn(n.ForInStmt())
	}
	_, _, sig := r.eval(n)
	return sig
}

func (r *vc3Ref) forLoop(f *ast.ForStmt) int {
	if f.Init != nil {
		if sig := r.exec(f.Init); sig != vc3None {
			return sig
		}
	}
	for {
		if !r.tick() {
			return r.quiet("step-bound")
		}
		if f.Cond != nil {
			c, _, sig := r.eval(f.Cond)
			if sig != vc3None {
				return sig
			}
			if !vc3Truthy(c) {
				return vc3None
			}
		}
		switch sig := r.scoped(f.Body); sig {
		case vc3Brk:
			return vc3None
		case vc3Err, vc3Stop:
			return sig
		}
		// normal completion and `continue` both go on with the loop clause
		if f.Loop != nil {
			if sig := r.exec(f.Loop); sig != vc3None {
				return sig
			}
		}
	}
}

// iteration runs one for-in iteration: a fresh scope holding the loop variable.
func (r *vc3Ref) iteration(f *ast.ForInStmt, v any, t ast.DType) int {
	r.push()
	top := len(r.scopes) - 1
	r.scopes[top] = append(r.scopes[top], vc3Var{f.Varb.Identifier().Name, v, t})
	sig := vc3None
	if f.Body != nil {
		sig = r.block(f.Body.Stmts)
	}
	r.pop()
	return sig
}

func (r *vc3Ref) forIn(f *ast.ForInStmt) int {
	if f.Varb.NodeType != ast.TypeIdentifier {
		return r.quiet("forin-variable-form")
	}
	if r.find(f.Varb.Identifier().Name) != nil {
		// loop variable named like an enclosing variable: not specified
		return r.quiet("forin-variable-names-enclosing-variable")
	}
	itv, _, sig := r.eval(f.Iter)
	if sig != vc3None {
		return sig
	}
	switch it := itv.(type) {
	case []any:
		for _, e := range it {
			switch sig := r.iteration(f, e, vc3TypeOf(e)); sig {
			case vc3Brk:
				return vc3None
			case vc3Err, vc3Stop:
				return sig
			}
		}
		return vc3None
	case string:
		for _, c := range it { // characters
			switch sig := r.iteration(f, string(c), ast.String); sig {
			case vc3Brk:
				return vc3None
			case vc3Err, vc3Stop:
				return sig
			}
		}
		return vc3None
	case map[string]any:
		// Every key exactly once, in an unspecified order: the order is taken from the run
		// under test, whose iterations announce themselves by a leading probe of the loop
		// variable; a key announced twice or a non-key cannot be matched.
		pid := -1
		if f.Body != nil && len(f.Body.Stmts) > 0 && f.Body.Stmts[0].NodeType == ast.TypeCallExpr {
			c := f.Body.Stmts[0].CallExpr()
			if p := r.w.probes[c.Name]; p != nil && p.arg && c.Param[0].NodeType == ast.TypeIdentifier &&
				c.Param[0].Identifier().Name == f.Varb.Identifier().Name {
				pid = p.id
			}
		}
		if pid < 0 {
			return r.quiet("map-forin-without-leading-probe")
		}
		rest := []string{}
		for k := range it {
			rest = append(rest, k)
		}
		for len(rest) > 0 {
			if r.pos >= len(vc3Trace) {
				verifnd.Assert(false, "map-forin-every-key")
				return vc3Stop
			}
			e := vc3Trace[r.pos]
			ks, isStr := e.v.(string)
			at := -1
			if e.id == pid && isStr {
				for i, k := range rest {
					if k == ks {
						at = i
					}
				}
			}
			if at < 0 {
				verifnd.Assert(false, "map-forin-every-key-once")
				return vc3Stop
			}
			rest = append(rest[:at], rest[at+1:]...)
			switch sig := r.iteration(f, ks, ast.String); sig {
			case vc3Brk:
				return vc3None
			case vc3Err, vc3Stop:
				return sig
			}
		}
		return vc3None
	}
	return r.quiet("forin-over-non-iterable") // for-in over anything else is not defined by the reference
}

// vc3Same: equality of two interpreter values, NaN equal to NaN at any depth (one term, no forks).
func vc3Same(a, b any) bool {
	switch x := a.(type) {
	case float64:
		y, ok := b.(float64)
		return ok && vSameFloat(x, y)
	case []any:
		y, ok := b.([]any)
		if !ok || len(x) != len(y) {
			return false
		}
		r := true
		for i := range x {
			r = verifnd.And(r, vc3Same(x[i], y[i]))
		}
		return r
	case map[string]any:
		y, ok := b.(map[string]any)
		if !ok || len(x) != len(y) {
			return false
		}
		r := true
		for k, xv := range x {
			yv, has := y[k]
			if !has {
				return false
			}
			r = verifnd.And(r, vc3Same(xv, yv))
		}
		return r
	}
	return vDeepEq(a, b)
}

// ---- driver ----

const (
	vc3EndA = 9998
	vc3EndB = 9999
)

// run checks and executes prog (followed by two end markers) on the real interpreter, then
// replays it on the reference in lock-step with the recorded trace and compares what every
// known name reads as afterwards. It returns the run-time error status of the real run and
// whether the reference defines the program's behaviour.
func (w *vc3World) run(prog []*ast.Node) (failed bool, defined bool) {
	prog = append(prog, w.mark(vc3EndA), w.mark(vc3EndB))
	chk := &Task{name: "verif.p", funcCall: w.ctx.funcCall, funcCheck: w.ctx.funcCheck}
	chk.stackHeader = &Stack{Data: map[string]*Varb{}}
	chk.stackCur = chk.stackHeader
	verifnd.Assert(RunStmtsCheck(chk, &ContextCheck{}, ast.Stmts(prog)) == nil, "load-check-accepts")

	err := RunStmts(w.ctx, ast.Stmts(prog))
	verifnd.NondetMapOrder(false)
	if vc3Debug != nil {
		vc3Debug(prog, err != nil)
	}

	r := &vc3Ref{w: w, same: true, scopes: [][]vc3Var{append([]vc3Var{}, w.root...)}}
	sig := r.block(prog)
	if r.silent {
		// the events before the point where the reference falls silent are still owed
		verifnd.Assert(r.same, "trace-values")
		return err != nil, false
	}
	if sig == vc3Stop {
		return err != nil, false // a trace assertion already failed
	}
	verifnd.Assert(sig == vc3None || sig == vc3Err, "no-jump-escapes-program")
	verifnd.Assert(r.same, "trace-values")
	verifnd.Assert(r.pos == len(vc3Trace), "trace-no-extra-events")
	verifnd.Assert((err != nil) == (sig == vc3Err), "error-iff-reference-error")
	if err != nil || sig == vc3Err {
		verifnd.Reach("run-error")
		return true, true
	}
	for _, nm := range w.names {
		want, wt, _ := r.read(nm)
		got, gt, gerr := RunStmt(w.ctx, vIdent(nm))
		verifnd.Assert(gerr == nil, "final-read-no-error")
		verifnd.Assert(verifnd.And(gt == wt, vc3Same(got, want)), "final-visible-value")
	}
	return false, true
}

// ids returns the probe ids of the recorded trace.
func vc3Ids() []int {
	ids := make([]int, len(vc3Trace))
	for i, e := range vc3Trace {
		ids[i] = e.id
	}
	return ids
}

func vc3Count(id int) int {
	n := 0
	for _, e := range vc3Trace {
		if e.id == id {
			n++
		}
	}
	return n
}

func vc3SameIds(a, b []int) bool {
	if len(a) != len(b) {
		return false
	}
	for i := range a {
		if a[i] != b[i] {
			return false
		}
	}
	return true
}
