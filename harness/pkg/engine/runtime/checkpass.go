package runtime

// C08 (v1): load-time checking rejects every invalid construct wherever it occurs.
//
// The trees (one hole per (node kind, child slot) pair), the reference traversal A8 and
// the assertions live in harness/pkg/ast/{shapes,c08}.go and are shared with v2; this
// file binds them to the v1 check pass: Script.Check -> RunStmtsCheck -> RunStmtCheck
// and all Run*Check of checkstmt.go.

import (
	"github.com/GuanceCloud/platypus/pkg/ast"
	"github.com/GuanceCloud/platypus/pkg/errchain"
)

// vc08Tables turns the function table model into the two v1 tables (callables, checkers).
func vc08Tables(tbl []ast.VerifFn) (map[string]FuncCall, map[string]FuncCheck) {
	call := map[string]FuncCall{}
	check := map[string]FuncCheck{}
	for _, f := range tbl {
		rule := f.Rule
		if f.State == ast.VerifFull || f.State == ast.VerifCallOnly {
			call[f.Name] = func(ctx *Task, e *ast.CallExpr) *errchain.PlError { return nil }
		}
		if f.State == ast.VerifFull || f.State == ast.VerifCheckOnly {
			check[f.Name] = func(ctx *Task, e *ast.CallExpr) *errchain.PlError {
				if !ast.VerifArgsOK(rule, e) {
					return NewRunError(ctx, "bad argument list", e.NamePos)
				}
				return nil
			}
		}
	}
	return call, check
}

// vc08Load runs the load-time check of v1 the way engine.ParseScript does after parsing.
func vc08Load(stmts ast.Stmts, tbl []ast.VerifFn) *errchain.PlError {
	call, check := vc08Tables(tbl)
	s := &Script{Name: ast.VerifScriptName, FuncCall: call, Ast: stmts}
	return s.Check(check)
}

// VerifCheckShapes: see ast.VerifC08Shapes (MODE 0..3).
func VerifCheckShapes() { ast.VerifC08Shapes(vc08Load) }

// VerifCheckJumps: see ast.VerifC08Jumps (DEPTH).
func VerifCheckJumps() { ast.VerifC08Jumps(vc08Load) }

// VerifCheckTable: see ast.VerifC08Table; v1 has no nil-entry state.
func VerifCheckTable() { ast.VerifC08Table(vc08Load, ast.VerifNilEntry) }
