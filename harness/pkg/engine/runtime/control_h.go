package runtime

// C03 harnesses: if/elif/else truthiness, for / for-in trip counts and order,
// break/continue in nested loops, block scoping. See control.go for the reference.

import (
	"github.com/GuanceCloud/platypus/internal/verifnd"
	"github.com/GuanceCloud/platypus/pkg/ast"
)

// VerifCtlIfElse: C03(a). if / elif* / [else] with 1..NB conditions; every condition holds a
// symbolic value of any class (nil, bool, any int64, any float64, string of 0..L symbolic
// bytes, list/map of 0..N elements) coming from a literal, a variable, a point key or an
// observable probe call. Exactly the first branch whose condition is truthy runs, later
// conditions are not evaluated, else runs iff none is truthy, execution continues after.
func VerifCtlIfElse() {
	w := vc3New()
	NB := verifnd.Param("NB", 2)
	L, N := verifnd.Param("L", 1), verifnd.Param("N", 1)
	nb := verifnd.Int(1, NB)
	hasElse := verifnd.Choice(2) == 1
	k0 := verifnd.Choice(4)
	conds := make([]*ast.Node, nb)
	bodies := make([][]*ast.Node, nb)
	vals := make([]any, nb)
	kinds := make([]int, nb)
	for i := 0; i < nb; i++ {
		c := verifnd.Choice(vcCount)
		v, t := vValue(c, L, N)
		vals[i] = v
		kinds[i] = (k0 + i) % 4
		conds[i] = w.operand("c"+vc3Itoa(i), 100+i, v, t, kinds[i])
		bodies[i] = []*ast.Node{w.mark(10 + i)}
		if f, ok := v.(float64); ok && f != f {
			verifnd.Reach("cond-nan")
		}
	}
	prog := []*ast.Node{vc3If(conds, bodies, hasElse, []*ast.Node{w.mark(20)}), w.mark(30)}
	failed, defined := w.run(prog)
	verifnd.Assert(!failed && defined, "if-runs-without-error")

	// the same expectation in closed form
	want := []int{}
	first := -1
	for i := 0; i < nb && first < 0; i++ {
		if kinds[i] == 3 {
			want = append(want, 100+i)
		}
		if vc3Truthy(vals[i]) {
			first = i
		}
	}
	switch {
	case first == 0:
		verifnd.Reach("first-branch")
		want = append(want, 10)
	case first > 0:
		verifnd.Reach("later-branch")
		want = append(want, 10+first)
	case hasElse:
		verifnd.Reach("else-branch")
		want = append(want, 20)
	default:
		verifnd.Reach("no-branch")
	}
	want = append(want, 30, vc3EndA, vc3EndB)
	verifnd.Assert(vc3SameIds(vc3Ids(), want), "exactly-first-truthy-branch")
}

// intSrc returns a maker of nodes reading the symbolic value v: kind 0 integer literal, 1 root
// variable, 2 point key (fresh node on every call).
func (w *vc3World) intSrc(name string, v int64, kind int) func() *ast.Node {
	switch kind {
	case 1:
		w.setVar(name, v, ast.Int)
	case 2:
		w.setKey(name, v, ast.Int)
	default:
		return func() *ast.Node { return vInt(v) }
	}
	return func() *ast.Node { return vIdent(name) }
}

// VerifCtlFor: C03(b) three-clause for. All 8 shapes (each clause present or not), trip
// limit n symbolic in 0..NMAX held by a literal / variable / point key, jump position c
// symbolic, six body patterns (plain, continue, break, continue from an else branch,
// body-local variable, break two ifs deep). The body runs n times in order, `continue`
// still runs the loop clause, `break` ends the loop, a variable made by the init clause is
// gone after the loop, body locals are fresh in every iteration.
func VerifCtlFor() {
	w := vc3New()
	NMAX := verifnd.Param("NMAX", 3)
	shape := verifnd.Choice(8)
	hasInit, hasCond, hasLoop := shape&1 != 0, shape&2 != 0, shape&4 != 0
	pat := verifnd.Choice(6)
	n := vc3Small(NMAX)
	c := vc3Small(NMAX + 1)
	nsrc := w.intSrc("n", n, (shape+pat)%3)
	w.name("i")
	w.name("t")
	if verifnd.Choice(2) == 1 {
		w.setKey("t", verifnd.Int64(), ast.Int) // the body-local name may also be a point key
	}
	prog := []*ast.Node{}
	var init, cond, loop *ast.Node
	if hasInit {
		init = vc3Set("i", vInt(0))
	} else {
		prog = append(prog, vc3Set("i", vInt(0)))
	}
	body := []*ast.Node{}
	if hasCond {
		cond = vc3Cmp(ast.LT, vIdent("i"), nsrc())
	} else {
		body = append(body, vc3If1(vc3Cmp(ast.GTE, vIdent("i"), nsrc()), vc3Break()))
	}
	var s int64
	if hasLoop {
		loop = vc3Plus1("i")
	} else {
		body = append(body, vc3Plus1("i"))
		s = 1
	}
	atC := func() *ast.Node { return vc3Cmp(ast.EQEQ, vIdent("i"), vInt(c)) }
	switch pat {
	case 0:
		body = append(body, w.rd(1, "i"))
	case 1:
		body = append(body, vc3If1(atC(), vc3Continue()), w.rd(1, "i"))
	case 2:
		body = append(body, vc3If1(atC(), vc3Break()), w.rd(1, "i"))
	case 3:
		body = append(body, w.rd(1, "i"),
			vc3If([]*ast.Node{atC()}, [][]*ast.Node{{w.rd(2, "i")}}, true, []*ast.Node{vc3Continue(), w.mark(66)}),
			w.rd(3, "i"))
	case 4:
		body = append(body, w.rd(1, "t"), vc3Set("t", vIdent("i")), w.rd(2, "t"))
	case 5:
		body = append(body,
			vc3If1(atC(), vc3If1(w.pc(4, verifnd.Bool(), ast.Bool), vc3Break(), w.mark(66)), w.rd(2, "i")),
			w.rd(1, "i"))
	}
	prog = append(prog, vc3For(init, cond, loop, body), w.rd(7, "i"), w.rd(8, "t"))
	failed, defined := w.run(prog)
	verifnd.Assert(!failed && defined, "for-runs-without-error")
	verifnd.Assert(vc3Count(66) == 0, "nothing-runs-after-jump-in-block")

	// closed forms for the simple patterns
	cnt := int64(vc3Count(1))
	hit := verifnd.And(c >= s, c <= s+n-1) // the jump condition becomes true in some iteration
	switch pat {
	case 0, 4:
		verifnd.Reach("for-plain")
		verifnd.Assert(cnt == n, "body-runs-n-times")
	case 1:
		verifnd.Reach("for-continue")
		if hit {
			verifnd.Assert(cnt == n-1, "continue-skips-one-body-rest")
		} else {
			verifnd.Assert(cnt == n, "body-runs-n-times")
		}
	case 2:
		verifnd.Reach("for-break")
		if hit {
			verifnd.Assert(cnt == c-s, "break-ends-loop")
		} else {
			verifnd.Assert(cnt == n, "body-runs-n-times")
		}
	}
	if pat == 0 {
		k := int64(0)
		for _, e := range vc3Trace {
			if e.id == 1 {
				iv, ok := e.v.(int64)
				verifnd.Assert(ok && iv == s+k, "iterations-in-order")
				k++
			}
		}
	}
	if n == int64(NMAX) {
		verifnd.Reach("for-max-trips")
	}
	// the counter after the loop: gone if the init clause made it
	last := vc3Trace[len(vc3Trace)-4] // rd(7,"i"), rd(8,"t"), EndA, EndB
	if hasInit {
		verifnd.Reach("init-clause-variable")
		verifnd.Assert(last.id == 7 && last.v == nil && last.t == ast.Nil, "init-variable-gone-after-loop")
	} else {
		iv, ok := last.v.(int64)
		verifnd.Assert(last.id == 7 && ok, "outer-counter-visible-after-loop")
		if pat <= 1 || pat == 4 {
			verifnd.Assert(iv == n, "outer-counter-final-value")
		}
	}
}

var vc3Wide = []string{"é", "世", "\U0001F600", "ß"} // 2, 3, 4, 2 bytes

// VerifCtlForIn: C03(b) for-in over a list (0..N elements, symbolic), a string (0..N
// characters: symbolic ASCII bytes and multi-byte characters) and a map (0..N keys, every
// iteration order of the Go map explored); the iterable comes from a literal, a variable,
// a point key or a probe call. Body patterns: plain, continue, break (both counted through a
// compound assignment to an outer variable), iteration-local variable, assignment to the
// loop variable. One iteration per element in list order / per character in string order /
// per key exactly once; the loop variable and body locals do not survive an iteration or
// the loop.
func VerifCtlForIn() {
	w := vc3New()
	N, L := verifnd.Param("N", 3), verifnd.Param("L", 1)
	cls := verifnd.Choice(3)
	kind := verifnd.Choice(4)
	pat := verifnd.Choice(5)
	var itv any
	var itt ast.DType
	var elems []any // expected loop-variable values, in order (unordered for a map)
	switch cls {
	case 0:
		itv, itt = vValue(vcList, L, N)
		elems = itv.([]any)
	case 1:
		n := verifnd.Int(0, N)
		s := ""
		for i := 0; i < n; i++ {
			ch := vc3Wide[i%len(vc3Wide)]
			if verifnd.Choice(2) == 0 {
				ch = verifnd.Bytes(1)
				verifnd.Assume(ch[0] < 0x80)
			}
			s += ch
			elems = append(elems, ch)
		}
		itv, itt = s, ast.String
	case 2:
		itv, itt = vValue(vcMap, L, N)
		for _, k := range []string{"k0", "k1", "k2", "k3", "k4"} {
			if _, ok := itv.(map[string]any)[k]; ok {
				elems = append(elems, k)
			}
		}
	}
	n := len(elems)
	var iter *ast.Node
	if cls == 0 && kind == 0 {
		lits := []*ast.Node{}
		for i, e := range elems {
			lits = append(lits, w.operand("e"+vc3Itoa(i), 0, e, vc3TypeOf(e), 0))
		}
		iter = vc3List(lits...)
	} else if cls == 2 && kind == 0 {
		w.setVar("it", itv, itt)
		iter = w.pa(50, vIdent("it"))
	} else {
		iter = w.operand("it", 50, itv, itt, kind)
	}
	w.armOrder(50) // a map reached through a probe call is iterated in every order
	c := vc3Small(N + 1)
	w.setVar("cnt", int64(0), ast.Int)
	w.name("t")
	if (kind+pat)%2 == 1 {
		w.setKey("x", verifnd.Int64(), ast.Int) // the loop variable's name may also be a point key
	}
	outerX := pat == 3 && verifnd.Int(0, 1) == 1
	if outerX {
		// the loop variable's name may already be a variable of the enclosing block: the
		// iteration scope then holds only the body's own locals, which still must not survive
		w.setVar("x", int64(5), ast.Int)
		verifnd.Reach("forin-loop-variable-shadows-outer")
	}
	bump := vc3Assign("cnt", ast.ADDEQ, vInt(1))
	atC := vc3Cmp(ast.EQEQ, vIdent("cnt"), vInt(c))
	body := []*ast.Node{w.rd(1, "x")}
	switch pat {
	case 1:
		body = append(body, bump, vc3If1(atC, vc3Continue(), w.mark(66)), w.rd(2, "x"))
	case 2:
		body = append(body, bump, vc3If1(atC, vc3Break(), w.mark(66)), w.rd(2, "x"))
	case 3:
		body = append(body, w.rd(2, "t"), vc3Set("t", vIdent("x")), w.rd(3, "t"))
	case 4:
		body = append(body, vc3Set("x", vInt(77)), w.rd(2, "x"))
	}
	prog := []*ast.Node{vc3ForIn("x", iter, body), w.rd(7, "x"), w.rd(8, "cnt"), w.rd(9, "t")}
	failed, defined := w.run(prog)
	if outerX {
		// what the loop variable itself denotes here is left open by the reference; the body's
		// local `t` is a block-local of one iteration and must read as nil at the start of each
		verifnd.Assert(!failed, "forin-runs-without-error")
		for _, e := range vc3Trace {
			if e.id == 2 {
				verifnd.Assert(e.v == nil, "body-local-does-not-survive-the-iteration")
			}
		}
		return
	}
	verifnd.Assert(!failed && defined, "forin-runs-without-error")
	verifnd.Assert(vc3Count(66) == 0, "nothing-runs-after-jump-in-block")
	if kind == 3 || (cls == 2 && kind == 0) {
		verifnd.Assert(vc3Count(50) == 1 && vc3Trace[0].id == 50, "iterable-evaluated-once")
	}

	// closed forms
	switch cls {
	case 0:
		verifnd.Reach("forin-list")
	case 1:
		verifnd.Reach("forin-string")
	case 2:
		verifnd.Reach("forin-map")
	}
	if n == N {
		verifnd.Reach("forin-max-length")
	}
	c1 := vc3Count(1)
	hit := verifnd.And(c >= 1, c <= int64(n))
	if pat == 2 && hit {
		verifnd.Reach("forin-break")
		verifnd.Assert(int64(c1) == c && int64(vc3Count(2)) == c-1, "break-ends-loop")
	} else {
		verifnd.Assert(c1 == n, "one-iteration-per-element")
		if pat == 1 && hit {
			verifnd.Reach("forin-continue")
			verifnd.Assert(vc3Count(2) == n-1, "continue-skips-one-body-rest")
		}
	}
	seen := make([]bool, n)
	k := 0
	for _, e := range vc3Trace {
		if e.id != 1 {
			continue
		}
		if cls == 2 {
			ks, ok := e.v.(string)
			verifnd.Assert(ok && e.t == ast.String, "map-loop-variable-is-key-string")
			for j := range elems {
				if elems[j].(string) == ks {
					verifnd.Assert(!seen[j], "map-key-once")
					seen[j] = true
				}
			}
		} else if k < n {
			verifnd.Assert(verifnd.And(e.t == vc3TypeOf(elems[k]), vc3Same(e.v, elems[k])), "elements-in-order")
		}
		k++
	}
	if pat == 3 {
		verifnd.Reach("forin-local")
		for _, e := range vc3Trace {
			if e.id == 2 {
				verifnd.Assert(e.v == nil, "iteration-local-is-fresh")
			}
		}
	}
}

// vc3Loop describes one loop of the nesting harness: kind 0 three-clause for over 0..n-1,
// 1 for-in over the list [0..n-1], 2 for-in over a map with keys k0..k(n-1), 3 for-in over
// the string "abc"[:n]. elem(j) is a literal equal to the loop variable in iteration j
// (for a map: the key kj, whichever iteration it comes up in).
type vc3Loop struct {
	kind int
	v    string
	n    int
}

func (l vc3Loop) elem(j int) *ast.Node {
	switch l.kind {
	case 2:
		return vStr("k" + vc3Itoa(j))
	case 3:
		return vStr(string(rune('a' + j)))
	}
	return vInt(int64(j))
}

func (l vc3Loop) build(w *vc3World, nsym int64, body []*ast.Node) *ast.Node {
	switch l.kind {
	case 0:
		return vc3For(vc3Set(l.v, vInt(0)), vc3Cmp(ast.LT, vIdent(l.v), vInt(nsym)), vc3Plus1(l.v), body)
	case 1:
		e := []*ast.Node{}
		for j := 0; j < l.n; j++ {
			e = append(e, vInt(int64(j)))
		}
		return vc3ForIn(l.v, vc3List(e...), body)
	case 2:
		m := map[string]any{}
		for j := 0; j < l.n; j++ {
			m["k"+vc3Itoa(j)] = int64(j)
		}
		w.setVar("m_"+l.v, m, ast.Map)
		id := 50 + len(l.v) + int(l.v[0])
		w.armOrder(id)
		return vc3ForIn(l.v, w.pa(id, vIdent("m_"+l.v)), body)
	}
	return vc3ForIn(l.v, vStr("abc"[:l.n]), body)
}

// vc3Trips chooses a trip count in lo..N: for kind 0 it stays symbolic (decided by the
// loop condition), otherwise it is enumerated (it is a length).
func vc3Trips(kind, lo, N int) (int, int64) {
	if kind == 0 {
		v := verifnd.Int64()
		verifnd.Assume(verifnd.And(v >= int64(lo), v <= int64(N)))
		return -1, v
	}
	if kind == 2 && N > 2 {
		N = 2 // n! iteration orders per execution of a map loop: at most two keys
	}
	if lo > N {
		lo = N
	}
	n := verifnd.Int(lo, N)
	return n, int64(n)
}

// VerifCtlNest: C03(b) break/continue at nesting depth 2. Outer and inner loop each one of
// {three-clause for, for-in list, for-in map, for-in string}; the inner body holds no jump,
// a break, a continue, or a break two ifs deep, taken when the inner variable equals a
// chosen element; the outer body (after the inner loop) holds no jump, a break or a
// continue. A jump in the inner loop affects only the inner loop: the statement after the
// inner loop runs in every outer iteration.
func VerifCtlNest() {
	w := vc3New()
	N := verifnd.Param("N", 2)
	LO := verifnd.Param("LO", 2) // fewest outer trips
	ko, ki := verifnd.Choice(4), verifnd.Choice(4)
	n0, n0s := vc3Trips(ko, LO, N)
	n1, n1s := vc3Trips(ki, 0, N)
	lo, li := vc3Loop{ko, "o", n0}, vc3Loop{ki, "q", n1}
	if ko == 0 {
		lo.n = N
	}
	if ki == 0 {
		li.n = N
	}
	ji := verifnd.Choice(4) // inner: none, break, continue, break in nested if
	jo := verifnd.Choice(3) // outer: none, break, continue
	inner := []*ast.Node{w.rd(2, "q")}
	if ji != 0 {
		at := vc3Cmp(ast.EQEQ, vIdent("q"), li.elem(verifnd.Int(0, N-1)))
		switch ji {
		case 1:
			inner = append(inner, vc3If1(at, vc3Break(), w.mark(66)))
		case 2:
			inner = append(inner, vc3If1(at, vc3Continue(), w.mark(66)))
		case 3:
			inner = append(inner, vc3If1(at, w.rd(8, "q"), vc3If1(w.pc(9, verifnd.Bool(), ast.Bool), vc3Break(), w.mark(66)), w.rd(10, "q")))
		}
	}
	inner = append(inner, w.rd(3, "q"))
	outer := []*ast.Node{w.rd(1, "o"), li.build(w, n1s, inner), w.rd(4, "o")}
	if jo != 0 {
		at := vc3Cmp(ast.EQEQ, vIdent("o"), lo.elem(verifnd.Int(0, N-1)))
		if jo == 1 {
			outer = append(outer, vc3If1(at, vc3Break(), w.mark(66)))
		} else {
			outer = append(outer, vc3If1(at, vc3Continue(), w.mark(66)))
		}
	}
	outer = append(outer, w.rd(5, "o"))
	prog := []*ast.Node{lo.build(w, n0s, outer), w.rd(6, "o"), w.rd(7, "q")}
	failed, defined := w.run(prog)
	verifnd.Assert(!failed && defined, "nest-runs-without-error")
	verifnd.Assert(vc3Count(66) == 0, "nothing-runs-after-jump-in-block")

	// closed forms: an inner jump never cuts the outer iteration short
	verifnd.Assert(vc3Count(1) == vc3Count(4), "inner-jump-stays-in-inner-loop")
	if jo == 0 {
		verifnd.Assert(int64(vc3Count(1)) == n0s && vc3Count(5) == vc3Count(1), "outer-runs-all-trips")
	}
	if ji == 0 {
		verifnd.Assert(int64(vc3Count(2)) == n1s*int64(vc3Count(1)) && vc3Count(3) == vc3Count(2), "inner-runs-all-trips-each-time")
	}
	if ji == 1 || ji == 3 {
		if vc3Count(3) < vc3Count(2) {
			verifnd.Reach("inner-break-taken")
		}
	}
	if ji == 2 && vc3Count(3) < vc3Count(2) {
		verifnd.Reach("inner-continue-taken")
	}
	if jo == 1 && vc3Count(5) < vc3Count(4) {
		verifnd.Reach("outer-break-taken")
	}
	if jo == 2 && vc3Count(5) < vc3Count(4) {
		verifnd.Reach("outer-continue-taken")
	}
	if ko != 0 && ki != 0 && ko != ki {
		verifnd.Reach("mixed-forin-kinds")
	}
}

// vc3Wrap puts stmts into a block of the given kind (lvl names the helper variables):
// 0 no block, 1 if-body, 2 else-body, 3 elif-body, 4 body of a three-clause for running
// twice, 5 body of a for-in over a two-element list, 6 body of a for-in over a string.
func (w *vc3World) wrap(kind int, lvl string, stmts []*ast.Node) []*ast.Node {
	T := func() *ast.Node { return w.pc(40, true, ast.Bool) }
	F := func() *ast.Node { return w.pc(41, int64(0), ast.Int) }
	switch kind {
	case 1:
		return []*ast.Node{vc3If1(T(), stmts...)}
	case 2:
		return []*ast.Node{vc3If([]*ast.Node{F()}, [][]*ast.Node{{w.mark(66)}}, true, stmts)}
	case 3:
		return []*ast.Node{vc3If([]*ast.Node{F(), T()}, [][]*ast.Node{{w.mark(66)}, stmts}, true, []*ast.Node{w.mark(66)})}
	case 4:
		j := "j" + lvl
		return []*ast.Node{vc3For(vc3Set(j, vInt(0)), vc3Cmp(ast.LT, vIdent(j), vInt(2)), vc3Plus1(j), stmts)}
	case 5:
		return []*ast.Node{vc3ForIn("y"+lvl, vc3List(vInt(1), vInt(2)), stmts)}
	case 6:
		return []*ast.Node{vc3ForIn("y"+lvl, vStr("pq"), stmts)}
	}
	return stmts
}

// VerifCtlScope: C03(c). A name T that before the program is nothing / a point key / a root
// variable / both; an outer block A of any kind (or none) that may define T; an inner block
// B of any kind that assigns T with `=` or `+=` and defines a fresh U. T and U are read
// before, inside and after every block (twice for loop bodies): an assignment updates the
// nearest enclosing variable else creates a block-local one, locals vanish at block exit
// and are fresh in every iteration, a name without variable reads the point key or nil.
func VerifCtlScope() {
	w := vc3New()
	pre := verifnd.Choice(4)
	ka := verifnd.Choice(7)
	kb := 1 + verifnd.Choice(6)
	defA := verifnd.Choice(2) == 1
	compound := verifnd.Choice(2) == 1
	w.name("T")
	w.name("U")
	key, rootv := verifnd.Int64(), verifnd.Int64()
	if pre&1 != 0 {
		w.setKey("T", key, ast.Int)
	}
	if pre&2 != 0 {
		w.setVar("T", rootv, ast.Int)
	}
	op := ast.EQ
	if compound {
		op = ast.ADDEQ
	}
	b := []*ast.Node{w.rd(3, "T"), w.rd(4, "U"), vc3Assign("T", op, vInt(5)), w.rd(5, "T"), vc3Set("U", vInt(9)), w.rd(6, "U")}
	a := []*ast.Node{w.rd(1, "T"), w.rd(2, "U")}
	if defA {
		a = append(a, vc3Set("T", vInt(11)))
	}
	inner := w.wrap(kb, "b", b)
	if verifnd.Param("D3", 0) == 1 {
		// a third level: B sits in a block M inside A
		inner = w.wrap(1+verifnd.Choice(6), "m", append([]*ast.Node{w.rd(12, "U")}, append(inner, w.rd(14, "U"))...))
	}
	a = append(a, inner...)
	a = append(a, w.rd(7, "T"), w.rd(8, "U"))
	prog := append(w.wrap(ka, "a", a), w.rd(9, "T"), w.rd(10, "U"))
	failed, defined := w.run(prog)
	if !defined {
		// `T += 5` where T is neither a variable nor a point key
		verifnd.Assert(compound && pre == 0 && !defA, "only-compound-on-unknown-name-is-unspecified")
		return
	}
	verifnd.Assert(!failed, "scope-runs-without-error")
	verifnd.Assert(vc3Count(66) == 0, "untaken-branches-do-not-run")

	// closed forms
	for _, e := range vc3Trace {
		switch e.id {
		case 2, 4, 8, 10, 12, 14:
			verifnd.Assert(e.v == nil && e.t == ast.Nil, "block-local-invisible-outside-and-fresh")
		case 6:
			verifnd.Assert(e.t == ast.Int && e.v.(int64) == 9, "block-local-visible-inside")
		}
	}
	final := vc3Trace[len(vc3Trace)-4] // rd(9,"T"), rd(10,"U"), EndA, EndB
	verifnd.Assert(final.id == 9, "final-read-position")
	switch {
	case pre&2 != 0:
		verifnd.Reach("outer-variable-updated")
		fv, ok := final.v.(int64)
		verifnd.Assert(ok && final.t == ast.Int, "outer-variable-stays-visible")
		if !compound {
			verifnd.Assert(fv == 5, "assignment-updates-nearest-enclosing")
		}
	case ka != 0:
		// T was created inside A (or B): gone now, the name reads the point key or nil
		if pre&1 != 0 {
			verifnd.Reach("shadowed-key-visible-again")
			fv, ok := final.v.(int64)
			verifnd.Assert(ok && fv == key, "name-without-variable-reads-point-key")
		} else {
			verifnd.Reach("new-name-vanished")
			verifnd.Assert(final.v == nil && final.t == ast.Nil, "name-without-variable-reads-nil")
		}
	default:
		// A is the program's top level
		if defA {
			verifnd.Reach("top-level-definition-persists")
			_, ok := final.v.(int64)
			verifnd.Assert(ok, "root-definition-visible-at-end")
		}
	}
	if compound {
		verifnd.Reach("compound-assignment")
	}
}

// VerifCtlJumpCheck: break / continue are accepted by the load-time check exactly inside
// loop bodies (directly or inside ifs), and rejected at top level, inside an if that is not
// in a loop, and after a loop has ended.
func VerifCtlJumpCheck() {
	w := vc3New()
	jump := vc3Break
	if verifnd.Choice(2) == 1 {
		jump = vc3Continue
	}
	place := verifnd.Choice(8)
	T := w.pc(40, true, ast.Bool)
	var prog []*ast.Node
	ok := false
	switch place {
	case 0:
		prog = []*ast.Node{jump()}
	case 1:
		prog = []*ast.Node{vc3If1(T, jump())}
	case 2:
		prog = []*ast.Node{vc3ForIn("x", vc3List(vInt(1)), []*ast.Node{w.mark(1)}), jump()}
	case 3:
		prog = []*ast.Node{vc3For(nil, vInt(0), nil, []*ast.Node{w.mark(1)}), vc3If([]*ast.Node{T}, [][]*ast.Node{{}}, true, []*ast.Node{jump()})}
	case 4:
		prog, ok = []*ast.Node{vc3ForIn("x", vc3List(vInt(1)), []*ast.Node{jump()})}, true
	case 5:
		prog, ok = []*ast.Node{vc3For(vc3Set("i", vInt(0)), vc3Cmp(ast.LT, vIdent("i"), vInt(2)), vc3Plus1("i"), []*ast.Node{vc3If1(T, jump()), w.mark(1)})}, true
	case 6:
		prog, ok = []*ast.Node{vc3ForIn("x", vStr("a"), []*ast.Node{vc3If([]*ast.Node{T}, [][]*ast.Node{{}}, true, []*ast.Node{vc3If1(T, jump())})})}, true
	case 7:
		prog, ok = []*ast.Node{vc3ForIn("x", vc3List(vInt(1)), []*ast.Node{vc3For(nil, vInt(0), nil, []*ast.Node{w.mark(1)}), jump()})}, true
	}
	chk := &Task{name: "verif.p", funcCall: w.ctx.funcCall, funcCheck: w.ctx.funcCheck}
	chk.stackHeader = &Stack{Data: map[string]*Varb{}}
	chk.stackCur = chk.stackHeader
	err := RunStmtsCheck(chk, &ContextCheck{}, ast.Stmts(prog))
	if ok {
		verifnd.Reach("jump-in-loop")
		verifnd.Assert(err == nil, "jump-inside-loop-accepted")
		failed, defined := w.run(prog)
		verifnd.Assert(!failed && defined, "jump-program-runs")
	} else {
		verifnd.Reach("jump-outside-loop")
		verifnd.Assert(err != nil, "jump-outside-loop-rejected")
	}
}

// VerifCtlForCond: the condition clause of a three-clause for holds a value of any class
// (literal, variable, point key or probe call) and is judged by the same truthiness table:
// `for ; v ; { mark; break }` runs its body once iff v is truthy; with v a variable or a
// point key also `for ; v ; v = nil { mark }` (the loop clause makes the name a falsy
// variable, so the body runs exactly once iff v was truthy).
func VerifCtlForCond() {
	w := vc3New()
	L, N := verifnd.Param("L", 1), verifnd.Param("N", 1)
	c := verifnd.Choice(vcCount)
	v, t := vValue(c, L, N)
	kind := verifnd.Choice(4)
	cond := w.operand("v", 50, v, t, kind)
	var prog []*ast.Node
	reassign := (kind == 1 || kind == 2) && verifnd.Choice(2) == 1
	if reassign {
		// the loop clause makes the name a (falsy) variable: the second test fails
		prog = []*ast.Node{vc3For(nil, cond, vc3Set("v", vNil()), []*ast.Node{w.mark(1)})}
	} else {
		prog = []*ast.Node{vc3For(nil, cond, nil, []*ast.Node{w.mark(1), vc3Break(), w.mark(66)})}
	}
	failed, defined := w.run(prog)
	verifnd.Assert(!failed && defined, "for-runs-without-error")
	verifnd.Assert(vc3Count(66) == 0, "nothing-runs-after-jump-in-block")
	if vc3Truthy(v) {
		verifnd.Reach("for-cond-truthy")
		verifnd.Assert(vc3Count(1) == 1, "truthy-condition-enters-body")
	} else {
		verifnd.Reach("for-cond-falsy")
		verifnd.Assert(vc3Count(1) == 0, "falsy-condition-skips-loop")
	}
	if kind == 3 {
		verifnd.Assert(vc3Count(50) == 1, "condition-evaluated-once-per-test")
	}
}

// VerifCtlForInMixed is VerifCtlForIn run with EC=1 (collection elements of every scalar
// class, NaN included) under its own name so that both configurations can be listed.
func VerifCtlForInMixed() { VerifCtlForIn() }
