package runtime

// C03: the program-shape family. Programs are drawn from the grammar
//
//	S ::= x = e | x op= c | probe(x) | if/elif/else | for (8 shapes) | for-in | break | continue
//
// by a deterministic generator driven by a seed (verifnd.Choice(NS): the engine forks over
// the seeds, every seed is one program shape); the data the programs read - initial
// variables, point keys, loop limits, condition values of every truthiness class, list
// elements - is symbolic. Each program is run on the real interpreter and on the reference
// interpreter of control.go; probe traces and finally visible variables must agree.

import (
	"github.com/GuanceCloud/platypus/internal/verifnd"
	"github.com/GuanceCloud/platypus/pkg/ast"
)

type vc3Gen struct {
	w        *vc3World
	s        uint32
	nid      int
	maxDepth int
	maxBlock int
	L, N     int
	known    []string // names that are a root variable or a point key from the start
	sym      int      // symbolic decisions the program may still introduce (bounds paths per seed)
	usePl    bool
	usePs    bool

	nIf, nFor, nForIn, nJump, nNested, nCompound, nMap int
}

func (g *vc3Gen) rnd(n int) int {
	g.s = g.s*1664525 + 1013904223
	return int((g.s >> 16) % uint32(n))
}

func (g *vc3Gen) id() int { g.nid++; return g.nid }

// take spends one unit of the budget of symbolic decisions.
func (g *vc3Gen) take() bool {
	if g.sym <= 0 {
		return false
	}
	g.sym--
	return true
}

// small is a loop limit in 0..2: symbolic while the budget lasts.
func (g *vc3Gen) small() int64 {
	if g.take() {
		return vc3Small(2)
	}
	return int64(g.rnd(3))
}

var vc3Names = []string{"a", "b", "k"}

// readable: a name to read - one of a, b, k or a loop variable in scope.
func (g *vc3Gen) readable(vars []string) string {
	n := g.rnd(len(vc3Names) + len(vars))
	if n < len(vc3Names) {
		return vc3Names[n]
	}
	return vars[n-len(vc3Names)]
}

func (g *vc3Gen) rhs(vars []string) *ast.Node {
	switch g.rnd(4) {
	case 0:
		return vIdent(g.readable(vars))
	case 1:
		return ast.WrapArithmeticExpr(&ast.ArithmeticExpr{Op: ast.ADD, LHS: vIdent(g.readable(vars)), RHS: vInt(1)})
	}
	return vInt(int64(10 + g.id()))
}

// cond: a condition - a name, a probe call yielding a symbolic value of some class, or a
// comparison on a loop counter.
func (g *vc3Gen) cond(vars []string) *ast.Node {
	switch g.rnd(5) {
	case 0, 1:
		return vIdent(g.readable(vars))
	case 2:
		for _, v := range vars {
			if v[0] == 'i' {
				return vc3Cmp(ast.EQEQ, vIdent(v), vInt(int64(g.rnd(2))))
			}
		}
	}
	if !g.take() {
		return vInt(int64(g.rnd(2)))
	}
	v, t := vValue(g.rnd(vcCount), g.L, g.N)
	return g.w.pc(100+g.id(), v, t)
}

var vc3Ops = []ast.Op{ast.ADDEQ, ast.SUBEQ, ast.MULEQ}

func (g *vc3Gen) block(depth int, inLoop bool, vars []string) []*ast.Node {
	out := []*ast.Node{}
	if depth > 0 && g.rnd(3) != 0 {
		out = append(out, g.w.rd(g.id(), g.readable(vars))) // observe block entry
	}
	n := 1 + g.rnd(g.maxBlock)
	for i := 0; i < n; i++ {
		out = append(out, g.stmt(depth, inLoop, vars)...)
	}
	return out
}

func (g *vc3Gen) stmt(depth int, inLoop bool, vars []string) []*ast.Node {
	w := g.w
	k := g.rnd(100)
	if depth >= g.maxDepth && k >= 55 {
		k = g.rnd(55)
	}
	d := string(rune('0' + depth + 1))
	switch {
	case k < 15:
		return []*ast.Node{vc3Set(vc3Names[g.rnd(3)], g.rhs(vars))}
	case k < 25:
		g.nCompound++
		tgt := vc3Names[g.rnd(3)]
		if g.rnd(4) != 0 {
			if len(g.known) == 0 {
				return []*ast.Node{vc3Set(tgt, g.rhs(vars))}
			}
			tgt = g.known[g.rnd(len(g.known))] // mostly names that surely read as something
		}
		return []*ast.Node{vc3Assign(tgt, vc3Ops[g.rnd(3)], vInt(int64(2+g.rnd(3))))}
	case k < 43:
		return []*ast.Node{w.rd(g.id(), g.readable(vars))}
	case k < 55:
		if !inLoop {
			return []*ast.Node{w.rd(g.id(), g.readable(vars))}
		}
		g.nJump++
		j := vc3Break
		if g.rnd(2) == 0 {
			j = vc3Continue
		}
		if g.rnd(3) == 0 {
			return []*ast.Node{j()}
		}
		return []*ast.Node{vc3If1(g.cond(vars), j())}
	case k < 72:
		g.nIf++
		nb := 1 + g.rnd(2)
		conds := []*ast.Node{}
		bodies := [][]*ast.Node{}
		for i := 0; i < nb; i++ {
			conds = append(conds, g.cond(vars))
			bodies = append(bodies, g.block(depth+1, inLoop, vars))
		}
		hasElse := g.rnd(2) == 0
		var els []*ast.Node
		if hasElse {
			els = g.block(depth+1, inLoop, vars)
		}
		return []*ast.Node{vc3If(conds, bodies, hasElse, els)}
	case k < 86:
		g.nFor++
		if inLoop {
			g.nNested++
		}
		i := "i" + d
		w.name(i)
		shape := g.rnd(8)
		lim := g.small()
		pre := []*ast.Node{}
		var init, cond, loop *ast.Node
		if shape&1 != 0 {
			init = vc3Set(i, vInt(0))
		} else {
			pre = append(pre, vc3Set(i, vInt(0)))
		}
		body := []*ast.Node{}
		if shape&2 != 0 {
			cond = vc3Cmp(ast.LT, vIdent(i), vInt(lim))
		} else {
			body = append(body, vc3If1(vc3Cmp(ast.GTE, vIdent(i), vInt(lim)), vc3Break()))
		}
		if shape&4 != 0 {
			loop = vc3Plus1(i)
		} else {
			body = append(body, vc3Plus1(i))
		}
		body = append(body, g.block(depth+1, true, append(append([]string{}, vars...), i))...)
		return append(pre, vc3For(init, cond, loop, body))
	default:
		g.nForIn++
		if inLoop {
			g.nNested++
		}
		x := "x" + d
		w.name(x)
		inner := append(append([]string{}, vars...), x)
		var iter *ast.Node
		body := []*ast.Node{}
		switch g.rnd(5) {
		case 0:
			e := []*ast.Node{}
			for j := g.rnd(3); j > 0; j-- {
				e = append(e, vInt(verifnd.Int64()))
				g.sym--
			}
			iter = vc3List(e...)
		case 1:
			iter = vStr("uv"[:g.rnd(3)])
		case 2:
			iter = vIdent("pl") // a list held by the point
			if !g.usePl {
				g.sym -= 2
			}
			g.usePl = true
		case 3:
			iter = vIdent("ps") // a string held by the point
			if !g.usePs {
				g.sym--
			}
			g.usePs = true
		case 4:
			g.nMap++
			id := 200 + g.id()
			w.armOrder(id)
			iter = w.pa(id, vIdent("mv"))
			body = append(body, w.rd(g.id(), x))
		}
		body = append(body, g.block(depth+1, true, inner)...)
		return []*ast.Node{vc3ForIn(x, iter, body)}
	}
}

// VerifCtlFamily: C03 (a)+(b)+(c) over the seeded program family.
func VerifCtlFamily() {
	w := vc3New()
	NS := verifnd.Param("NS", 60)
	seed := verifnd.Param("SEED0", 0) + verifnd.Choice(NS)
	g := &vc3Gen{w: w, s: uint32(seed)*2654435761 + 12345,
		maxDepth: verifnd.Param("DEPTH", 2), maxBlock: verifnd.Param("BLOCK", 2),
		L: 1, N: 1, sym: verifnd.Param("SYM", 5)}
	// data: k is a point key (symbolic integer) for two seeds in three, b is a point key
	// shadowed by the variable b once assigned, a is an initial variable in every other seed
	for _, nm := range vc3Names {
		w.name(nm)
	}
	if seed%3 != 0 {
		w.setKey("k", verifnd.Int64(), ast.Int)
		g.known = append(g.known, "k")
	}
	if seed%4 == 1 {
		w.setKey("b", verifnd.Int64(), ast.Int)
		g.known = append(g.known, "b")
	}
	if seed%2 == 0 {
		w.setVar("a", verifnd.Int64(), ast.Int)
		g.known = append(g.known, "a")
	}
	mv := map[string]any{"k0": int64(0)}
	if seed%2 == 1 {
		mv["k1"] = int64(1)
	}
	w.setVar("mv", mv, ast.Map)

	prog := []*ast.Node{}
	for len(prog) < 2 {
		prog = append(prog, g.stmt(0, false, nil)...)
	}
	for _, nm := range vc3Names {
		prog = append(prog, w.rd(9000+g.id(), nm))
	}
	if g.usePl {
		pl := []any{}
		for j := verifnd.Int(0, 2); j > 0; j-- {
			pl = append(pl, verifnd.Int64())
		}
		w.setKey("pl", pl, ast.List)
	}
	if g.usePs {
		ps := verifnd.Bytes(verifnd.Int(0, 1))
		if len(ps) > 0 {
			verifnd.Assume(ps[0] < 0x80)
		}
		w.setKey("ps", ps+"z", ast.String)
	}
	_, defined := w.run(prog)
	if !defined {
		return
	}
	verifnd.Reach("family-compared")
	if g.nIf > 0 {
		verifnd.Reach("family-if")
	}
	if g.nFor > 0 {
		verifnd.Reach("family-for")
	}
	if g.nForIn > 0 {
		verifnd.Reach("family-forin")
	}
	if g.nMap > 0 {
		verifnd.Reach("family-forin-map")
	}
	if g.nJump > 0 {
		verifnd.Reach("family-jump")
	}
	if g.nNested > 0 {
		verifnd.Reach("family-nested-loops")
	}
	if g.nCompound > 0 {
		verifnd.Reach("family-compound-assignment")
	}
}
