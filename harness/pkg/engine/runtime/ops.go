package runtime

import (
	"github.com/GuanceCloud/platypus/internal/verifnd"
	"github.com/GuanceCloud/platypus/pkg/ast"
)

var vArithOps = []ast.Op{ast.ADD, ast.SUB, ast.MUL, ast.DIV, ast.MOD}
var vCmpOps = []ast.Op{ast.EQEQ, ast.NEQ, ast.LT, ast.LTE, ast.GT, ast.GTE}

func vPromote(v any) float64 {
	switch x := v.(type) {
	case int64:
		return float64(x)
	case float64:
		return x
	}
	panic("vPromote")
}

// VerifArithNum: C02 O1/O2/O7 - every arithmetic operator on every ordered pair of
// numeric operands (any int64, any float64 incl. NaN/Inf), operands from literals,
// variables, point keys or probe calls.
func VerifArithNum() {
	vTrace = nil
	op := vArithOps[verifnd.Choice(5)]
	lc := vcInt + verifnd.Int(0, 1)
	rc := vcInt + verifnd.Int(0, 1)
	in := &vInput{}
	ctx := vNewTask(in)
	lv, lt := vScalar(lc, 0)
	rv, rt := vScalar(rc, 0)
	lk, rk := verifnd.Choice(4), verifnd.Choice(4)
	expr := &ast.ArithmeticExpr{Op: op, LHS: vOperand(ctx, in, "x", 1, lv, lt, lk), RHS: vOperand(ctx, in, "y", 2, rv, rt, rk)}
	v, dt, err := RunArithmeticExpr(ctx, expr)
	if lk == 3 && rk == 3 {
		verifnd.Assert(len(vTrace) == 2 && vTrace[0] == 1 && vTrace[1] == 2, "operands-left-to-right-once")
	}
	if lc == vcInt && rc == vcInt {
		li, ri := lv.(int64), rv.(int64)
		if (op == ast.DIV || op == ast.MOD) && ri == 0 {
			verifnd.Reach("int-zero-divisor")
			verifnd.Assert(err != nil, "int-zero-divisor-is-error")
			return
		}
		verifnd.Reach("int-int")
		verifnd.Assert(err == nil, "int-int-no-error")
		if err != nil {
			return
		}
		verifnd.Assert(dt == ast.Int, "int-int-type")
		r, ok := v.(int64)
		verifnd.Assert(ok, "int-int-value-is-int64")
		if !ok {
			return
		}
		switch op {
		case ast.ADD:
			verifnd.Assert(r == li+ri, "int-add-wraps")
		case ast.SUB:
			verifnd.Assert(r == li-ri, "int-sub-wraps")
		case ast.MUL:
			verifnd.Assert(r == li*ri, "int-mul-wraps")
		case ast.DIV:
			verifnd.Assert(r == li/ri, "int-div-truncates")
		case ast.MOD:
			verifnd.Assert(r == li%ri, "int-mod")
		}
		return
	}
	lf, rf := vPromote(lv), vPromote(rv)
	if op == ast.MOD {
		verifnd.Reach("float-mod")
		verifnd.Assert(err != nil, "float-mod-is-error")
		return
	}
	if op == ast.DIV && rf == 0 {
		verifnd.Reach("float-zero-divisor")
		verifnd.Assert(err != nil, "float-zero-divisor-is-error")
		return
	}
	verifnd.Reach("float")
	verifnd.Assert(err == nil, "float-no-error")
	if err != nil {
		return
	}
	verifnd.Assert(dt == ast.Float, "float-type")
	r, ok := v.(float64)
	verifnd.Assert(ok, "float-value-is-float64")
	if !ok {
		return
	}
	switch op {
	case ast.ADD:
		verifnd.Assert(vSameFloat(r, lf+rf), "float-add")
	case ast.SUB:
		verifnd.Assert(vSameFloat(r, lf-rf), "float-sub")
	case ast.MUL:
		verifnd.Assert(vSameFloat(r, lf*rf), "float-mul")
	case ast.DIV:
		verifnd.Assert(vSameFloat(r, lf/rf), "float-div")
	}
}

func vIsNum(c int) bool { return c == vcInt || c == vcFloat }

// VerifArithClasses: C02 O3 - arithmetic over every ordered pair of operand classes
// (nil, bool, int, float, string, list, map): string+string concatenates, every other use
// of a string and every nil/list/map operand is an error, results satisfy Inv.
func VerifArithClasses() {
	vTrace = nil
	op := vArithOps[verifnd.Choice(5)]
	lc, rc := verifnd.Choice(vcCount), verifnd.Choice(vcCount)
	verifnd.Assume(!(vIsNum(lc) && vIsNum(rc))) // VerifArithNum
	in := &vInput{}
	ctx := vNewTask(in)
	L, N := verifnd.Param("L", 2), verifnd.Param("N", 2)
	lv, lt := vValue(lc, L, N)
	rv, rt := vValue(rc, L, N)
	expr := &ast.ArithmeticExpr{Op: op, LHS: vOperand(ctx, in, "x", 1, lv, lt, 1+verifnd.Choice(3)), RHS: vOperand(ctx, in, "y", 2, rv, rt, 1+verifnd.Choice(3))}
	v, dt, err := RunArithmeticExpr(ctx, expr)
	if err == nil {
		verifnd.Assert(vInv(v, dt), "result-inv")
	}
	bad := func(c int) bool { return c == vcNil || c == vcList || c == vcMap }
	switch {
	case bad(lc) || bad(rc):
		verifnd.Reach("nil-list-map-operand")
		verifnd.Assert(err != nil, "nil-list-map-operand-is-error")
	case lc == vcString && rc == vcString:
		if op != ast.ADD {
			verifnd.Reach("string-non-add")
			verifnd.Assert(err != nil, "string-non-add-is-error")
			return
		}
		verifnd.Reach("concat")
		verifnd.Assert(err == nil, "concat-no-error")
		if err != nil {
			return
		}
		s, ok := v.(string)
		verifnd.Assert(ok && dt == ast.String, "concat-type")
		verifnd.Assert(ok && s == lv.(string)+rv.(string), "concat-value")
	case lc == vcString || rc == vcString:
		verifnd.Reach("string-mixed")
		verifnd.Assert(err != nil, "string-with-non-string-is-error")
	default:
		// a bool operand with a bool/number: the reference is silent; only Inv is required
		verifnd.Reach("bool-operand")
	}
}

// vRefEq is the reference equality O4; ok=false where the reference is silent
// (bool against number).
func vRefEq(lc, rc int, lv, rv any) (eq bool, ok bool) {
	switch {
	case lc == vcInt && rc == vcInt:
		return lv.(int64) == rv.(int64), true
	case vIsNum(lc) && vIsNum(rc):
		return vPromote(lv) == vPromote(rv), true
	case lc == vcBool && rc == vcBool:
		return lv.(bool) == rv.(bool), true
	case (lc == vcBool && vIsNum(rc)) || (rc == vcBool && vIsNum(lc)):
		return false, false
	case lc == vcString && rc == vcString:
		return lv.(string) == rv.(string), true
	case lc == vcNil && rc == vcNil:
		return true, true
	case lc == vcList && rc == vcList:
		return vDeepEq(lv, rv), true
	case lc == vcMap && rc == vcMap:
		return vDeepEq(lv, rv), true
	}
	return false, true // unrelated classes
}

// vDeepEq: structural equality of Inv-values (depth 1 collections of scalars).
func vDeepEq(a, b any) bool {
	switch x := a.(type) {
	case nil:
		return b == nil
	case bool:
		y, ok := b.(bool)
		return ok && x == y
	case int64:
		y, ok := b.(int64)
		return ok && x == y
	case float64:
		y, ok := b.(float64)
		return ok && x == y
	case string:
		y, ok := b.(string)
		return ok && x == y
	case []any:
		y, ok := b.([]any)
		if !ok || len(x) != len(y) {
			return false
		}
		for i := range x {
			if !vDeepEq(x[i], y[i]) {
				return false
			}
		}
		return true
	case map[string]any:
		y, ok := b.(map[string]any)
		if !ok || len(x) != len(y) {
			return false
		}
		for k, xv := range x {
			yv, ok := y[k]
			if !ok || !vDeepEq(xv, yv) {
				return false
			}
		}
		return true
	}
	return false
}

// VerifCompare: C02 O4/O5 - == != < <= > >= over every ordered pair of operand classes.
func VerifCompare() {
	vTrace = nil
	op := vCmpOps[verifnd.Choice(6)]
	lc, rc := verifnd.Choice(vcCount), verifnd.Choice(vcCount)
	in := &vInput{}
	ctx := vNewTask(in)
	L, N := verifnd.Param("L", 2), verifnd.Param("N", 2)
	lv, lt := vValue(lc, L, N)
	rv, rt := vValue(rc, L, N)
	lk, rk := verifnd.Choice(4), verifnd.Choice(4)
	expr := &ast.ConditionalExpr{Op: op, LHS: vOperand(ctx, in, "x", 1, lv, lt, lk), RHS: vOperand(ctx, in, "y", 2, rv, rt, rk)}
	v, dt, err := RunConditionExpr(ctx, expr)
	if lk == 3 && rk == 3 {
		verifnd.Assert(len(vTrace) == 2 && vTrace[0] == 1 && vTrace[1] == 2, "operands-left-to-right-once")
	}
	if op == ast.EQEQ || op == ast.NEQ {
		want, defined := vRefEq(lc, rc, lv, rv)
		verifnd.Assert(err == nil, "equality-never-errors")
		if err != nil {
			return
		}
		r, ok := v.(bool)
		verifnd.Assert(ok && dt == ast.Bool, "equality-type")
		if !ok || !defined {
			return
		}
		verifnd.Reach("equality")
		if op == ast.EQEQ {
			verifnd.Assert(r == want, "eq-value")
		} else {
			verifnd.Assert(r == !want, "neq-value")
		}
		return
	}
	if !(vIsNum(lc) || lc == vcBool) || !(vIsNum(rc) || rc == vcBool) {
		verifnd.Reach("order-non-numeric")
		verifnd.Assert(err != nil, "order-non-numeric-is-error")
		return
	}
	if lc == vcBool || rc == vcBool {
		return // reference silent
	}
	verifnd.Reach("order")
	verifnd.Assert(err == nil, "order-no-error")
	if err != nil {
		return
	}
	r, ok := v.(bool)
	verifnd.Assert(ok && dt == ast.Bool, "order-type")
	if !ok {
		return
	}
	var want bool
	if lc == vcInt && rc == vcInt {
		li, ri := lv.(int64), rv.(int64)
		switch op {
		case ast.LT:
			want = li < ri
		case ast.LTE:
			want = li <= ri
		case ast.GT:
			want = li > ri
		case ast.GTE:
			want = li >= ri
		}
	} else {
		lf, rf := vPromote(lv), vPromote(rv)
		switch op {
		case ast.LT:
			want = lf < rf
		case ast.LTE:
			want = lf <= rf
		case ast.GT:
			want = lf > rf
		case ast.GTE:
			want = lf >= rf
		}
	}
	verifnd.Assert(r == want, "order-value")
}

// VerifLogic: C02 O6 - && and || short-circuit on a deciding boolean left operand (the
// right operand is a probe that must not run), combine two booleans, and reject anything else.
func VerifLogic() {
	vTrace = nil
	isAnd := verifnd.Bool()
	isAnd = verifnd.PickBool(isAnd)
	op := ast.OR
	if isAnd {
		op = ast.AND
	}
	lc, rc := verifnd.Choice(vcCount), verifnd.Choice(vcCount)
	in := &vInput{}
	ctx := vNewTask(in)
	lv, lt := vValue(lc, 1, 1)
	rv, rt := vValue(rc, 1, 1)
	expr := &ast.ConditionalExpr{Op: op, LHS: vOperand(ctx, in, "x", 1, lv, lt, verifnd.Choice(4)), RHS: vProbe(ctx, "probe_y", 2, rv, rt)}
	v, dt, err := RunConditionExpr(ctx, expr)
	ranRight := false
	for _, id := range vTrace {
		if id == 2 {
			ranRight = true
		}
	}
	if lc == vcBool {
		l := lv.(bool)
		if l == !isAnd { // true || _ , false && _
			verifnd.Reach("short-circuit")
			verifnd.Assert(!ranRight, "right-operand-not-evaluated")
			verifnd.Assert(err == nil, "short-circuit-no-error")
			r, ok := v.(bool)
			verifnd.Assert(ok && dt == ast.Bool && r == l, "short-circuit-value")
			return
		}
		verifnd.Assert(ranRight, "right-operand-evaluated-once")
		if rc == vcBool {
			verifnd.Reach("both-bool")
			verifnd.Assert(err == nil, "bool-bool-no-error")
			r, ok := v.(bool)
			verifnd.Assert(ok && dt == ast.Bool && r == rv.(bool), "bool-bool-value")
			return
		}
	}
	verifnd.Reach("non-bool")
	verifnd.Assert(err != nil, "non-bool-operand-is-error")
}

// VerifUnary: C02 O8 - unary + - ! on every operand class.
func VerifUnary() {
	vTrace = nil
	ops := []ast.Op{ast.ADD, ast.SUB, ast.NOT}
	op := ops[verifnd.Choice(3)]
	c := verifnd.Choice(vcCount)
	in := &vInput{}
	ctx := vNewTask(in)
	val, t := vValue(c, 2, 2)
	k := verifnd.Choice(4)
	expr := &ast.UnaryExpr{Op: op, RHS: vOperand(ctx, in, "x", 1, val, t, k)}
	v, dt, err := RunUnaryExpr(ctx, expr)
	if k == 3 {
		verifnd.Assert(len(vTrace) == 1, "operand-evaluated-once")
	}
	if err == nil {
		verifnd.Assert(vInv(v, dt), "result-inv")
	}
	if op == ast.NOT {
		// truthiness table (A3)
		var truthy bool
		switch x := val.(type) {
		case nil:
			truthy = false
		case bool:
			truthy = x
		case int64:
			truthy = x != 0
		case float64:
			truthy = x != 0
		case string:
			truthy = len(x) != 0
		case []any:
			truthy = len(x) != 0
		case map[string]any:
			truthy = len(x) != 0
		}
		verifnd.Reach("not")
		verifnd.Assert(err == nil, "not-no-error")
		r, ok := v.(bool)
		verifnd.Assert(ok && dt == ast.Bool && r == !truthy, "not-value")
		return
	}
	switch c {
	case vcInt:
		verifnd.Reach("sign-int")
		verifnd.Assert(err == nil, "sign-int-no-error")
		r, ok := v.(int64)
		verifnd.Assert(ok && dt == ast.Int, "sign-int-type")
		if ok {
			if op == ast.SUB {
				verifnd.Assert(r == -val.(int64), "neg-int")
			} else {
				verifnd.Assert(r == val.(int64), "plus-int")
			}
		}
	case vcFloat:
		verifnd.Reach("sign-float")
		verifnd.Assert(err == nil, "sign-float-no-error")
		r, ok := v.(float64)
		verifnd.Assert(ok && dt == ast.Float, "sign-float-type")
		if ok {
			if op == ast.SUB {
				verifnd.Assert(vSameFloat(r, -val.(float64)), "neg-float")
			} else {
				verifnd.Assert(vSameFloat(r, val.(float64)), "plus-float")
			}
		}
	case vcBool:
		verifnd.Reach("sign-bool") // reference silent on the value; Inv asserted above
	default:
		verifnd.Reach("sign-non-numeric")
		verifnd.Assert(err != nil, "sign-non-numeric-is-error")
	}
}

func vContains(s, sub string) bool {
	for i := 0; i+len(sub) <= len(s); i++ {
		if s[i:i+len(sub)] == sub {
			return true
		}
	}
	return false
}

// VerifIn: C02 O8 / C04(d) - `x in y` is substring (string), key presence (map), element
// presence (list); a non-string left operand with a string/map, and any other right
// operand class, is an error.
func VerifIn() {
	vTrace = nil
	lc, rc := verifnd.Choice(vcCount), verifnd.Choice(vcCount)
	in := &vInput{}
	ctx := vNewTask(in)
	L, N := verifnd.Param("L", 2), verifnd.Param("N", 2)
	lv, lt := vValue(lc, L, 1)
	var rv any
	var rt ast.DType
	if rc == vcMap {
		// map values of every class, nil included: key presence must not depend on the value.
		// With a non-string left operand the contents do not matter (one representative).
		m := map[string]any{}
		names := []string{"k0", "k1", "k2"}
		if lc == vcString {
			nk := verifnd.Int(0, N)
			for i := 0; i < nk; i++ {
				m[names[i]], _ = vScalar(verifnd.Int(vcNil, vcString), L)
			}
			lv = []string{"k0", "k1", "zz", ""}[verifnd.Choice(4)] // present and absent keys
		} else {
			m["k0"] = int64(1)
		}
		rv, rt = m, ast.Map
	} else {
		rv, rt = vValue(rc, L, N)
	}
	if rc == vcList {
		// lists may hold lists and maps (load_json output): membership of a container among
		// containers is decided by deep equality and must not crash
		switch verifnd.Choice(5) {
		case 1:
			rv = append(rv.([]any), []any{int64(1), int64(2)})
		case 2:
			rv = append(rv.([]any), map[string]any{"a": int64(1)})
		case 3: // maps that differ only in WHICH key holds nil (an absent key is not a nil-valued key)
			rv = append(rv.([]any), map[string]any{"id": int64(7), "error": nil})
		case 4:
			rv = append(rv.([]any), []any{map[string]any{"error": nil}}, map[string]any{"id": int64(7), "err": nil})
		}
		if lc == vcList {
			switch verifnd.Choice(3) {
			case 1:
				lv = []any{int64(1), int64(2)}
			case 2:
				lv = []any{map[string]any{"err": nil}}
			}
		}
		if lc == vcMap {
			switch verifnd.Choice(3) {
			case 1:
				lv = map[string]any{"a": int64(1)}
			case 2:
				lv = map[string]any{"id": int64(7), "err": nil}
			}
		}
	}
	lk, rk := verifnd.Choice(4), verifnd.Choice(4)
	expr := &ast.InExpr{Op: "in", LHS: vOperand(ctx, in, "x", 1, lv, lt, lk), RHS: vOperand(ctx, in, "y", 2, rv, rt, rk)}
	v, dt, err := RunInExpr(ctx, expr)
	if lk == 3 && rk == 3 {
		verifnd.Assert(len(vTrace) == 2 && vTrace[0] == 1 && vTrace[1] == 2, "operands-left-to-right-once")
	}
	switch rc {
	case vcString:
		if lc != vcString {
			verifnd.Reach("string-rhs-bad-lhs")
			verifnd.Assert(err != nil, "non-string-in-string-is-error")
			return
		}
		verifnd.Reach("substring")
		verifnd.Assert(err == nil, "substring-no-error")
		r, ok := v.(bool)
		verifnd.Assert(ok && dt == ast.Bool, "in-type")
		verifnd.Assert(r == vContains(rv.(string), lv.(string)), "substring-value")
	case vcMap:
		if lc != vcString {
			verifnd.Reach("map-rhs-bad-lhs")
			verifnd.Assert(err != nil, "non-string-in-map-is-error")
			return
		}
		verifnd.Reach("map-key")
		verifnd.Assert(err == nil, "map-key-no-error")
		r, ok := v.(bool)
		verifnd.Assert(ok && dt == ast.Bool, "in-type")
		_, has := rv.(map[string]any)[lv.(string)]
		if has {
			verifnd.Reach("map-key-present")
		}
		verifnd.Assert(r == has, "map-key-value")
	case vcList:
		verifnd.Reach("list-elem")
		verifnd.Assert(err == nil, "list-elem-no-error")
		r, ok := v.(bool)
		verifnd.Assert(ok && dt == ast.Bool, "in-type")
		want := false
		silent := false
		for _, e := range rv.([]any) {
			if vDeepEq(lv, e) {
				want = true
			}
			_, ef := e.(float64)
			_, ei := e.(int64)
			if (lc == vcInt && ef) || (lc == vcFloat && ei) {
				silent = true // int against float element: reference silent
			}
		}
		if !silent || want {
			verifnd.Assert(r == want, "list-elem-value")
		}
	default:
		verifnd.Reach("bad-rhs")
		verifnd.Assert(err != nil, "in-scalar-is-error")
	}
}

var vAssignOps = []ast.Op{ast.ADDEQ, ast.SUBEQ, ast.MULEQ, ast.DIVEQ, ast.MODEQ}

// VerifAssignOp: C02 O9 - `a op= b` behaves as `a = a op b` for every operator and every
// ordered pair of operand classes: same error-ness, same value, same type, same variable
// state afterwards.
func VerifAssignOp() {
	k := verifnd.Choice(5)
	lc, rc := verifnd.Choice(vcCount), verifnd.Choice(vcCount)
	L, N := verifnd.Param("L", 1), verifnd.Param("N", 1)
	lv, lt := vValue(lc, L, N)
	rv, rt := vValue(rc, L, N)
	targetIsPointKey := verifnd.Int(0, 1) == 1
	mk := func() (*Task, *ast.Node) {
		in := &vInput{}
		ctx := vNewTask(in)
		if targetIsPointKey {
			in.put("a", lv, lt)
		} else {
			ctx.stackCur.Set("a", lv, lt)
		}
		ctx.stackCur.Set("b", rv, rt)
		return ctx, vIdent("b")
	}
	c1, b1 := mk()
	v1, t1, e1 := RunAssignmentExpr(c1, &ast.AssignmentExpr{Op: vAssignOps[k], LHS: []*ast.Node{vIdent("a")}, RHS: []*ast.Node{b1}})
	c2, b2 := mk()
	rhs := ast.WrapArithmeticExpr(&ast.ArithmeticExpr{Op: vArithOps[k], LHS: vIdent("a"), RHS: b2})
	v2, t2, e2 := RunAssignmentExpr(c2, &ast.AssignmentExpr{Op: ast.EQ, LHS: []*ast.Node{vIdent("a")}, RHS: []*ast.Node{rhs}})
	verifnd.Reach("compared")
	verifnd.Assert((e1 == nil) == (e2 == nil), "same-error-ness")
	if e1 != nil || e2 != nil {
		return
	}
	verifnd.Assert(t1 == t2, "same-type")
	verifnd.Assert(vSameValue(v1, v2), "same-value")
	a1, err1 := c1.GetKey("a")
	a2, err2 := c2.GetKey("a")
	verifnd.Assert(err1 == nil && err2 == nil, "target-defined")
	if err1 == nil && err2 == nil {
		verifnd.Assert(a1.DType == a2.DType && vSameValue(a1.Value, a2.Value), "same-variable-state")
		verifnd.Assert(vInv(a1.Value, a1.DType), "target-inv")
	}
}

// vSameValue: scalar equality with NaN == NaN; collections by identity-free deep equality.
func vSameValue(a, b any) bool {
	fa, ok1 := a.(float64)
	fb, ok2 := b.(float64)
	if ok1 && ok2 {
		return vSameFloat(fa, fb)
	}
	return vDeepEq(a, b)
}
