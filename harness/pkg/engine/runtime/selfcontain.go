package runtime

// C01 / C04: a list or map never comes to contain itself. A value that contains itself sends
// every recursive consumer of the host (fmt's %v in printf/strfmt, deep copies) into unbounded
// recursion - a fatal stack overflow that no recover() catches. Index assignment is the only
// operation that writes into an existing container, so: `o<path> = v` is an error exactly when
// the container written into can be reached from v, and after a successful assignment the
// structure is still a finite tree.

import (
	"github.com/GuanceCloud/platypus/internal/verifnd"
	"github.com/GuanceCloud/platypus/pkg/ast"
)

// vscFinite: v has nesting depth <= d (false: deeper, i.e. cyclic for the shapes used here).
func vscFinite(v any, d int) bool {
	if d == 0 {
		return false
	}
	switch x := v.(type) {
	case []any:
		for _, e := range x {
			if !vscFinite(e, d-1) {
				return false
			}
		}
	case map[string]any:
		for _, e := range x {
			if !vscFinite(e, d-1) {
				return false
			}
		}
	}
	return true
}

type vscCase struct {
	holder []*ast.Node // path of the container written into (from o)
	hid    string      // its name in the shape below
	slot   *ast.Node   // key / index written
}

// VerifNoSelfContain: shape o = [10, inner, m] with inner = [20, deep], deep = [30],
// m = {"k": 40, "l": leaf}, leaf = [50]; the assignment o<holder><slot> = value.
func VerifNoSelfContain() {
	vTrace = nil
	in := &vInput{}
	ctx := vNewTask(in)
	deep := []any{int64(30)}
	inner := []any{int64(20), deep}
	leaf := []any{int64(50)}
	m := map[string]any{"k": int64(40), "l": leaf}
	o := []any{int64(10), inner, m}
	w := []any{int64(9)}
	ctx.stackCur.Set("o", o, ast.List)
	ctx.stackCur.Set("w", w, ast.List)
	// containers and who contains whom (reflexive, transitive): name -> set of names reachable
	reach := map[string]string{"o": "o inner deep m leaf", "inner": "inner deep", "deep": "deep", "m": "m leaf", "leaf": "leaf", "w": "w"}
	holders := []vscCase{
		{nil, "o", vInt(0)},
		{nil, "o", vInt(-2)}, // the slot that holds inner
		{[]*ast.Node{vInt(1)}, "inner", vInt(0)},
		{[]*ast.Node{vInt(1), vInt(1)}, "deep", vInt(0)},
		{[]*ast.Node{vInt(2)}, "m", vStr("k")},
		{[]*ast.Node{vInt(2)}, "m", vStr("fresh")},
		{[]*ast.Node{vInt(2), vStr("l")}, "leaf", vInt(-1)},
	}
	h := holders[verifnd.Choice(len(holders))]
	idx := func(obj string, path ...*ast.Node) *ast.Node {
		return ast.WrapIndexExpr(&ast.IndexExpr{Obj: &ast.Identifier{Name: obj}, Index: path})
	}
	type val struct {
		node *ast.Node
		has  string // names of the shape's containers reachable from the value ("" = none)
	}
	vals := []val{
		{vIdent("o"), reach["o"]},
		{idx("o", vInt(1)), reach["inner"]},
		{idx("o", vInt(1), vInt(1)), reach["deep"]},
		{idx("o", vInt(2)), reach["m"]},
		{idx("o", vInt(2), vStr("l")), reach["leaf"]},
		{ast.WrapListInitExpr(&ast.ListLiteral{List: []*ast.Node{vInt(1), vIdent("o")}}), reach["o"]},
		{ast.WrapMapLiteral(&ast.MapLiteral{KeyValeList: [][2]*ast.Node{{vStr("x"), idx("o", vInt(1))}}}), reach["inner"]},
		{vIdent("w"), ""},
		{vInt(5), ""},
		{idx("o", vInt(0)), ""},
	}
	v := vals[verifnd.Choice(len(vals))]
	cyc := false
	for _, name := range splitNames(v.has) {
		if name == h.hid {
			cyc = true
		}
	}
	target := idx("o", append(append([]*ast.Node{}, h.holder...), h.slot)...)
	_, _, err := RunAssignmentExpr(ctx, &ast.AssignmentExpr{Op: ast.EQ, LHS: []*ast.Node{target}, RHS: []*ast.Node{v.node}})
	if cyc {
		verifnd.Reach("would-contain-itself")
		verifnd.Assert(err != nil, "storing-a-container-into-itself-is-an-error")
	} else {
		verifnd.Reach("tree-preserving")
		verifnd.Assert(err == nil, "tree-preserving-assignment-succeeds")
	}
	verifnd.Assert(vscFinite(o, 12), "structure-stays-finite")
}

func splitNames(s string) []string {
	var out []string
	cur := ""
	for i := 0; i < len(s); i++ {
		if s[i] == ' ' {
			if cur != "" {
				out = append(out, cur)
			}
			cur = ""
		} else {
			cur += string(s[i])
		}
	}
	if cur != "" {
		out = append(out, cur)
	}
	return out
}
