package runtime

// C14 (v1, AST level): the C03 program family and hand-built endless loops under a host signal.
//
// Each program of the seeded family of control_family.go (if/elif/else, the 8 shapes of `for`,
// for-in over list/string/map, break/continue, assignments; symbolic data) is executed twice on
// the same data by RunStmts: once with a signal that never fires (counting the polls: K) and
// once with a signal that reports true from poll k on, k = 1..K chosen by verifnd.Choice.
// Nothing here is compared with a reference interpreter (that is C03); the oracle is relational:
// cancelled run vs uninterrupted run of the same program.

import (
	"github.com/GuanceCloud/platypus/internal/verifnd"
	"github.com/GuanceCloud/platypus/pkg/ast"
	"github.com/GuanceCloud/platypus/pkg/errchain"
)

type vc14Signal struct {
	atPoll    int // > 0: true from this poll on
	polls     int
	firstTrue int
}

func (s *vc14Signal) ExitSignal() bool {
	s.polls++
	if s.atPoll > 0 && s.polls >= s.atPoll {
		if s.firstTrue == 0 {
			s.firstTrue = s.polls
		}
		return true
	}
	return false
}

// vc14Meta annotates the events of vc3Trace: polls answered so far, a true answer seen.
type vc14Meta struct {
	polls    int
	observed bool
	stmt     bool // the probe is a statement of its own (not part of a condition / iterable)
}

var (
	vc14Sig  *vc14Signal
	vc14Info []vc14Meta
)

// vc14Wrap returns the function table of w with every probe annotated.
func vc14Wrap(w *vc3World) map[string]FuncCall {
	out := map[string]FuncCall{}
	for name, f := range w.ctx.funcCall {
		f := f
		p := w.probes[name]
		stmt := p != nil && p.arg && (p.id < 100 || p.id >= 9000)
		out[name] = func(c *Task, e *ast.CallExpr) *errchain.PlError {
			err := f(c, e)
			for len(vc14Info) < len(vc3Trace) {
				vc14Info = append(vc14Info, vc14Meta{vc14Sig.polls, vc14Sig.firstTrue != 0, stmt})
			}
			return err
		}
	}
	return out
}

type vc14Result struct {
	err   *errchain.PlError
	trace []vc3Ev
	info  []vc14Meta
}

// vc14Run executes prog in a fresh task (root variables of w, the point of w) under sig.
func vc14Run(w *vc3World, fc map[string]FuncCall, prog []*ast.Node, sig *vc14Signal) vc14Result {
	ctx := vNewTask(w.in)
	ctx.funcCall = fc
	for _, rv := range w.root {
		ctx.stackCur.Set(rv.name, rv.v, rv.t)
	}
	ctx.signal = sig
	vc3Trace, vc14Info, vc14Sig = nil, nil, sig
	err := RunStmts(ctx, ast.Stmts(prog))
	verifnd.NondetMapOrder(false)
	return vc14Result{err, vc3Trace, vc14Info}
}

// vc14Check: the property on one program; endless programs get a base run stopped at poll KN.
func vc14Check(w *vc3World, prog []*ast.Node, endless bool) {
	fc := vc14Wrap(w)
	KN := verifnd.Param("KN", 12)
	base := &vc14Signal{}
	if endless {
		base.atPoll = KN
	}
	r0 := vc14Run(w, fc, prog, base)
	K := base.polls
	if endless {
		K = KN
		verifnd.Assert(r0.err == nil, "base-run-returns-nil")
	}
	if r0.err != nil {
		verifnd.Reach("base-run-fails")
	}
	if K == 0 {
		return
	}
	k := 1 + verifnd.Choice(K)
	sig := &vc14Signal{atPoll: k}
	r1 := vc14Run(w, fc, prog, sig)

	verifnd.Assert(r1.err == nil, "cancelled-run-returns-nil")
	verifnd.Assert(len(r1.trace) <= len(r0.trace), "effects-are-a-prefix")
	if len(r1.trace) <= len(r0.trace) {
		same := true
		for i, e := range r1.trace {
			o := r0.trace[i]
			if e.id != o.id {
				verifnd.Assert(false, "effects-are-a-prefix")
				return
			}
			same = verifnd.And(same, e.t == o.t, vc3Same(e.v, o.v))
		}
		verifnd.Assert(same, "effects-are-a-prefix")
	}
	for _, m := range r1.info {
		verifnd.Assert(!m.observed, "no-effect-after-signal-observed")
	}
	if sig.firstTrue != 0 {
		verifnd.Reach("signal-observed")
	}
	if len(r1.trace) < len(r0.trace) {
		verifnd.Reach("effects-cut-short")
	}
	if k == K {
		verifnd.Reach("fires-at-last-poll")
	}
	// promptness seen from the base run: between the effects of two different statements
	// the signal is asked at least once
	last := -1
	for i, m := range r0.info {
		if !m.stmt {
			continue
		}
		if last >= 0 {
			verifnd.Assert(m.polls > r0.info[last].polls, "poll-between-effects")
		}
		last = i
	}
}

// VerifCancelFamily: the C03 family under a signal.
func VerifCancelFamily() {
	w := vc3New()
	NS := verifnd.Param("NS", 30)
	seed := verifnd.Param("SEED0", 0) + verifnd.Choice(NS)
	g := &vc3Gen{w: w, s: uint32(seed)*2654435761 + 12345,
		maxDepth: verifnd.Param("DEPTH", 2), maxBlock: verifnd.Param("BLOCK", 2),
		L: 1, N: 1, sym: verifnd.Param("SYM", 2)}
	for _, nm := range vc3Names {
		w.name(nm)
	}
	if seed%3 != 0 {
		w.setKey("k", verifnd.Int64(), ast.Int)
		g.known = append(g.known, "k")
	}
	if seed%4 == 1 {
		w.setKey("b", verifnd.Int64(), ast.Int)
		g.known = append(g.known, "b")
	}
	if seed%2 == 0 {
		w.setVar("a", verifnd.Int64(), ast.Int)
		g.known = append(g.known, "a")
	}
	// one key only: the order of a for-in over this map is the same in both runs
	w.setVar("mv", map[string]any{"k0": int64(0)}, ast.Map)

	prog := []*ast.Node{}
	for len(prog) < 2 {
		prog = append(prog, g.stmt(0, false, nil)...)
	}
	for _, nm := range vc3Names {
		prog = append(prog, w.rd(9000+g.id(), nm))
	}
	if g.usePl {
		pl := []any{}
		for j := verifnd.Int(0, 2); j > 0; j-- {
			pl = append(pl, verifnd.Int64())
		}
		w.setKey("pl", pl, ast.List)
	}
	if g.usePs {
		w.setKey("ps", "uz", ast.String)
	}
	vc14Check(w, prog, false)
	if g.nFor > 0 {
		verifnd.Reach("family-for")
	}
	if g.nForIn > 0 {
		verifnd.Reach("family-forin")
	}
	if g.nNested > 0 {
		verifnd.Reach("family-nested-loops")
	}
	if g.nJump > 0 {
		verifnd.Reach("family-jump")
	}
	if g.nIf > 0 {
		verifnd.Reach("family-if")
	}
}

// VerifCancelAstLoops: endless loops as ASTs, including shapes the parser does not produce
// (a `for` without a body block).
func VerifCancelAstLoops() {
	w := vc3New()
	noBody := func() *ast.Node { return ast.WrapForStmt(&ast.ForStmt{}) }
	empty := func() *ast.Node { return vc3For(nil, nil, nil, nil) }
	var prog []*ast.Node
	switch verifnd.Choice(7) {
	case 0:
		verifnd.Reach("for-without-body-block")
		prog = []*ast.Node{noBody()}
	case 1:
		verifnd.Reach("for-with-empty-block")
		prog = []*ast.Node{empty()}
	case 2:
		verifnd.Reach("nested-empty")
		prog = []*ast.Node{vc3For(nil, nil, nil, []*ast.Node{vc3For(nil, nil, nil, []*ast.Node{noBody()})})}
	case 3:
		verifnd.Reach("probe-in-body")
		prog = []*ast.Node{vc3Set("i", vInt(0)), vc3For(nil, nil, nil, []*ast.Node{w.rd(1, "i"), vc3Plus1("i")})}
	case 4:
		verifnd.Reach("endless-inside-forin")
		prog = []*ast.Node{vc3ForIn("x", vc3List(vInt(1), vInt(2)), []*ast.Node{w.rd(1, "x"), empty(), w.rd(2, "x")})}
	case 5:
		verifnd.Reach("endless-with-jumps")
		prog = []*ast.Node{vc3For(vc3Set("i", vInt(0)), vBool(true), vc3Plus1("i"),
			[]*ast.Node{vc3If1(vc3Cmp(ast.EQEQ, vIdent("i"), vInt(1)), vc3Continue()), w.rd(1, "i"),
				vc3For(nil, nil, nil, []*ast.Node{vc3Break()})})}
	default:
		verifnd.Reach("endless-inside-branch")
		prog = []*ast.Node{w.rd(1, "a"), vc3If([]*ast.Node{vBool(false), vInt(3)},
			[][]*ast.Node{{w.rd(2, "a")}, {empty(), w.rd(3, "a")}}, true, []*ast.Node{w.rd(4, "a")}), w.rd(5, "a")}
	}
	prog = append(prog, w.rd(9001, "a"))
	vc14Check(w, prog, true)
}
