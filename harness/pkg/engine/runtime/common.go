package runtime

// Shared helpers of the verification harnesses of package runtime.

import (
	"github.com/GuanceCloud/platypus/pkg/errchain"
	"github.com/GuanceCloud/platypus/internal/verifnd"
	"github.com/GuanceCloud/platypus/pkg/ast"
)

// vInput is a minimal Input: a flat key -> (value, type) table standing for the point.
type vInput struct {
	keys []string
	vals []any
	typs []ast.DType
}

func (in *vInput) Get(key string) (any, ast.DType, error) {
	for i, k := range in.keys {
		if k == key {
			return in.vals[i], in.typs[i], nil
		}
	}
	return nil, ast.Invalid, errVerifNoKey
}

type vErr struct{}

func (vErr) Error() string { return "no such key" }

var errVerifNoKey error = vErr{}

func (in *vInput) put(key string, v any, t ast.DType) {
	in.keys = append(in.keys, key)
	in.vals = append(in.vals, v)
	in.typs = append(in.typs, t)
}

// vNewTask builds a run-time task the way GetContext+InitCtx do, without the pool.
func vNewTask(in *vInput) *Task {
	ctx := &Task{name: "verif.p"}
	ctx.stackHeader = &Stack{Data: map[string]*Varb{}}
	ctx.stackCur = ctx.stackHeader
	ctx.input = in
	return ctx
}

func vInt(v int64) *ast.Node       { return ast.WrapIntegerLiteral(&ast.IntegerLiteral{Val: v}) }
func vFloat(v float64) *ast.Node   { return ast.WrapFloatLiteral(&ast.FloatLiteral{Val: v}) }
func vBool(v bool) *ast.Node       { return ast.WrapBoolLiteral(&ast.BoolLiteral{Val: v}) }
func vStr(v string) *ast.Node      { return ast.WrapStringLiteral(&ast.StringLiteral{Val: v}) }
func vNil() *ast.Node              { return ast.WrapNilLiteral(&ast.NilLiteral{}) }
func vIdent(name string) *ast.Node { return ast.WrapIdentifier(&ast.Identifier{Name: name}) }

// Value classes of the interpreter's value/type invariant Inv(v,t).
const (
	vcNil = iota
	vcBool
	vcInt
	vcFloat
	vcString
	vcList
	vcMap
	vcCount
)

// vScalar returns a symbolic value of the given scalar class (strings of 0..L bytes).
func vScalar(class, L int) (any, ast.DType) {
	switch class {
	case vcNil:
		return nil, ast.Nil
	case vcBool:
		return verifnd.Bool(), ast.Bool
	case vcInt:
		return verifnd.Int64(), ast.Int
	case vcFloat:
		return verifnd.Float64(), ast.Float
	case vcString:
		return verifnd.Bytes(verifnd.Int(0, L)), ast.String
	}
	panic("vScalar: class")
}

// vValue returns a symbolic Inv-value of the class; collections hold 0..N elements
// (depth 1). With harness parameter EC=1 the elements are scalars of symbolic class,
// otherwise arbitrary integers.
func vValue(class, L, N int) (any, ast.DType) {
	elem := func() any {
		if verifnd.Param("EC", 0) == 1 {
			v, _ := vScalar(verifnd.Int(vcNil, vcString), L)
			return v
		}
		return verifnd.Int64()
	}
	switch class {
	case vcList:
		n := verifnd.Int(0, N)
		l := make([]any, n)
		for i := range l {
			l[i] = elem()
		}
		return l, ast.List
	case vcMap:
		n := verifnd.Int(0, N)
		m := map[string]any{}
		names := []string{"k0", "k1", "k2", "k3", "k4"}
		for i := 0; i < n; i++ {
			m[names[i]] = elem()
		}
		return m, ast.Map
	}
	return vScalar(class, L)
}

// vInv checks the value/type invariant on an evaluator result.
func vInv(v any, t ast.DType) bool {
	switch t {
	case ast.Bool:
		_, ok := v.(bool)
		return ok
	case ast.Int:
		_, ok := v.(int64)
		return ok
	case ast.Float:
		_, ok := v.(float64)
		return ok
	case ast.String:
		_, ok := v.(string)
		return ok
	case ast.List:
		_, ok := v.([]any)
		return ok
	case ast.Map:
		_, ok := v.(map[string]any)
		return ok
	case ast.Nil:
		return v == nil
	}
	return true
}

// vLeaf returns an expression node evaluating to the given value: a literal where the
// language has one, otherwise (and for leafKind 1) an identifier bound in the root scope,
// for leafKind 2 an identifier that resolves to a key of the input point.
func vLeaf(ctx *Task, in *vInput, name string, v any, t ast.DType, leafKind int) *ast.Node {
	if leafKind == 0 {
		switch t {
		case ast.Nil:
			return vNil()
		case ast.Bool:
			return vBool(v.(bool))
		case ast.Int:
			return vInt(v.(int64))
		case ast.Float:
			return vFloat(v.(float64))
		case ast.String:
			return vStr(v.(string))
		}
	}
	if leafKind == 2 {
		in.put(name, v, t)
		return vIdent(name)
	}
	ctx.stackCur.Set(name, v, t)
	return vIdent(name)
}

// ---- probe calls: operands whose evaluation is observable ----

var vTrace []int

// vProbe registers a builtin `name` that records id in vTrace and returns (v,t).
func vProbe(ctx *Task, name string, id int, v any, t ast.DType) *ast.Node {
	if ctx.funcCall == nil {
		ctx.funcCall = map[string]FuncCall{}
	}
	ctx.funcCall[name] = func(c *Task, e *ast.CallExpr) *errchain.PlError {
		vTrace = append(vTrace, id)
		c.Regs.ReturnAppend(v, t)
		return nil
	}
	return ast.WrapCallExpr(&ast.CallExpr{Name: name})
}

// vOperand builds an operand node of the given kind: 0 literal (where one exists),
// 1 variable, 2 point key, 3 probe call.
func vOperand(ctx *Task, in *vInput, name string, id int, v any, t ast.DType, kind int) *ast.Node {
	if kind == 3 {
		return vProbe(ctx, "probe_"+name, id, v, t)
	}
	return vLeaf(ctx, in, name, v, t, kind)
}

func vSameFloat(a, b float64) bool { return verifnd.Or(a == b, verifnd.And(a != a, b != b)) }
