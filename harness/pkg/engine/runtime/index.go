package runtime

import (
	"github.com/GuanceCloud/platypus/internal/verifnd"
	"github.com/GuanceCloud/platypus/pkg/ast"
)

// ---- C04(b) / C01: index walks over nested lists and maps ----

// vixElem builds an element of nesting depth <= 1: a tagged integer, a list of two tagged
// integers, or a map with key "k" -> tagged integer. tag identifies the slot.
func vixElem(kind int, tag int64) any {
	switch kind {
	case 0:
		return tag
	case 1:
		return []any{tag + 1, tag + 2}
	default:
		return map[string]any{"k": tag + 1, "j": tag + 2}
	}
}

// vixRoot builds the indexed object: a list of 0..N elements or a map with keys k0..k(N-1).
func vixRoot(N int) (any, ast.DType) {
	n := verifnd.Int(0, N)
	if verifnd.Int(0, 1) == 0 {
		l := make([]any, n)
		for i := range l {
			l[i] = vixElem(verifnd.Choice(3), int64(100*(i+1)))
		}
		return l, ast.List
	}
	m := map[string]any{}
	names := []string{"k0", "k1", "k2"}
	for i := 0; i < n; i++ {
		m[names[i]] = vixElem(verifnd.Choice(3), int64(100*(i+1)))
	}
	return m, ast.Map
}

// vixKey returns an index expression and its reference meaning: an arbitrary int64, a string
// among present/absent keys, or a wrongly typed value (float, bool, nil, list).
type vixKeyT struct {
	node  *ast.Node
	isInt bool
	i     int64
	isStr bool
	s     string
}

func vixKey(ctx *Task, in *vInput, name string, id int) vixKeyT {
	kind := 3 * verifnd.Int(0, 1) // literal or probe call (variables / point keys: see C02 operand kinds)
	switch verifnd.Choice(5) {
	case 0:
		v := verifnd.Int64()
		return vixKeyT{node: vOperand(ctx, in, name, id, v, ast.Int, kind), isInt: true, i: v}
	case 1:
		s := []string{"k0", "k1", "k", "zz", ""}[verifnd.Choice(5)]
		return vixKeyT{node: vOperand(ctx, in, name, id, s, ast.String, kind), isStr: true, s: s}
	case 2:
		return vixKeyT{node: vOperand(ctx, in, name, id, verifnd.Float64(), ast.Float, kind)}
	case 3:
		return vixKeyT{node: vOperand(ctx, in, name, id, verifnd.Bool(), ast.Bool, kind)}
	}
	return vixKeyT{node: vOperand(ctx, in, name, id, nil, ast.Nil, 3)}
}

// vixStep is the reference A2 for one index step on a read: ok=false is an error;
// absent=true is the documented "absent map key reads as nil".
func vixStep(cur any, k vixKeyT) (next any, ok bool, absent bool) {
	switch c := cur.(type) {
	case []any:
		if !k.isInt {
			return nil, false, false
		}
		n := int64(len(c))
		i := k.i
		if i < 0 {
			if i < -n {
				return nil, false, false
			}
			i += n
		}
		if i >= n {
			return nil, false, false
		}
		return c[i], true, false
	case map[string]any:
		if !k.isStr {
			return nil, false, false
		}
		v, has := c[k.s]
		if !has {
			return nil, true, true
		}
		return v, true, false
	}
	return nil, false, false // indexing a scalar
}

// VerifIndexGet: reads a[k1] and a[k1][k2] on nested shapes with in-range, negative,
// out-of-range (any int64) and wrongly typed keys: exactly the designated element, an error,
// or nil for an absent map key - never another element, never a panic.
func VerifIndexGet() {
	vTrace = nil
	in := &vInput{}
	ctx := vNewTask(in)
	root, rt := vixRoot(verifnd.Param("N", 2))
	objKind := verifnd.Choice(3) // 0 variable, 1 point key, 2 not defined at all
	switch objKind {
	case 0:
		ctx.stackCur.Set("a", root, rt)
	case 1:
		in.put("a", root, rt)
	}
	depth := verifnd.Int(1, 2)
	verifnd.Assume(objKind != 2 || depth == 1)
	keys := make([]vixKeyT, depth)
	expr := &ast.IndexExpr{Obj: &ast.Identifier{Name: "a"}}
	for d := 0; d < depth; d++ {
		keys[d] = vixKey(ctx, in, []string{"x", "y"}[d], d+1)
		expr.Index = append(expr.Index, keys[d].node)
	}
	v, dt, err := RunIndexExprGet(ctx, expr)
	if objKind == 2 {
		verifnd.Reach("undefined-object")
		verifnd.Assert(err != nil, "index-of-undefined-name-is-error")
		return
	}
	cur := root
	for d := 0; d < depth; d++ {
		next, ok, absent := vixStep(cur, keys[d])
		if !ok {
			verifnd.Reach("index-error")
			verifnd.Assert(err != nil, "bad-index-is-error")
			return
		}
		if absent {
			verifnd.Reach("absent-map-key")
			verifnd.Assert(err == nil && v == nil && dt == ast.Nil, "absent-map-key-reads-nil")
			return
		}
		cur = next
	}
	verifnd.Reach("element")
	verifnd.Assert(err == nil, "valid-index-no-error")
	if err != nil {
		return
	}
	verifnd.Assert(vInv(v, dt), "result-inv")
	verifnd.Assert(vDeepEq(v, cur), "designated-element")
}

// VerifIndexSet: a[k1] = v and a[k1][k2] = v (and op=): post-state = pre-state with exactly
// that slot replaced, visible through every alias; bad keys are errors and change nothing.
func VerifIndexSet() {
	vTrace = nil
	in := &vInput{}
	ctx := vNewTask(in)
	N := verifnd.Param("N", 2)
	root, rt := vixRoot(N)
	ctx.stackCur.Set("a", root, rt)
	ctx.stackCur.Set("alias", root, rt) // b = a
	depth := verifnd.Int(1, 2)
	keys := make([]vixKeyT, depth)
	expr := &ast.IndexExpr{Obj: &ast.Identifier{Name: "a"}}
	for d := 0; d < depth; d++ {
		keys[d] = vixKey(ctx, in, []string{"x", "y"}[d], d+1)
		expr.Index = append(expr.Index, keys[d].node)
	}
	snapshot := vixCopy(root)
	newVal := int64(777)
	_, _, err := RunAssignmentExpr(ctx, &ast.AssignmentExpr{Op: ast.EQ, LHS: []*ast.Node{ast.WrapIndexExpr(expr)}, RHS: []*ast.Node{vInt(newVal)}})
	// reference: walk to the parent of the last step
	cur := root
	okWalk := true
	for d := 0; d < depth-1; d++ {
		next, ok, absent := vixStep(cur, keys[d])
		if !ok || absent { // an inner step through an absent key is an error on writes
			okWalk = false
			break
		}
		cur = next
	}
	last := keys[depth-1]
	if okWalk {
		switch c := cur.(type) {
		case []any:
			_, ok, _ := vixStep(c, last)
			okWalk = ok
		case map[string]any:
			okWalk = last.isStr // insert or overwrite
		default:
			okWalk = false
		}
	}
	if !okWalk {
		verifnd.Reach("write-error")
		verifnd.Assert(err != nil, "bad-write-is-error")
		verifnd.Assert(vDeepEq(root, snapshot), "failed-write-changes-nothing")
		return
	}
	verifnd.Reach("written")
	verifnd.Assert(err == nil, "valid-write-no-error")
	if err != nil {
		return
	}
	// expected post-state: snapshot with that slot replaced
	want := vixCopy(snapshot)
	wcur := want
	for d := 0; d < depth-1; d++ {
		wcur, _, _ = vixStep(wcur, keys[d])
	}
	switch c := wcur.(type) {
	case []any:
		i := last.i
		if i < 0 {
			i += int64(len(c))
		}
		c[i] = newVal
	case map[string]any:
		c[last.s] = newVal
	}
	verifnd.Assert(vDeepEq(root, want), "exactly-that-slot-replaced")
	al, _ := ctx.GetKey("alias")
	verifnd.Assert(vDeepEq(al.Value, want), "write-visible-through-alias")
}

func vixCopy(v any) any {
	switch x := v.(type) {
	case []any:
		o := make([]any, len(x))
		for i := range x {
			o[i] = vixCopy(x[i])
		}
		return o
	case map[string]any:
		o := map[string]any{}
		for k, e := range x {
			o[k] = vixCopy(e)
		}
		return o
	}
	return v
}

// VerifIndexNoObject: the grammar admits an object-less index expression `.[i]`; evaluating
// it (as a value, as an assignment target, as a call argument) must not crash the host.
func VerifIndexNoObject() {
	in := &vInput{}
	ctx := vNewTask(in)
	idx := &ast.IndexExpr{Index: []*ast.Node{vInt(verifnd.Int64())}}
	node := ast.WrapIndexExpr(idx)
	switch verifnd.Choice(4) {
	case 0:
		_, _, _ = RunStmt(ctx, node)
		verifnd.Reach("value")
	case 1:
		_, _, _ = RunAssignmentExpr(ctx, &ast.AssignmentExpr{Op: ast.EQ, LHS: []*ast.Node{vIdent("x")}, RHS: []*ast.Node{node}})
		verifnd.Reach("assign-source")
	case 2:
		_, _, _ = RunAssignmentExpr(ctx, &ast.AssignmentExpr{Op: ast.EQ, LHS: []*ast.Node{node}, RHS: []*ast.Node{vInt(1)}})
		verifnd.Reach("assign-target")
	case 3:
		_, _, _ = RunAssignmentExpr(ctx, &ast.AssignmentExpr{Op: ast.ADDEQ, LHS: []*ast.Node{node}, RHS: []*ast.Node{vInt(1)}})
		verifnd.Reach("opassign-target")
	}
}
