package runtime

// C15 (task side): the outcome of Script.Run / Script.Check is a function of the script, the
// function tables and the input alone - not of what the pooled *Task was used for before.
//
// Pooled object: *Task {private, Regs{count, regsValDType[6], r0r5[6]}, stackHeader, stackCur,
// funcCall, funcCheck, input, loopBreak, loopContinue, signal, procExit, callRef, name}.
// "Fresh" = the object ctxPool.New returns.

import (
	"github.com/GuanceCloud/platypus/internal/verifnd"
	"github.com/GuanceCloud/platypus/pkg/ast"
	"github.com/GuanceCloud/platypus/pkg/errchain"
	"github.com/GuanceCloud/platypus/pkg/token"
)

// ---- observation trace: everything a builtin (run or check side) can read from the task ----

type vc15Obs struct {
	ints  []int64
	bools []bool
	strs  []string
}

var vc15T *vc15Obs
var vc15In Input // the input the current run was started with

func (o *vc15Obs) val(v any) {
	switch x := v.(type) {
	case nil:
		o.ints = append(o.ints, 0)
	case int64:
		o.ints = append(o.ints, 1, x)
	case bool:
		o.ints = append(o.ints, 2)
		o.bools = append(o.bools, x)
	case string:
		o.ints = append(o.ints, 3)
		o.strs = append(o.strs, x)
	case float64:
		o.ints = append(o.ints, 4)
		o.bools = append(o.bools, x == 2.5)
	case []any:
		o.ints = append(o.ints, 5, int64(len(x)))
	case map[string]any:
		o.ints = append(o.ints, 6, int64(len(x)))
	default:
		o.ints = append(o.ints, 9)
	}
}

func vc15SameObs(a, b *vc15Obs) bool {
	if len(a.ints) != len(b.ints) || len(a.bools) != len(b.bools) || len(a.strs) != len(b.strs) {
		return false
	}
	ok := true
	for i := range a.ints {
		ok = verifnd.And(ok, a.ints[i] == b.ints[i])
	}
	for i := range a.bools {
		ok = verifnd.And(ok, a.bools[i] == b.bools[i])
	}
	for i := range a.strs {
		ok = verifnd.And(ok, a.strs[i] == b.strs[i])
	}
	return ok
}

var vc15VarNames = []string{"stale_v", "a", "x", "i", "k1", "message"}

// vc15Dump records the whole task state a builtin can get at. The parts only a builtin that
// looks beyond the documented register protocol (Regs.Get(i) for i >= Count) or at the
// host's private map can see go to a separate trace (side).
func vc15Dump(ctx *Task, o, side *vc15Obs) {
	o.ints = append(o.ints, int64(ctx.Regs.Count()))
	for i := 0; i < 6; i++ {
		v, t, _ := ctx.Regs.Get(PlRegRange(i))
		if i < ctx.Regs.Count() {
			o.ints = append(o.ints, int64(t))
			o.val(v)
		} else {
			// an empty slot reads (nil, Invalid) before its first use and (nil, Void) after
			// PlReg.Reset cleared it, within one run as well: both mean "no value"
			if t == ast.Void {
				t = ast.Invalid
			}
			side.ints = append(side.ints, int64(t))
			side.val(v)
		}
	}
	o.strs = append(o.strs, ctx.Name())
	pv, ok := ctx.PValue("k")
	side.bools = append(side.bools, ok, ctx.private == nil)
	side.val(pv)
	if vc15Check {
		// load time: there is no input and no signal; InitCtxForCheck leaves both fields alone
		side.bools = append(side.bools, ctx.Signal() == nil, ctx.InData() == nil)
	} else {
		o.bools = append(o.bools, ctx.Signal() == nil, ctx.InData() == vc15In)
	}
	o.bools = append(o.bools, ctx.loopBreak, ctx.loopContinue, ctx.procExit, ctx.funcCheck == nil)
	o.ints = append(o.ints, int64(len(ctx.callRef)))
	for _, n := range vc15VarNames {
		var v *Varb
		var err error
		if vc15Check {
			v, err = ctx.stackCur.Get(n) // GetKey needs an input
		} else {
			v, err = ctx.GetKey(n)
		}
		o.bools = append(o.bools, err == nil)
		if err == nil {
			o.ints = append(o.ints, int64(v.DType))
			o.val(v.Value)
		}
	}
	depth := 0
	var bottom *Stack
	for s := ctx.stackCur; s != nil; s = s.Before {
		depth++
		bottom = s
		o.ints = append(o.ints, int64(len(s.Data)), int64(len(s.CheckPattern)))
	}
	o.ints = append(o.ints, int64(depth))
	o.bools = append(o.bools, bottom == ctx.stackHeader)
	_, pok := ctx.GetPattern("p_stale")
	_, pok1 := ctx.GetPattern("p1")
	o.bools = append(o.bools, pok, pok1)
}

var vc15Side *vc15Obs
var vc15Check bool // the operation under observation is a load-time check

func vc15Pos(n int) token.LnColPos { return token.LnColPos{Pos: token.Pos(n), Ln: n, Col: n} }

// vc15Funcs: the registered functions (the same table for every operation of a history).
func vc15Funcs() map[string]FuncCall {
	return map[string]FuncCall{
		"dump": func(ctx *Task, e *ast.CallExpr) *errchain.PlError {
			vc15Dump(ctx, vc15T, vc15Side)
			return nil
		},
		"see": func(ctx *Task, e *ast.CallExpr) *errchain.PlError {
			v, t, err := RunStmt(ctx, e.Param[0])
			if err != nil {
				return err
			}
			vc15T.ints = append(vc15T.ints, 100, int64(t))
			vc15T.val(v)
			return nil
		},
		"ret2": func(ctx *Task, e *ast.CallExpr) *errchain.PlError {
			ctx.Regs.ReturnAppend(int64(41), ast.Int)
			ctx.Regs.ReturnAppend("two", ast.String)
			return nil
		},
		"ret6": func(ctx *Task, e *ast.CallExpr) *errchain.PlError {
			for i := 0; i < 7; i++ {
				ctx.Regs.ReturnAppend("r", ast.String)
			}
			return nil
		},
		"noret": func(ctx *Task, e *ast.CallExpr) *errchain.PlError { return nil },
		"halt": func(ctx *Task, e *ast.CallExpr) *errchain.PlError {
			ctx.SetExit()
			return nil
		},
		"fail": func(ctx *Task, e *ast.CallExpr) *errchain.PlError {
			// fails with registers loaded
			ctx.Regs.ReturnAppend("partial", ast.String)
			return NewRunError(ctx, "boom", e.NamePos)
		},
		"use":  func(ctx *Task, e *ast.CallExpr) *errchain.PlError { return nil },
		"pat":  func(ctx *Task, e *ast.CallExpr) *errchain.PlError { ctx.SetPattern("p1", nil); return nil },
		"setv": func(ctx *Task, e *ast.CallExpr) *errchain.PlError { _ = ctx.SetVarb("stale_v", "from-setv", ast.String); return nil },
	}
}

// vc15Checks: the checkers. "dump" observes, "use" records a reference, "pat" declares a
// pattern, "badarg" rejects.
func vc15Checks() map[string]FuncCheck {
	ok := func(ctx *Task, e *ast.CallExpr) *errchain.PlError { return nil }
	return map[string]FuncCheck{
		"dump": func(ctx *Task, e *ast.CallExpr) *errchain.PlError {
			vc15Dump(ctx, vc15T, vc15Side)
			return nil
		},
		"see": ok, "ret2": ok, "ret6": ok, "noret": ok, "halt": ok, "setv": ok,
		"use": func(ctx *Task, e *ast.CallExpr) *errchain.PlError {
			ctx.SetCallRef(e)
			return nil
		},
		"pat": func(ctx *Task, e *ast.CallExpr) *errchain.PlError {
			ctx.SetPattern("p1", nil)
			return nil
		},
		"fail": func(ctx *Task, e *ast.CallExpr) *errchain.PlError {
			return NewRunError(ctx, "bad argument list", e.NamePos)
		},
	}
}

// ---- script construction ----

func vc15Call(pos int, name string, args ...*ast.Node) *ast.Node {
	return ast.WrapCallExpr(&ast.CallExpr{Name: name, Param: args, NamePos: vc15Pos(pos)})
}
func vc15Set(name string, rhs *ast.Node) *ast.Node {
	return ast.WrapAssignmentStmt(&ast.AssignmentExpr{LHS: []*ast.Node{vIdent(name)}, Op: ast.EQ, RHS: []*ast.Node{rhs}})
}
func vc15Cmp(op ast.Op, l, r *ast.Node) *ast.Node {
	return ast.WrapConditionExpr(&ast.ConditionalExpr{Op: op, LHS: l, RHS: r})
}
func vc15Plus1(name string) *ast.Node {
	return vc15Set(name, ast.WrapArithmeticExpr(&ast.ArithmeticExpr{Op: ast.ADD, LHS: vIdent(name), RHS: vInt(1)}))
}
func vc15Blk(s ...*ast.Node) *ast.BlockStmt { return &ast.BlockStmt{Stmts: ast.Stmts(s)} }
func vc15If(cond *ast.Node, body ...*ast.Node) *ast.Node {
	return ast.WrapIfelseStmt(&ast.IfelseStmt{IfList: ast.IfList{&ast.IfStmtElem{Condition: cond, Block: vc15Blk(body...)}}})
}
func vc15For(init, cond, loop *ast.Node, body ...*ast.Node) *ast.Node {
	return ast.WrapForStmt(&ast.ForStmt{Init: init, Cond: cond, Loop: loop, Body: vc15Blk(body...)})
}
func vc15ForIn(v string, iter *ast.Node, body ...*ast.Node) *ast.Node {
	return ast.WrapForInStmt(&ast.ForInStmt{Varb: vIdent(v), Iter: iter, Body: vc15Blk(body...)})
}
func vc15List(e ...*ast.Node) *ast.Node { return ast.WrapListInitExpr(&ast.ListLiteral{List: e}) }

// vc15Successor: the script under observation. Every statement is one whose behaviour
// changes if some task field leaked: reads of undefined variables, a call used as a value
// with and without return values, loops with continue/break, for-in, an input key, and a
// tail that ends normally / exits / fails inside a loop.
//
//	dump(); see(stale_v); a = ret2(); b = noret(); see(a); see(b)
//	for i = 0; i < 3; i = i + 1 { if i == 1 { continue }; see(i); dump(); if i == 2 { break } }
//	dump(); for x in [1, 2] { see(x) }; see(k1); use("lib.p"); pat()
//	tail 0: dump()   tail 1: for ;; { halt() }; see(a)   tail 2: for x in [1] { if true { fail() } }; see(a)
func vc15Successor(tail int) *Script {
	st := ast.Stmts{
		vc15Call(1, "dump"),
		vc15Call(2, "see", vIdent("stale_v")),
		vc15Set("a", vc15Call(3, "ret2")),
		vc15Set("b", vc15Call(4, "noret")),
		vc15Call(5, "see", vIdent("a")),
		vc15Call(6, "see", vIdent("b")),
		vc15For(vc15Set("i", vInt(0)), vc15Cmp(ast.LT, vIdent("i"), vInt(3)), vc15Plus1("i"),
			vc15If(vc15Cmp(ast.EQEQ, vIdent("i"), vInt(1)), ast.WrapContinueStmt(&ast.ContinueStmt{})),
			vc15Call(7, "see", vIdent("i")),
			vc15Call(8, "dump"),
			vc15If(vc15Cmp(ast.EQEQ, vIdent("i"), vInt(2)), ast.WrapBreakStmt(&ast.BreakStmt{})),
		),
		vc15Call(9, "dump"),
		vc15ForIn("x", vc15List(vInt(1), vInt(2)), vc15Call(10, "see", vIdent("x"))),
		vc15Call(11, "see", vIdent("k1")),
		vc15Call(12, "use", vStr("lib.p")),
		vc15Call(13, "pat"),
	}
	switch tail {
	case 0:
		st = append(st, vc15Call(14, "dump"))
	case 1:
		st = append(st, vc15For(nil, nil, nil, vc15Call(15, "halt")), vc15Call(16, "see", vIdent("a")))
	case 2:
		st = append(st, vc15ForIn("x", vc15List(vInt(1)), vc15If(vBool(true), vc15Call(17, "fail"))), vc15Call(18, "see", vIdent("a")))
	}
	return &Script{Name: "succ.p", FuncCall: vc15Funcs(), Ast: st}
}

// vc15Cancel: a cancellation signal that fires on the n-th poll.
type vc15Cancel struct{ n int }

func (c *vc15Cancel) ExitSignal() bool {
	c.n--
	return c.n <= 0
}

// vc15Predecessor: the operation that ran earlier (run side).
//
//	0 success leaving variables (root and nested), a pattern, full registers mid-call
//	1 run error inside nested loops (scopes left open, registers loaded by the failing call)
//	2 exit() inside a loop
//	3 a top-level break and continue (leave the loop flags set at the end of the run)
//	4 cancelled by its signal inside a loop; run with a private map
//	5 a load-time check that fails in the middle (check side predecessor)
//	6 a load-time check that succeeds and records references and a pattern
func vc15RunPredecessor(kind int) {
	in := &vInput{}
	in.put("k1", "pred-input", ast.String)
	in.put("stale_v", "pred-key", ast.String)
	fns := vc15Funcs()
	vc15T, vc15Side, vc15In, vc15Check = &vc15Obs{}, &vc15Obs{}, in, kind >= 5
	switch kind {
	case 0:
		s := &Script{Name: "pred.p", FuncCall: fns, Ast: ast.Stmts{
			vc15Set("stale_v", vStr("pred-var")), vc15Set("a", vInt(7)), vc15Set("x", vInt(8)), vc15Call(1, "setv"),
			vc15Call(2, "pat"), vc15Set("r", vc15Call(3, "ret6")),
			vc15For(vc15Set("i", vInt(0)), vc15Cmp(ast.LT, vIdent("i"), vInt(2)), vc15Plus1("i"), vc15Set("inner", vInt(1))),
		}}
		_ = s.Run(in, nil)
	case 1:
		s := &Script{Name: "pred.p", FuncCall: fns, Ast: ast.Stmts{
			vc15Set("stale_v", vStr("pred-var")),
			vc15For(vc15Set("i", vInt(0)), nil, nil,
				vc15ForIn("x", vc15List(vInt(1), vInt(2)), vc15Set("a", vInt(9)), vc15If(vBool(true), vc15Call(1, "fail")))),
		}}
		_ = s.Run(in, nil)
	case 2:
		s := &Script{Name: "pred.p", FuncCall: fns, Ast: ast.Stmts{
			vc15Set("stale_v", vStr("pred-var")),
			vc15For(nil, nil, nil, vc15Set("a", vInt(9)), vc15Call(1, "halt")),
		}}
		_ = s.Run(in, nil)
	case 3:
		s := &Script{Name: "pred.p", FuncCall: fns, Ast: ast.Stmts{
			vc15Set("stale_v", vStr("pred-var")), ast.WrapContinueStmt(&ast.ContinueStmt{}),
		}}
		_ = s.Run(in, nil)
		s2 := &Script{Name: "pred.p", FuncCall: fns, Ast: ast.Stmts{
			vc15Set("stale_v", vStr("pred-var")), ast.WrapBreakStmt(&ast.BreakStmt{}),
		}}
		_ = s2.Run(in, nil)
	case 4:
		s := &Script{Name: "pred.p", FuncCall: fns, Ast: ast.Stmts{
			vc15Set("stale_v", vStr("pred-var")),
			vc15For(vc15Set("i", vInt(0)), nil, vc15Plus1("i"), vc15Set("a", vIdent("i"))),
		}}
		_ = s.Run(in, &vc15Cancel{n: 4}, WithPrivate(map[string]any{"k": "pred-private"}))
	case 5:
		s := &Script{Name: "pred.p", FuncCall: fns, Ast: ast.Stmts{
			vc15Call(1, "use", vStr("other.p")), vc15Call(2, "pat"),
			vc15For(nil, nil, nil, vc15If(vBool(true), vc15Call(3, "fail"))),
		}}
		_ = s.Check(vc15Checks())
	case 6:
		s := &Script{Name: "pred.p", FuncCall: fns, Ast: ast.Stmts{
			vc15Call(1, "use", vStr("other.p")), vc15Call(2, "use", vStr("third.p")), vc15Call(3, "pat"),
		}}
		_ = s.Check(vc15Checks())
	}
}

const vc15Preds = 7

// vc15Outcome: what one operation produced.
type vc15Outcome struct {
	err      *errchain.PlError
	obs      *vc15Obs
	side     *vc15Obs
	callRefs []*ast.CallExpr // after Check
}

func vc15NewInput() *vInput {
	in := &vInput{}
	in.put("k1", int64(5), ast.Int)
	in.put("message", "m", ast.String)
	return in
}

// vc15Op runs the operation under observation: Run (check=false) or Check (check=true) of
// the successor script on an input equal in every run.
func vc15Op(check bool, tail int) *vc15Outcome {
	s := vc15Successor(tail)
	in := vc15NewInput()
	o := &vc15Outcome{obs: &vc15Obs{}, side: &vc15Obs{}}
	vc15T, vc15Side, vc15In, vc15Check = o.obs, o.side, in, check
	if check {
		o.err = s.Check(vc15Checks())
		o.callRefs = s.CallRef
		// identify the recorded references by their position in the script
		for _, c := range s.CallRef {
			o.obs.ints = append(o.obs.ints, 200, int64(c.NamePos.Pos))
		}
	} else {
		o.err = s.Run(in, nil)
	}
	return o
}

func vc15SameErr(a, b *errchain.PlError) bool {
	if a == nil || b == nil {
		return a == nil && b == nil
	}
	if len(a.PosChain) != len(b.PosChain) {
		return false
	}
	ok := a.Err == b.Err
	for i := range a.PosChain {
		p, q := a.PosChain[i], b.PosChain[i]
		ok = verifnd.And(ok, p.File == q.File, p.Pos == q.Pos, p.Ln == q.Ln, p.Col == q.Col)
	}
	return ok
}

func vc15Compare(tag string, ref, got *vc15Outcome) {
	verifnd.Assert(vc15SameErr(ref.err, got.err), tag+":same-error")
	verifnd.Assert(vc15SameObs(ref.obs, got.obs), tag+":same-observations")
	verifnd.Assert(vc15SameObs(ref.side, got.side), tag+":same-side-observations")
	if ref.err != nil {
		verifnd.Reach(tag + ":op-failed")
	} else {
		verifnd.Reach(tag + ":op-succeeded")
	}
}

// vc15TaskAsFresh: the task the REAL acquisition path (GetContext) hands out carries nothing a run
// could read before it writes: no private data, and a variable stack that is the empty root frame
// (no variables, no patterns, no parent). Whether an implementation resets when a task is returned
// or when it is handed out, and whether it recycles the emptied frame, is its own business - every
// other field is assigned by InitCtx / InitCtxForCheck before a run or check reads it.
func vc15TaskAsFresh(t *Task) bool {
	if t == nil || t.stackHeader == nil {
		return false
	}
	return verifnd.And(len(t.private) == 0, t.stackCur == t.stackHeader, len(t.stackHeader.Data) == 0,
		t.stackHeader.Before == nil, len(t.stackHeader.CheckPattern) == 0)
}

// VerifTaskReuse: reset lemma for *Task on REACHABLE residue. Reference = the operation
// (CHECK=0 run, 1 check; tail chosen) in the fresh state. Then a predecessor operation of
// every kind runs on the pool; the task the real acquisition path then hands out is inspected
// (nothing a run could read before writing it: the induction step for histories of any length) and the operation is repeated on it: same error, same observations.
func VerifTaskReuse() {
	check := verifnd.Param("CHECK", 0) == 1
	tail := verifnd.Choice(3)
	ref := vc15Op(check, tail)
	ctxPool.Get() // drain: fresh state again
	kind := verifnd.Choice(vc15Preds)
	vc15RunPredecessor(kind)
	verifnd.Reach("predecessor-done")
	t := GetContext()
	verifnd.Assert(vc15TaskAsFresh(t), "task-handed-out-after-a-predecessor-is-as-fresh")
	PutContext(t)
	got := vc15Op(check, tail)
	t2 := GetContext()
	verifnd.Assert(t2 == t, "operation-reused-the-predecessors-task")
	verifnd.Assert(vc15TaskAsFresh(t2), "task-handed-out-after-a-predecessor-is-as-fresh")
	PutContext(t2)
	vc15Compare("after-predecessor", ref, got)
}

// ---- arbitrary residue ----

type vc15StaleSig struct{}

func (vc15StaleSig) ExitSignal() bool { return true }

// vc15StaleTask: a task whose every field holds residue. RESIDUE is a bit set selecting the
// field groups no reset on the Get side covers (they rely on PutContext's zeroing):
// 1 = private map, 2 = register slots beyond count, 4 = input and signal when the task is
// taken for a load-time check (InitCtxForCheck does not assign them).
var vc15StaleForCheck bool

func vc15StaleTask() *Task {
	res := verifnd.Param("RESIDUE", 0)
	st := &Task{}
	if res&1 != 0 {
		st.private = map[string]any{"k": "STALE"}
	}
	c := verifnd.Int(0, 6) // the type's invariant: ReturnAppend never exceeds 6
	st.Regs.count = uint(c)
	for i := 0; i < 6; i++ {
		if res&2 != 0 || i < c {
			st.Regs.regsValDType[i] = ast.DType(verifnd.Int64())
			if i%2 == 0 {
				st.Regs.r0r5[i] = "STALE"
			} else {
				st.Regs.r0r5[i] = verifnd.Int64()
			}
		}
	}
	root := &Stack{Data: map[string]*Varb{"stale_v": {Value: "STALE", DType: ast.String}, "a": {Value: verifnd.Int64(), DType: ast.Int}},
		CheckPattern: nil}
	root.SetPattern("p_stale", nil)
	mid := &Stack{Data: map[string]*Varb{"x": {Value: "STALE", DType: ast.String}, "i": {Value: int64(2), DType: ast.Int}}, Before: root}
	st.stackHeader = root
	st.stackCur = mid // a run that ended inside a block: the current frame is not the root
	if verifnd.Bool() {
		st.stackCur = root
	}
	staleFn := func(ctx *Task, e *ast.CallExpr) *errchain.PlError {
		vc15T.strs = append(vc15T.strs, "STALE-FUNCTION-CALLED")
		return nil
	}
	st.funcCall = map[string]FuncCall{"dump": staleFn, "see": staleFn, "stale_fn": staleFn}
	st.funcCheck = map[string]FuncCheck{"dump": FuncCheck(staleFn), "stale_fn": FuncCheck(staleFn)}
	sin := &vInput{}
	sin.put("k1", "STALE", ast.String)
	sin.put("stale_v", "STALE", ast.String)
	if !vc15StaleForCheck || res&4 != 0 {
		st.input = sin
		st.signal = vc15StaleSig{}
	}
	st.loopBreak = verifnd.Bool()
	st.loopContinue = verifnd.Bool()
	st.procExit = verifnd.Bool()
	st.callRef = []*ast.CallExpr{{Name: "use", NamePos: vc15Pos(777)}, {Name: "use", NamePos: vc15Pos(778)}}
	st.name = "STALE.p"
	return st
}

// VerifTaskResetArbitrary: reset lemma for *Task on ARBITRARY residue: a task that a run left with
// residue in every field is released through the real PutContext; the pool then hands it out (RESIDUE selects whether the private map and the
// register slots beyond count carry residue too); GetContext + InitCtx / InitCtxForCheck
// must make the operation behave as on a fresh task.
func VerifTaskResetArbitrary() {
	check := verifnd.Param("CHECK", 0) == 1
	tail := verifnd.Choice(3)
	ref := vc15Op(check, tail)
	ctxPool.Get()
	vc15StaleForCheck = check
	st := vc15StaleTask()
	PutContext(st) // the real release path: where the reset happens (on release or on acquisition) is the implementation's business
	got := vc15Op(check, tail)
	verifnd.Reach("operation-on-stale-task")
	t, _ := ctxPool.Get().(*Task)
	verifnd.Assert(t == st, "stale-task-was-the-one-used")
	vc15Compare("arbitrary", ref, got)
}
