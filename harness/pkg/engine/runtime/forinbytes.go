package runtime

// C01 / C03: for-in over a string of ARBITRARY bytes (valid UTF-8 or not) never crashes and
// visits the string's characters the way Go's range does: one iteration per code point, an
// invalid byte counting as one character that reads as U+FFFD.

import (
	"github.com/GuanceCloud/platypus/internal/verifnd"
	"github.com/GuanceCloud/platypus/pkg/ast"
)

// VerifForInBytes: s = N arbitrary bytes; n = 0; acc = ""; for c in s { n = n + 1; acc = acc + c }.
func VerifForInBytes() {
	vTrace = nil
	in := &vInput{}
	ctx := vNewTask(in)
	s := verifnd.Bytes(verifnd.Int(0, verifnd.Param("N", 3)))
	ctx.stackCur.Set("s", s, ast.String)
	ctx.stackCur.Set("n", int64(0), ast.Int)
	ctx.stackCur.Set("acc", "", ast.String)
	add := func(l, r *ast.Node) *ast.Node {
		return ast.WrapArithmeticExpr(&ast.ArithmeticExpr{Op: ast.ADD, LHS: l, RHS: r})
	}
	set := func(name string, rhs *ast.Node) *ast.Node {
		return ast.WrapAssignmentStmt(&ast.AssignmentExpr{Op: ast.EQ, LHS: []*ast.Node{vIdent(name)}, RHS: []*ast.Node{rhs}})
	}
	loop := &ast.ForInStmt{Varb: vIdent("c"), Iter: vIdent("s"), Body: &ast.BlockStmt{Stmts: ast.Stmts{
		set("n", add(vIdent("n"), vInt(1))),
		set("acc", add(vIdent("acc"), vIdent("c"))),
	}}}
	_, _, err := RunForInStmt(ctx, loop)
	verifnd.Reach("looped")
	verifnd.Assert(err == nil, "for-in-over-any-bytes-no-error")
	if err != nil {
		return
	}
	wantN := int64(0)
	wantAcc := ""
	for _, r := range s {
		wantN++
		wantAcc += string(r)
	}
	nv, _ := ctx.GetKey("n")
	av, _ := ctx.GetKey("acc")
	verifnd.Assert(nv != nil && nv.Value == any(wantN), "one-iteration-per-character")
	verifnd.Assert(av != nil && av.Value == any(wantAcc), "characters-in-order")
}
