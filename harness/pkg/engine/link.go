package engine

import (
	"github.com/GuanceCloud/platypus/internal/verifnd"
	"github.com/GuanceCloud/platypus/pkg/ast"
	"github.com/GuanceCloud/platypus/pkg/engine/runtime"
	"github.com/GuanceCloud/platypus/pkg/errchain"
	"github.com/GuanceCloud/platypus/pkg/token"
)

// ---- C09: use() linking accepts exactly the acyclic, fully resolvable script sets ----
//
// The script set is constructed as the two maps ParseScript hands to the linker (state
// construction instead of parsing): a valid script is a *runtime.Script whose CallRef holds the
// use("name") call expressions its checker recorded, an unparsable / check-failing script is
// the *errchain.PlError stored under its name. The order in which the linker visits the set
// (Go's map iteration order) is part of the input.

type vlCall struct {
	target int // index into the set; len(set) stands for a name that is not in the set
	expr   *ast.CallExpr
}

type vlScript struct {
	name  string
	valid bool
	calls []vlCall

	script *runtime.Script // valid scripts

	stored      *errchain.PlError   // failed scripts: the error object stored for it ...
	storedChain []errchain.Position // ... and what it said when it was stored
	storedErr   string
}

var vlNames = []string{"a.p", "b.p", "c.p", "d.p", "e.p"}

const vlMissing = "missing.p"

// vlCallPos gives call j of script i a position no other call has (in every component).
func vlCallPos(i, j int) token.LnColPos {
	return token.LnColPos{Pos: token.Pos(1000*(i+1) + 100*(j+1)), Ln: 10*(i+1) + j + 1, Col: 3 + 7*i + 2*j}
}

// vlBuildSet chooses the set: S scripts; each valid or failed; a valid script makes
// 0..CALLS use calls (the first WIDE scripts) or 0..min(CALLS,1) (the others), every target any
// member of the set (itself included) or the missing name. DISTINCT=1 restricts the calls of one
// script to pairwise different targets (isolates converging references from repeated ones).
func vlBuildSet() []*vlScript {
	n := verifnd.Param("S", 3)
	wide := verifnd.Param("WIDE", 1)
	maxCalls := verifnd.Param("CALLS", 2)
	distinct := verifnd.Param("DISTINCT", 0) // 1: the calls of one script name pairwise different targets
	set := make([]*vlScript, n)
	for i := range set {
		s := &vlScript{name: vlNames[i]}
		s.valid = verifnd.Choice(2) == 0
		if s.valid {
			mc := maxCalls
			if i >= wide && mc > 1 {
				mc = 1
			}
			nc := verifnd.Int(0, mc)
			s.script = &runtime.Script{Name: s.name}
			for j := 0; j < nc; j++ {
				t := verifnd.Choice(n + 1)
				if distinct != 0 {
					for _, c := range s.calls {
						verifnd.Assume(c.target != t)
					}
				}
				tn := vlMissing
				if t < n {
					tn = vlNames[t]
				}
				e := &ast.CallExpr{
					Name:    "use",
					NamePos: vlCallPos(i, j),
					Param:   []*ast.Node{ast.WrapStringLiteral(&ast.StringLiteral{Val: tn})},
				}
				s.calls = append(s.calls, vlCall{target: t, expr: e})
				s.script.CallRef = append(s.script.CallRef, e)
			}
		} else {
			// an unparsable or check-failing script: one position in the script itself (parse
			// errors, most check errors) or two (a check error found inside the argument list
			// of a call) and a message; all arbitrary - the linker must carry them along
			// whatever they are
			for k := verifnd.Int(1, 2); k > 0; k-- {
				s.storedChain = append(s.storedChain, errchain.Position{File: s.name,
					Ln: int(verifnd.Int64()), Col: int(verifnd.Int64()), Pos: int(verifnd.Int64())})
			}
			s.storedErr = verifnd.Bytes(2)
			s.stored = &errchain.PlError{PosChain: append([]errchain.Position{}, s.storedChain...), Err: s.storedErr}
		}
		set[i] = s
	}
	return set
}

// vlRefAccept is the reference verdict, from the property text: a script is accepted iff it
// is valid, every use target exists and is accepted, and no chain of use calls returns to a
// script already on the chain. There is no "seen" set: repeated and converging references
// are simply followed again.
func vlRefAccept(set []*vlScript, s int, onChain []bool) bool {
	if s >= len(set) || !set[s].valid || onChain[s] {
		return false
	}
	onChain[s] = true
	ok := true
	for _, c := range set[s].calls {
		if !vlRefAccept(set, c.target, onChain) {
			ok = false
		}
	}
	onChain[s] = false
	return ok
}

// vlReaches: t is reachable from s through one or more use calls of valid scripts.
func vlReaches(set []*vlScript, s, t int, depth int) bool {
	if depth > len(set) || s >= len(set) || !set[s].valid {
		return false
	}
	for _, c := range set[s].calls {
		if c.target == t || vlReaches(set, c.target, t, depth+1) {
			return true
		}
	}
	return false
}

func vlSamePos(p errchain.Position, file string, at token.LnColPos) bool {
	return p.File == file && p.Ln == at.Ln && p.Col == at.Col && p.Pos == int(at.Pos)
}

// vlSameChain compares position chains of equal length component-wise (one boolean term: the
// positions of stored errors are symbolic).
func vlSameChain(a, b []errchain.Position) bool {
	if len(a) != len(b) {
		return false
	}
	r := true
	for k := range a {
		r = verifnd.And(r, a[k].File == b[k].File, a[k].Ln == b[k].Ln, a[k].Col == b[k].Col, a[k].Pos == b[k].Pos)
	}
	return r
}

// vlFindCall returns the call of script s whose call site is p (nil: p is no call site of s).
func vlFindCall(s *vlScript, p errchain.Position) *vlCall {
	if p.File != s.name { // decided on the (always concrete) file name first
		return nil
	}
	for k := range s.calls {
		if vlSamePos(p, s.name, s.calls[k].expr.NamePos) {
			return &s.calls[k]
		}
	}
	return nil
}

// vlIsSomeCallSite: p is the call site of a use call of the valid script it names.
func vlIsSomeCallSite(set []*vlScript, p errchain.Position) bool {
	for _, s := range set {
		if s.valid && vlFindCall(s, p) != nil {
			return true
		}
	}
	return false
}

// vlCheckChain examines the error reported for the rejected valid script s.
//
//	isPl  - it is a position chain at all
//	sites - read from the end, the chain is the use call site in s, then the call site in the
//	        script that call names, and so on (callee last-but-one ... caller last), down to a
//	        call whose target is the cause of the rejection: a missing name, a failed script,
//	        or a script already on this chain
//	root  - what precedes those call sites is the root cause: for a failed script exactly the
//	        error stored for it; for a missing name either nothing more (the offending call
//	        site itself heads the chain) or one entry that is a use call site of the script it
//	        names; for a cycle exactly one entry, equal to one of the call sites that follow
//
// Any chain of calls that really leads to a cause is accepted, not only the first one in
// source order.
func vlCheckChain(set []*vlScript, s int, err error) (isPl, sites, root bool) {
	e, ok := err.(*errchain.PlError)
	if !ok || e == nil {
		return false, true, true // nothing further to judge
	}
	chain := e.PosChain
	onChain := make([]bool, len(set))
	cur := s
	for i := len(chain) - 1; i >= 0; i-- {
		onChain[cur] = true
		c := vlFindCall(set[cur], chain[i])
		if c == nil {
			return true, false, true // the root cause is not judged when the call sites are wrong
		}
		t := c.target
		switch {
		case t >= len(set): // missing name: the offending call site itself heads the chain
			switch i {
			case 0:
				return true, true, true
			case 1:
				return true, true, vlIsSomeCallSite(set, chain[0])
			}
			return true, true, false
		case onChain[t]: // the call closes a cycle: the root cause is reported first, at one
			// of the use call sites of the reported chain, and the call sites follow
			if i != 1 {
				return true, true, false
			}
			for k := 1; k < len(chain); k++ {
				if chain[k] == chain[0] {
					return true, true, true
				}
			}
			return true, true, false
		case !set[t].valid:
			st := set[t]
			if i != len(st.storedChain) {
				return true, true, false
			}
			return true, true, verifnd.And(vlSameChain(chain[:i], st.storedChain), e.Err == st.storedErr)
		}
		cur = t
	}
	return true, false, true // ran out of entries before reaching a cause
}

// VerifLink: for every script set within the bounds and every visiting order, the linker's
// verdict equals the reference verdict for every script, accepted use calls are bound to the
// script of that name, the error of a rejected script is root cause + call sites, and the
// errors stored for failed scripts are not altered.
//
// ORDER=1 (default): verifnd.NondetMapOrder - the engine forks over every iteration order of
// the map the linker ranges over (v! orders for v valid scripts).
// ORDER=0: instead the insertion order of the valid scripts is chosen by the harness (every
// permutation) and the engine iterates in insertion order; same orders, other mechanism.
// Natively Go iterates a small map in a random rotation of its insertion order, hence
// order dependent findings need "replay_repeat" to hit the rotation the engine used.
func VerifLink() {
	set := vlBuildSet()
	n := len(set)
	order := verifnd.Param("ORDER", 1)

	// reference verdicts and vacuity witnesses (functions of the configuration only)
	want := make([]bool, n)
	var valid []int
	for i, s := range set {
		if !s.valid {
			verifnd.Reach("script-failed")
			continue
		}
		valid = append(valid, i)
		want[i] = vlRefAccept(set, i, make([]bool, n))
		if want[i] {
			verifnd.Reach("ref-accepts")
			for a := range s.calls {
				for b := a + 1; b < len(s.calls); b++ {
					ta, tb := s.calls[a].target, s.calls[b].target
					if ta == tb {
						verifnd.Reach("accepted-repeated-call")
					} else if vlReaches(set, ta, tb, 0) || vlReaches(set, tb, ta, 0) {
						verifnd.Reach("accepted-diamond")
					}
				}
			}
			if len(s.calls) > 0 && len(set[s.calls[0].target].calls) > 0 {
				verifnd.Reach("accepted-depth-2")
			}
		} else {
			verifnd.Reach("ref-rejects")
			if vlReaches(set, i, i, 0) {
				verifnd.Reach("rejected-on-cycle")
			}
			if vlReaches(set, i, n, 0) {
				verifnd.Reach("rejected-missing-reachable")
			}
			for t := range set {
				if !set[t].valid && vlReaches(set, i, t, 0) {
					verifnd.Reach("rejected-failed-reachable")
				}
			}
		}
	}

	// visiting order
	switch {
	case order == 0:
		for a := 0; a+1 < len(valid); a++ {
			b := verifnd.Int(a, len(valid)-1)
			valid[a], valid[b] = valid[b], valid[a]
		}
	case !verifnd.Symbolic():
		// native replay of an ORDER=1 path: the engine appended its map order decisions (a
		// Fisher-Yates over the keys in insertion order) to the tape; a real Go map cannot be
		// told how to iterate, so the same permutation is applied to the insertion order
		// (Go then iterates in a random rotation of it, the identity being the most likely).
		for a := 0; a+1 < len(valid); a++ {
			b := a + verifnd.Int(0, len(valid)-1-a)
			valid[a], valid[b] = valid[b], valid[a]
		}
	}
	allNg := map[string]*runtime.Script{}
	allErrNg := map[string]error{}
	for _, i := range valid {
		allNg[set[i].name] = set[i].script
	}
	for _, s := range set {
		if !s.valid {
			allErrNg[s.name] = s.stored
		}
	}

	if order != 0 {
		verifnd.NondetMapOrder(true)
	}
	retMap, retErrs := EngineCallRefLinkAndCheck(allNg, allErrNg)
	verifnd.NondetMapOrder(false)
	// the loader's merge (ParseScript): link errors are added to the parse/check errors
	for k, v := range retErrs {
		allErrNg[k] = v
	}

	for i, s := range set {
		got, accepted := retMap[s.name]
		err, rejected := allErrNg[s.name]
		rejected = rejected && err != nil
		switch {
		case !s.valid:
			verifnd.Assert(!accepted && rejected, "failed-script-stays-rejected")
			verifnd.Assert(verifnd.And(vlSameChain(s.stored.PosChain, s.storedChain), s.stored.Err == s.storedErr),
				"stored-error-unchanged")
		case want[i]:
			verifnd.Assert(accepted && got != nil && !rejected, "linkable-script-accepted")
			// every use call of the accepted script carries the accepted script of the name it
			// names (nothing is claimed about the calls of a script the linker rejected)
			bound := true
			if accepted && got != nil {
				if len(got.CallRef) != len(s.calls) {
					bound = false
				}
				for _, ce := range got.CallRef {
					tn := ce.Param[0].StringLiteral().Val
					p, ok := ce.PrivateData.(*runtime.Script)
					if !ok || p == nil || p != retMap[tn] {
						bound = false
					}
				}
			}
			verifnd.Assert(bound, "accepted-use-call-bound")
		default:
			verifnd.Assert(rejected && !accepted, "unlinkable-script-rejected")
			isPl, sites, root := true, true, true
			if rejected { // (the error of a script that was not rejected is not judged)
				isPl, sites, root = vlCheckChain(set, i, err)
			}
			verifnd.Assert(isPl, "rejection-is-position-chain")
			verifnd.Assert(sites, "chain-ends-with-use-call-sites")
			verifnd.Assert(root, "chain-starts-with-root-cause")
		}
	}
}
