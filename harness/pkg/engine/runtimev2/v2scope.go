package runtimev2

// C18: lifetime of block-local names in the v2 interpreter. A name first assigned inside a block
// belongs to that block: it is gone after the block, and for a loop body it is gone after each
// iteration (the condition and the step clause are outside the body). Reading a name that is not
// defined is an error in v2 (documented difference from v1).

import (
	"github.com/GuanceCloud/platypus/internal/verifnd"
	"github.com/GuanceCloud/platypus/pkg/ast"
	"github.com/GuanceCloud/platypus/pkg/errchain"
)

// VerifV2ScopeLife: programs whose only defect would be a body-local name surviving.
func VerifV2ScopeLife() {
	wReset()
	lt := func(l, r *ast.Node) *ast.Node {
		return ast.WrapConditionExpr(&ast.ConditionalExpr{Op: ast.LT, LHS: l, RHS: r})
	}
	gt := func(l, r *ast.Node) *ast.Node {
		return ast.WrapConditionExpr(&ast.ConditionalExpr{Op: ast.GT, LHS: l, RHS: r})
	}
	add := func(l, r *ast.Node) *ast.Node {
		return ast.WrapArithmeticExpr(&ast.ArithmeticExpr{Op: ast.ADD, LHS: l, RHS: r})
	}
	ifs := func(c *ast.Node, body ...*ast.Node) *ast.Node {
		return ast.WrapIfelseStmt(&ast.IfelseStmt{IfList: ast.IfList{{Condition: c, Block: wBlock(body...)}}})
	}
	k := verifnd.Int64() // number of iterations
	verifnd.Assume(verifnd.And(k >= 0, k <= 3))
	shape := verifnd.Choice(5)
	var prog ast.Stmts
	var want []int64 // observations before the end or the error
	wantErr := false
	switch shape {
	case 0: // for: body-local read in a later iteration before it is assigned again
		prog = ast.Stmts{wSet("k", wInt(k)),
			ast.WrapForStmt(&ast.ForStmt{Init: wSet("i", wInt(0)), Cond: lt(wIdent("i"), wIdent("k")), Loop: wSet("i", add(wIdent("i"), wInt(1))),
				Body: wBlock(ifs(gt(wIdent("i"), wInt(0)), wP(wIdent("t"))), wSet("t", wIdent("i")))}),
			wP(wInt(77))}
		if k >= 2 {
			wantErr = true
		} else {
			want = []int64{77}
		}
	case 1: // for-in over a list: the same
		l := make([]any, k)
		for i := range l {
			l[i] = int64(i)
		}
		prog = ast.Stmts{wSet("l", wLit(l)),
			ast.WrapForInStmt(&ast.ForInStmt{Varb: wIdent("x"), Iter: wIdent("l"),
				Body: wBlock(ifs(gt(wIdent("x"), wInt(0)), wP(wIdent("t"))), wSet("t", wIdent("x")))}),
			wP(wInt(77))}
		if k >= 2 {
			wantErr = true
		} else {
			want = []int64{77}
		}
	case 2: // a body-local is not visible to the step clause
		prog = ast.Stmts{wSet("k", wInt(k)),
			ast.WrapForStmt(&ast.ForStmt{Init: wSet("i", wInt(0)), Cond: lt(wIdent("i"), wIdent("k")), Loop: wSet("i", add(wIdent("i"), wIdent("inc"))),
				Body: wBlock(wSet("inc", wInt(1)), wP(wIdent("i")))}),
			wP(wInt(77))}
		if k >= 1 {
			want = []int64{0}
			wantErr = true
		} else {
			want = []int64{77}
		}
	case 3: // a name first assigned in an if block is gone after it
		prog = ast.Stmts{wSet("k", wInt(k)),
			ifs(gt(wIdent("k"), wInt(1)), wSet("y", wInt(5)), wP(wIdent("y"))),
			wP(wIdent("y"))}
		if k > 1 {
			want = []int64{5}
		}
		wantErr = true
	default: // control: assigned before every read, outer names keep their value
		prog = ast.Stmts{wSet("k", wInt(k)), wSet("s", wInt(0)),
			ast.WrapForStmt(&ast.ForStmt{Init: wSet("i", wInt(0)), Cond: lt(wIdent("i"), wIdent("k")), Loop: wSet("i", add(wIdent("i"), wInt(1))),
				Body: wBlock(wSet("t", wIdent("i")), wSet("s", add(wIdent("s"), wIdent("t"))), wP(wIdent("t")))}),
			wP(wIdent("s"))}
		sum := int64(0)
		for i := int64(0); i < k; i++ {
			want = append(want, i)
			sum += i
		}
		want = append(want, sum)
	}
	fns := map[string]*Fn{}
	one := []*Param{{Name: "v"}}
	fns["p"] = &Fn{Call: func(c *Task, e *ast.CallExpr) *errchain.PlError {
		if err := CheckPassParam(c, e, one); err != nil {
			return err
		}
		v, err := GetParam(c, e, one, 0)
		if err != nil {
			return err
		}
		wSeen = append(wSeen, v)
		return nil
	}}
	s2 := &Script{Name: "verif.p", Stmts: prog, Fn: fns}
	err := s2.Run(nil)
	verifnd.Reach("ran")
	if wantErr {
		verifnd.Reach("undefined-name")
	}
	verifnd.Assert((err != nil) == wantErr, "undefined-body-local-is-an-error")
	verifnd.Assert(len(wSeen) == len(want), "observations-before-the-error")
	if len(wSeen) == len(want) {
		for i := range want {
			verifnd.Assert(wSeen[i] == any(want[i]), "observed-values")
		}
	}
}
