package runtimev2

import (
	"github.com/GuanceCloud/platypus/internal/verifnd"
	"github.com/GuanceCloud/platypus/pkg/ast"
)

// ---- C19: v2 call arguments bind to the declared parameters or the call is rejected ----

const (
	pkRequired = iota
	pkOptional
	pkVariadic
)

// vName returns a symbolic name of 0..2 bytes over a small alphabet that contains letters,
// underscore, a digit, an invalid character and the two bytes of a non-ASCII letter, so that
// duplicates, empty and invalid identifiers arise from the solver.
func vName(minLen int) string {
	n := verifnd.Int(minLen, verifnd.Param("NAMELEN", 2))
	b := make([]byte, n)
	for i := range b {
		c := verifnd.Byte()
		verifnd.Assume(verifnd.Or(c == 'a', c == 'b', c == '_', c == '1', c == '-', c == 0xC3, c == 0xA9))
		b[i] = c
	}
	return string(b)
}

// vValidIdent is the reference for parameter names over the alphabet of vName:
// first character a letter or underscore, then letters, digits, underscores ("é" = C3 A9 is a letter).
func vValidIdent(s string) bool {
	if len(s) == 0 {
		return false
	}
	i := 0
	first := true
	for i < len(s) {
		c := s[i]
		switch {
		case c == 'a' || c == 'b' || c == '_':
			i++
		case c == '1':
			if first {
				return false
			}
			i++
		case c == 0xC3 && i+1 < len(s) && s[i+1] == 0xA9:
			i += 2
		default:
			return false
		}
		first = false
	}
	return true
}

func vIntLit(v int64) *ast.Node { return ast.WrapIntegerLiteral(&ast.IntegerLiteral{Val: v}) }

// VerifParamDef: malformed parameter lists are rejected when validated, well-formed ones
// accepted. MODE=0: symbolic names (duplicates, empty, invalid identifiers), all parameters
// required. MODE=1: fixed distinct valid names, every kind sequence (required, optional,
// variadic, variadic-with-default). MODE=2: both symbolic.
func VerifParamDef() {
	mode := verifnd.Param("MODE", 0)
	np := verifnd.Int(0, verifnd.Param("P", 2))
	fixed := []string{"a", "b", "ba", "_1", "ab"}
	params := make([]*Param, np)
	kinds := make([]int, np)
	for i := range params {
		if mode != 0 {
			kinds[i] = verifnd.Int(pkRequired, pkVariadic+1)
		}
		p := &Param{}
		if mode == 1 {
			p.Name = fixed[i]
		} else {
			p.Name = vName(0)
		}
		switch kinds[i] {
		case pkOptional:
			d := int64(900 + i)
			p.Val = func() any { return d }
		case pkVariadic:
			p.Variable = true
		case pkVariadic + 1: // a variadic parameter that also declares a default
			p.Variable = true
			p.Val = func() any { return nil }
		}
		params[i] = p
	}
	valid := true
	seenOptional := false
	for i := range params {
		if !vValidIdent(params[i].Name) {
			valid = false
		}
		for k := 0; k < len(params[i].Name); k++ {
			// the language reference defines identifiers over ASCII only; whether a name with
			// non-ASCII letters is a valid parameter name is left open: nothing is asserted
			verifnd.Assume(params[i].Name[k] < 0x80)
		}
		for j := 0; j < i; j++ {
			if params[j].Name == params[i].Name {
				valid = false
			}
		}
		isOpt := kinds[i] == pkOptional || kinds[i] == pkVariadic+1
		isVar := kinds[i] >= pkVariadic
		if !isOpt && seenOptional {
			valid = false // required (or plain variadic) after optional
		}
		if isVar {
			if i != np-1 {
				valid = false // misplaced (also covers two variadics)
			}
			if seenOptional || isOpt {
				valid = false // mixed with optional
			}
		}
		if isOpt {
			seenOptional = true
		}
	}
	err := CheckFnParamDef(params)
	if valid {
		verifnd.Reach("valid-def")
		verifnd.Assert(err == nil, "valid-definition-accepted")
	} else {
		verifnd.Reach("invalid-def")
		verifnd.Assert(err != nil, "invalid-definition-rejected")
	}
}

// VerifBind: for every valid parameter list and every call shape, binding is accepted
// exactly when the reference binder (A11) can bind it, and then every getter returns the
// argument bound to it / the default / the remaining positional arguments in order.
func VerifBind() {
	np := verifnd.Int(0, verifnd.Param("P", 3))
	names := []string{"a", "b", "ba", "_1"}
	params := make([]*Param, np)
	kinds := make([]int, np)
	seenOpt := false
	for i := range params {
		kinds[i] = verifnd.Int(pkRequired, pkVariadic)
		// keep the definition valid (VerifParamDef covers the rest)
		if kinds[i] == pkVariadic {
			verifnd.Assume(i == np-1 && !seenOpt)
		}
		if kinds[i] == pkRequired {
			verifnd.Assume(!seenOpt)
		}
		p := &Param{Name: names[i]}
		if kinds[i] == pkOptional {
			seenOpt = true
			d := int64(900 + i)
			p.Val = func() any { return d }
		}
		p.Variable = kinds[i] == pkVariadic
		params[i] = p
	}
	verifnd.Assert(CheckFnParamDef(params) == nil, "generated-definition-is-valid")
	hasVar := np > 0 && kinds[np-1] == pkVariadic

	na := verifnd.Int(0, verifnd.Param("A", 4))
	call := &ast.CallExpr{Name: "f"}
	argNamed := make([]bool, na)
	argName := make([]string, na)
	argVal := make([]any, na)
	callClass := 0
	if verifnd.Param("VALS", 1) == 1 && na > 0 {
		callClass = verifnd.Choice(3)
	}
	for i := 0; i < na; i++ {
		// the value handed over: a distinct integer, or one of the values an implementation
		// could confuse with "no argument": nil, 0, false, "". VALS=1: one class per call
		// (x3 paths); VALS=2: chosen per argument (x5 per argument).
		lit := vIntLit(int64(100 + i))
		argVal[i] = int64(100 + i)
		vk := 0
		switch verifnd.Param("VALS", 1) {
		case 1:
			vk = []int{0, 1, 2 + i%3}[callClass]
		case 2:
			vk = verifnd.Choice(5)
		}
		switch vk {
		case 1:
			lit, argVal[i] = ast.WrapNilLiteral(&ast.NilLiteral{}), nil
		case 2:
			lit, argVal[i] = vIntLit(0), int64(0)
		case 3:
			lit, argVal[i] = ast.WrapBoolLiteral(&ast.BoolLiteral{Val: false}), false
		case 4:
			lit, argVal[i] = ast.WrapStringLiteral(&ast.StringLiteral{Val: ""}), ""
		}
		argNamed[i] = verifnd.Int(0, 1) == 1
		if argNamed[i] {
			// the name: one of the declared names or an unknown one
			argName[i] = []string{"a", "b", "ba", "_1", "zz"}[verifnd.Choice(5)]
			call.Param = append(call.Param, ast.WrapAssignmentStmt(&ast.AssignmentExpr{
				Op: ast.EQ, LHS: []*ast.Node{ast.WrapIdentifier(&ast.Identifier{Name: argName[i]})}, RHS: []*ast.Node{lit}}))
		} else {
			call.Param = append(call.Param, lit)
		}
	}

	// reference binder
	ok := true
	bound := make([]int, np) // 0 = unbound, else 1 + index of the argument
	var rest []any
	sawNamed := false
	npos := 0
	for i := 0; i < na; i++ {
		if argNamed[i] {
			sawNamed = true
			if hasVar {
				ok = false
			}
			idx := -1
			for j := range params {
				if params[j].Name == argName[i] {
					idx = j
				}
			}
			if idx < 0 || (idx >= 0 && bound[idx] != 0) {
				ok = false
			} else {
				bound[idx] = i + 1
			}
		} else {
			if sawNamed {
				ok = false
			}
			switch {
			case hasVar && npos >= np-1:
				rest = append(rest, argVal[i])
			case npos < np:
				if bound[npos] != 0 {
					ok = false
				}
				bound[npos] = i + 1
			default:
				ok = false // more arguments than parameters
			}
			npos++
		}
	}
	for j := range params {
		if kinds[j] == pkRequired && bound[j] == 0 {
			ok = false
		}
	}

	ctx := NewTask("verif.p", nil)
	err := CheckPassParam(ctx, call, params)
	if !ok {
		verifnd.Reach("unbindable")
		verifnd.Assert(err != nil, "unbindable-call-rejected")
		return
	}
	verifnd.Reach("bindable")
	verifnd.Assert(err == nil, "bindable-call-accepted")
	if err != nil {
		return
	}
	for j := range params {
		v, gerr := GetParam(ctx, call, params, j)
		verifnd.Assert(gerr == nil, "getter-no-error")
		if gerr != nil {
			continue
		}
		switch kinds[j] {
		case pkVariadic:
			l, isList := v.([]any)
			verifnd.Assert(isList || v == nil, "variadic-is-list")
			verifnd.Assert(len(l) == len(rest), "variadic-count")
			if len(l) == len(rest) {
				for k := range rest {
					verifnd.Assert(l[k] == rest[k], "variadic-order")
				}
			}
		default:
			if bound[j] != 0 {
				verifnd.Assert(v == argVal[bound[j]-1], "parameter-gets-its-argument")
			} else {
				verifnd.Assert(v == any(int64(900+j)), "omitted-optional-gets-default")
			}
		}
	}
}

// VerifDefaultPerCall: "omitted optional parameters take their declared default" on EVERY call:
// a default that is a container (map / list) is what the declaration says each time, whatever an
// earlier call did with the value it received; the same call expression evaluated twice and two
// call expressions of the same function are covered, with one or two optional parameters.
func VerifDefaultPerCall() {
	mk := verifnd.Choice(3)
	decl := func() any {
		switch mk {
		case 0:
			return map[string]any{}
		case 1:
			return []any{int64(1)}
		}
		return map[string]any{"inner": []any{}}
	}
	params := []*Param{{Name: "a", Val: func() any { return int64(7) }}, {Name: "m", Val: decl}}
	c1 := &ast.CallExpr{Name: "f"}
	c2 := &ast.CallExpr{Name: "f"}
	if verifnd.Bool() {
		c1.Param = []*ast.Node{ast.WrapIntegerLiteral(&ast.IntegerLiteral{Val: 3})}
	}
	ctx := NewTask("verif.p", nil)
	verifnd.Assert(CheckPassParam(ctx, c1, params) == nil && CheckPassParam(ctx, c2, params) == nil, "bindable-call-accepted")
	pristine := func(v any, label string) {
		switch x := v.(type) {
		case map[string]any:
			if mk == 0 {
				verifnd.Assert(len(x) == 0, label)
			} else {
				in, _ := x["inner"].([]any)
				verifnd.Assert(mk == 2 && len(x) == 1 && len(in) == 0, label)
			}
		case []any:
			verifnd.Assert(mk == 1 && len(x) == 1 && x[0] == any(int64(1)), label)
		default:
			verifnd.Assert(false, label)
		}
	}
	spoil := func(v any) {
		switch x := v.(type) {
		case map[string]any:
			x["k"] = int64(1)
			if in, ok := x["inner"].([]any); ok {
				x["inner"] = append(in, "x")
			}
		case []any:
			x[0] = "spoilt"
		}
	}
	calls := []*ast.CallExpr{c1, c2, c1}
	for n, c := range calls {
		v, err := GetParam(ctx, c, params, 1)
		verifnd.Assert(err == nil, "getter-no-error")
		if err != nil {
			return
		}
		_ = n
		pristine(v, "omitted-optional-parameter-gets-the-declared-default-on-every-call")
		spoil(v)
	}
	verifnd.Reach("three-calls")
}
