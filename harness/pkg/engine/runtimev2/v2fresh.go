package runtimev2

// C18(b): register freshness. An earlier statement leaves a sentinel value in the result
// register; then a construct that yields no value is put into one consumer position.
// Property: "A construct that yields no value - a call to a function that returns nothing,
// an attribute expression - is never silently replaced by the value of an earlier
// expression when used as a condition, operand, argument or assignment source; it is an
// error." The same positions are also exercised with an undefined name ("an undefined
// name is an error").

import (
	"github.com/GuanceCloud/platypus/internal/verifnd"
	"github.com/GuanceCloud/platypus/pkg/ast"
	"github.com/GuanceCloud/platypus/pkg/errchain"
)

// kinds of value-less construct
const (
	wkVoid      = iota // void(): registered function, returns nothing
	wkVoidParam        // voidp(31337): reads its argument through GetParam, returns nothing
	wkAttr             // o.f: attribute expression
	wkUnknownFn        // nosuch(): a call the function table cannot resolve; yields nothing
	wkUndefName        // undefined identifier (documented v2 difference: an error)
	wkVoidVariadic     // voidv(31337, 7): reads its variadic arguments through GetParam, returns nothing
	wkCount
)

var wKindNames = []string{"void-call", "void-call-with-argument", "attribute-expression", "unresolved-call", "undefined-name", "void-call-with-variadic-arguments"}

// sentinel classes
const (
	wsInt = iota // symbolic, -2..3: truthy and falsy, valid and invalid index of a 3-list
	wsBool
	wsString
	wsList
	wsMap
	wsNil
	wsCount
)

var wVoidCalls int

func wHit(ctx *Task, name string, id int) *ast.Node {
	ctx.funcs[name] = &Fn{Call: func(c *Task, e *ast.CallExpr) *errchain.PlError {
		wTrace = append(wTrace, id)
		return nil
	}}
	return wCall(name)
}

// wFreshFuncs installs void, voidp, see(p), seev(p...) into the function table.
func wFreshFuncs(ctx *Task) {
	ctx.funcs["void"] = &Fn{Call: func(c *Task, e *ast.CallExpr) *errchain.PlError {
		wVoidCalls++
		return nil
	}}
	one := []*Param{{Name: "p"}}
	ctx.funcs["voidp"] = &Fn{Call: func(c *Task, e *ast.CallExpr) *errchain.PlError {
		wVoidCalls++
		if err := CheckPassParam(c, e, one); err != nil {
			return err
		}
		_, err := GetParam(c, e, one, 0)
		return err
	}}
	ctx.funcs["see"] = &Fn{Call: func(c *Task, e *ast.CallExpr) *errchain.PlError {
		if err := CheckPassParam(c, e, one); err != nil {
			return err
		}
		v, err := GetParam(c, e, one, 0)
		if err != nil {
			return err
		}
		wSeen = append(wSeen, v)
		return nil
	}}
	many := []*Param{{Name: "p", Variable: true}}
	ctx.funcs["voidv"] = &Fn{Call: func(c *Task, e *ast.CallExpr) *errchain.PlError {
		wVoidCalls++
		if err := CheckPassParam(c, e, many); err != nil {
			return err
		}
		_, err := GetParam(c, e, many, 0)
		return err
	}}
	ctx.funcs["seev"] = &Fn{Call: func(c *Task, e *ast.CallExpr) *errchain.PlError {
		if err := CheckPassParam(c, e, many); err != nil {
			return err
		}
		v, err := GetParam(c, e, many, 0)
		if err != nil {
			return err
		}
		wSeen = append(wSeen, v)
		return nil
	}}
}

func wValueless(kind int) *ast.Node {
	switch kind {
	case wkVoid:
		return wCall("void")
	case wkVoidParam:
		return wCall("voidp", wInt(31337))
	case wkAttr:
		return ast.WrapAttrExpr(&ast.AttrExpr{Obj: wIdent("o"), Attr: wIdent("f")})
	case wkUnknownFn:
		return wCall("nosuch")
	case wkVoidVariadic:
		return wCall("voidv", wInt(31337), wInt(7))
	}
	return wIdent("undefined_name")
}

func wSentinel(class int) V {
	switch class {
	case wsInt:
		x := verifnd.Int64()
		verifnd.Assume(verifnd.And(x >= -2, x <= 3))
		return V{x, ast.Int}
	case wsBool:
		return V{verifnd.Bool(), ast.Bool}
	case wsString:
		return V{"k0", ast.String}
	case wsList:
		return V{[]any{int64(7), int64(8)}, ast.List}
	case wsMap:
		return V{map[string]any{"k0": int64(5)}, ast.Map}
	}
	return V{nil, ast.Nil}
}

var wPosNames = []string{
	"if-condition", "elif-condition", "for-condition", "for-in-iterable",
	"unary-minus-operand", "unary-not-operand",
	"arith-left", "arith-right", "equality-left", "equality-right", "order-left", "order-right",
	"logic-left", "logic-right", "in-left", "in-right",
	"list-element", "map-key", "map-value",
	"index-first", "index-second", "index-of-map",
	"store-index-first", "store-index-second", "store-index-of-map",
	"slice-object", "slice-start", "slice-end", "slice-step",
	"call-argument", "call-named-argument", "call-variadic-argument",
	"assign-source", "assign-paren-source", "multi-assign-first-source", "multi-assign-second-source",
	"compound-assign-source", "compound-assign-target",
}

func wIndex(obj string, idx ...*ast.Node) *ast.Node {
	return ast.WrapIndexExpr(&ast.IndexExpr{Obj: &ast.Identifier{Name: obj}, Index: idx})
}

// wConsumer builds the statement that has X in consumer position pos.
func wConsumer(ctx *Task, pos int, X *ast.Node) *ast.Node {
	one := wInt(1)
	r := []*ast.Node{wIdent("r")}
	set := func(e *ast.Node) *ast.Node { return wAssign(ast.EQ, r, []*ast.Node{e}) }
	arith := func(l, rr *ast.Node) *ast.Node {
		return set(ast.WrapArithmeticExpr(&ast.ArithmeticExpr{Op: ast.ADD, LHS: l, RHS: rr}))
	}
	cond := func(op ast.Op, l, rr *ast.Node) *ast.Node {
		return set(ast.WrapConditionExpr(&ast.ConditionalExpr{Op: op, LHS: l, RHS: rr}))
	}
	slice := func(e *ast.SliceExpr) *ast.Node { return set(ast.WrapSliceExpr(e)) }
	switch wPosNames[pos] {
	case "if-condition":
		return ast.WrapIfelseStmt(&ast.IfelseStmt{
			IfList: ast.IfList{{Condition: X, Block: wBlock(wHit(ctx, "hit1", 1))}},
			Else:   wBlock(wHit(ctx, "hit2", 2))})
	case "elif-condition":
		return ast.WrapIfelseStmt(&ast.IfelseStmt{
			IfList: ast.IfList{
				{Condition: wBool(false), Block: wBlock(wHit(ctx, "hit1", 1))},
				{Condition: X, Block: wBlock(wHit(ctx, "hit2", 2))}},
			Else: wBlock(wHit(ctx, "hit3", 3))})
	case "for-condition":
		return ast.WrapForStmt(&ast.ForStmt{Cond: X,
			Body: wBlock(wHit(ctx, "hit1", 1), ast.WrapBreakStmt(&ast.BreakStmt{}))})
	case "for-in-iterable":
		return ast.WrapForInStmt(&ast.ForInStmt{Varb: wIdent("v"), Iter: X,
			Body: wBlock(wCall("see", wIdent("v")))})
	case "unary-minus-operand":
		return set(ast.WrapUnaryExpr(&ast.UnaryExpr{Op: ast.SUB, RHS: X}))
	case "unary-not-operand":
		return set(ast.WrapUnaryExpr(&ast.UnaryExpr{Op: ast.NOT, RHS: X}))
	case "arith-left":
		return arith(X, one)
	case "arith-right":
		return arith(one, X)
	case "equality-left":
		return cond(ast.EQEQ, X, one)
	case "equality-right":
		return cond(ast.EQEQ, one, X)
	case "order-left":
		return cond(ast.LT, X, one)
	case "order-right":
		return cond(ast.LT, one, X)
	case "logic-left":
		return cond(ast.AND, X, wBool(true))
	case "logic-right":
		return cond(ast.AND, wBool(true), X)
	case "in-left":
		return set(ast.WrapInExpr(&ast.InExpr{Op: "in", LHS: X, RHS: wIdent("a")}))
	case "in-right":
		return set(ast.WrapInExpr(&ast.InExpr{Op: "in", LHS: wStr("k0"), RHS: X}))
	case "list-element":
		return set(ast.WrapListInitExpr(&ast.ListLiteral{List: []*ast.Node{one, X}}))
	case "map-key":
		return set(ast.WrapMapLiteral(&ast.MapLiteral{KeyValeList: [][2]*ast.Node{{X, one}}}))
	case "map-value":
		return set(ast.WrapMapLiteral(&ast.MapLiteral{KeyValeList: [][2]*ast.Node{{wStr("k"), X}}}))
	case "index-first":
		return set(wIndex("a", X))
	case "index-second":
		return set(wIndex("aa", wInt(0), X))
	case "index-of-map":
		return set(wIndex("m", X))
	case "store-index-first":
		return wAssign(ast.EQ, []*ast.Node{wIndex("a", X)}, []*ast.Node{wInt(99)})
	case "store-index-second":
		return wAssign(ast.EQ, []*ast.Node{wIndex("aa", wInt(0), X)}, []*ast.Node{wInt(99)})
	case "store-index-of-map":
		return wAssign(ast.EQ, []*ast.Node{wIndex("m", X)}, []*ast.Node{wInt(99)})
	case "slice-object":
		return slice(&ast.SliceExpr{Obj: X, Start: wInt(0), End: one})
	case "slice-start":
		return slice(&ast.SliceExpr{Obj: wIdent("a"), Start: X})
	case "slice-end":
		return slice(&ast.SliceExpr{Obj: wIdent("a"), End: X})
	case "slice-step":
		return slice(&ast.SliceExpr{Obj: wIdent("a"), Step: X, Colon2: true})
	case "call-argument":
		return wCall("see", X)
	case "call-named-argument":
		return wCall("see", wAssign(ast.EQ, []*ast.Node{wIdent("p")}, []*ast.Node{X}))
	case "call-variadic-argument":
		return wCall("seev", one, X)
	case "assign-source":
		return set(X)
	case "assign-paren-source":
		return set(ast.WrapParenExpr(&ast.ParenExpr{Param: X}))
	case "multi-assign-first-source":
		return wAssign(ast.EQ, []*ast.Node{wIdent("r"), wIdent("q")}, []*ast.Node{X, one})
	case "multi-assign-second-source":
		return wAssign(ast.EQ, []*ast.Node{wIdent("r"), wIdent("q")}, []*ast.Node{one, X})
	case "compound-assign-source":
		return wAssign(ast.ADDEQ, []*ast.Node{wIdent("n")}, []*ast.Node{X})
	case "compound-assign-target":
		return wAssign(ast.ADDEQ, []*ast.Node{X}, []*ast.Node{one})
	}
	panic("wConsumer: position")
}

// VerifV2Fresh: every consumer position x every value-less construct x every class of
// stale value. MODE=1 restricts the constructs to the undefined name only, MODE=0 to the
// value-less ones, default both.
func VerifV2Fresh() {
	wReset()
	wVoidCalls = 0
	kind := verifnd.Choice(wkCount)
	pos := verifnd.Choice(len(wPosNames))
	sc := verifnd.Choice(wsCount)
	switch verifnd.Param("MODE", 2) {
	case 0:
		verifnd.Assume(kind != wkUndefName)
	case 1:
		verifnd.Assume(kind == wkUndefName)
	}
	ctx := wNewTask()
	wFreshFuncs(ctx)
	a := []any{int64(10), int64(11), int64(12)}
	aa0 := []any{int64(20), int64(21), int64(22)}
	aa := []any{aa0, []any{int64(23)}}
	m1 := map[string]any{"k0": int64(31)}
	m := map[string]any{"k0": int64(30), "k1": m1}
	ctx.SetVarb("a", V{a, ast.List})
	ctx.SetVarb("aa", V{aa, ast.List})
	ctx.SetVarb("m", V{m, ast.Map})
	ctx.SetVarb("n", V{int64(1), ast.Int})
	ctx.SetVarb("o", V{map[string]any{"f": int64(40)}, ast.Map})
	ctx.SetVarb("s", wSentinel(sc))

	stmts := ast.Stmts{
		wSet("t", wIdent("s")), // leaves the sentinel in the result register
		wConsumer(ctx, pos, wValueless(kind)),
	}
	err := RunStmts(ctx, stmts)

	name := wPosNames[pos]
	verifnd.Reach(wKindNames[kind])
	verifnd.Reach(name)
	if kind == wkUndefName {
		verifnd.Assert(err != nil, "undefined-name-is-error:"+name)
	} else {
		verifnd.Assert(err != nil, "valueless-is-error:"+name)
	}
	// nothing downstream of the consumer may have happened: no branch body / loop body /
	// observing function ran, no variable was defined, no collection was written.
	_, e1 := ctx.GetKey("r")
	_, e2 := ctx.GetKey("q")
	nv, e3 := ctx.GetKey("n")
	pristine := len(a) == 3 && a[0] == any(int64(10)) && a[1] == any(int64(11)) && a[2] == any(int64(12)) &&
		len(aa0) == 3 && aa0[0] == any(int64(20)) && aa0[1] == any(int64(21)) && aa0[2] == any(int64(22)) &&
		len(m) == 2 && m["k0"] == any(int64(30))
	noEffect := len(wTrace) == 0 && len(wSeen) == 0 && // no branch / loop body / observer ran
		e1 != nil && e2 != nil && // no variable was defined
		e3 == nil && nv.Value == any(int64(1)) && // compound target untouched
		pristine // no collection written
	verifnd.Assert(noEffect, "stale-value-has-no-effect:"+name)
}
