package runtimev2

// Shared helpers of the C18 harnesses (v2 interpreter). Everything is prefixed with `w`
// to stay clear of the names of binding.go.

import (
	"github.com/GuanceCloud/platypus/internal/verifnd"
	"github.com/GuanceCloud/platypus/pkg/ast"
	"github.com/GuanceCloud/platypus/pkg/errchain"
)

func wNewTask() *Task { return NewTask("verif.p", map[string]*Fn{}) }

func wInt(v int64) *ast.Node       { return ast.WrapIntegerLiteral(&ast.IntegerLiteral{Val: v}) }
func wFloat(v float64) *ast.Node   { return ast.WrapFloatLiteral(&ast.FloatLiteral{Val: v}) }
func wBool(v bool) *ast.Node       { return ast.WrapBoolLiteral(&ast.BoolLiteral{Val: v}) }
func wStr(v string) *ast.Node      { return ast.WrapStringLiteral(&ast.StringLiteral{Val: v}) }
func wNil() *ast.Node              { return ast.WrapNilLiteral(&ast.NilLiteral{}) }
func wIdent(name string) *ast.Node { return ast.WrapIdentifier(&ast.Identifier{Name: name}) }
func wCall(name string, args ...*ast.Node) *ast.Node {
	return ast.WrapCallExpr(&ast.CallExpr{Name: name, Param: args})
}
func wAssign(op ast.Op, lhs []*ast.Node, rhs []*ast.Node) *ast.Node {
	return ast.WrapAssignmentStmt(&ast.AssignmentExpr{Op: op, LHS: lhs, RHS: rhs})
}
func wSet(name string, rhs *ast.Node) *ast.Node {
	return wAssign(ast.EQ, []*ast.Node{wIdent(name)}, []*ast.Node{rhs})
}
func wBlock(stmts ...*ast.Node) *ast.BlockStmt { return &ast.BlockStmt{Stmts: stmts} }

// Value classes of the interpreter's value/type invariant Inv(v,t).
const (
	wcNil = iota
	wcBool
	wcInt
	wcFloat
	wcString
	wcList
	wcMap
	wcCount
)

// wScalar returns a symbolic value of the given scalar class (strings of 0..L bytes).
func wScalar(class, L int) (any, ast.DType) {
	switch class {
	case wcNil:
		return nil, ast.Nil
	case wcBool:
		return verifnd.Bool(), ast.Bool
	case wcInt:
		return verifnd.Int64(), ast.Int
	case wcFloat:
		return verifnd.Float64(), ast.Float
	case wcString:
		return verifnd.Bytes(verifnd.Int(0, L)), ast.String
	}
	panic("wScalar: class")
}

// wValue returns a symbolic Inv-value of the class; collections hold 0..N elements
// (depth 1). With harness parameter EC=1 the elements are scalars of symbolic class,
// otherwise arbitrary integers.
func wValue(class, L, N int) (any, ast.DType) {
	elem := func() any {
		if verifnd.Param("EC", 0) == 1 {
			v, _ := wScalar(verifnd.Int(wcNil, wcString), L)
			return v
		}
		return verifnd.Int64()
	}
	switch class {
	case wcList:
		n := verifnd.Int(0, N)
		l := make([]any, n)
		for i := range l {
			l[i] = elem()
		}
		return l, ast.List
	case wcMap:
		n := verifnd.Int(0, N)
		m := map[string]any{}
		names := []string{"k0", "k1", "k2", "k3", "k4"}
		for i := 0; i < n; i++ {
			m[names[i]] = elem()
		}
		return m, ast.Map
	}
	return wScalar(class, L)
}

// wInv checks the value/type invariant on an evaluator result.
func wInv(v any, t ast.DType) bool {
	switch t {
	case ast.Bool:
		_, ok := v.(bool)
		return ok
	case ast.Int:
		_, ok := v.(int64)
		return ok
	case ast.Float:
		_, ok := v.(float64)
		return ok
	case ast.String:
		_, ok := v.(string)
		return ok
	case ast.List:
		_, ok := v.([]any)
		return ok
	case ast.Map:
		_, ok := v.(map[string]any)
		return ok
	case ast.Nil:
		return v == nil
	}
	return true
}

// ---- probe functions supplied through the v2 function table ----

// wTrace records the ids of the probe calls in evaluation order; wSeen the values
// received by the observing probes.
var wTrace []int
var wSeen []any

func wReset() { wTrace, wSeen = nil, nil }

// wProbe registers function `name` that records id and returns the single value (v,t).
func wProbe(ctx *Task, name string, id int, v any, t ast.DType) *ast.Node {
	ctx.funcs[name] = &Fn{Call: func(c *Task, e *ast.CallExpr) *errchain.PlError {
		wTrace = append(wTrace, id)
		c.Regs.ReturnAppend(V{v, t})
		return nil
	}}
	return wCall(name)
}

// wProbeMulti registers function `name` that records id and returns all of vals.
func wProbeMulti(ctx *Task, name string, id int, vals []V) *ast.Node {
	ctx.funcs[name] = &Fn{Call: func(c *Task, e *ast.CallExpr) *errchain.PlError {
		wTrace = append(wTrace, id)
		c.Regs.ReturnAppend(vals...)
		return nil
	}}
	return wCall(name)
}

// wLeaf: kind 0 literal (where the language has one, else a variable), 1 variable,
// 2 probe call. (v2 has no input point: an unknown name is an error.)
func wLeaf(ctx *Task, name string, id int, v any, t ast.DType, kind int) *ast.Node {
	if kind == 2 {
		return wProbe(ctx, "probe_"+name, id, v, t)
	}
	if kind == 0 {
		switch t {
		case ast.Nil:
			return wNil()
		case ast.Bool:
			return wBool(v.(bool))
		case ast.Int:
			return wInt(v.(int64))
		case ast.Float:
			return wFloat(v.(float64))
		case ast.String:
			return wStr(v.(string))
		}
	}
	ctx.SetVarb(name, V{v, t})
	return wIdent(name)
}

// wResult reads the single value an evaluator left in the result register.
func wResult(ctx *Task, err *errchain.PlError) (any, ast.DType, bool) {
	if err != nil {
		return nil, ast.Invalid, false
	}
	verifnd.Assert(ctx.Regs.Count() == 1, "evaluator-leaves-exactly-one-value")
	if ctx.Regs.Count() != 1 {
		return nil, ast.Invalid, false
	}
	r, _ := ctx.Regs.GetRet()
	return r.V, r.T, true
}

func wSameFloat(a, b float64) bool { return verifnd.Or(a == b, verifnd.And(a != a, b != b)) }

func wPromote(v any) float64 {
	switch x := v.(type) {
	case int64:
		return float64(x)
	case float64:
		return x
	}
	panic("wPromote")
}

func wIsNum(c int) bool { return c == wcInt || c == wcFloat }

// wDeepEq: structural equality of Inv-values (depth 1 collections of scalars).
func wDeepEq(a, b any) bool {
	switch x := a.(type) {
	case nil:
		return b == nil
	case bool:
		y, ok := b.(bool)
		return ok && x == y
	case int64:
		y, ok := b.(int64)
		return ok && x == y
	case float64:
		y, ok := b.(float64)
		return ok && x == y
	case string:
		y, ok := b.(string)
		return ok && x == y
	case []any:
		y, ok := b.([]any)
		if !ok || len(x) != len(y) {
			return false
		}
		for i := range x {
			if !wDeepEq(x[i], y[i]) {
				return false
			}
		}
		return true
	case map[string]any:
		y, ok := b.(map[string]any)
		if !ok || len(x) != len(y) {
			return false
		}
		for k, xv := range x {
			yv, ok := y[k]
			if !ok || !wDeepEq(xv, yv) {
				return false
			}
		}
		return true
	}
	return false
}

// wSameValue: scalar equality with NaN == NaN; collections by deep equality.
func wSameValue(a, b any) bool {
	fa, ok1 := a.(float64)
	fb, ok2 := b.(float64)
	if ok1 && ok2 {
		return wSameFloat(fa, fb)
	}
	return wDeepEq(a, b)
}
