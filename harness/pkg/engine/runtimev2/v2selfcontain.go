package runtimev2

// C18 / C04: as runtime.VerifNoSelfContain, for the v2 interpreter: an index assignment never
// makes a list or map contain itself.

import (
	"github.com/GuanceCloud/platypus/internal/verifnd"
	"github.com/GuanceCloud/platypus/pkg/ast"
)

func wscFinite(v any, d int) bool {
	if d == 0 {
		return false
	}
	switch x := v.(type) {
	case []any:
		for _, e := range x {
			if !wscFinite(e, d-1) {
				return false
			}
		}
	case map[string]any:
		for _, e := range x {
			if !wscFinite(e, d-1) {
				return false
			}
		}
	}
	return true
}

// VerifV2NoSelfContain: o = [10, inner, m], inner = [20, deep], deep = [30],
// m = {"k": 40, "l": leaf}, leaf = [50]; o<holder><slot> = value.
func VerifV2NoSelfContain() {
	ctx := wNewTask()
	deep := []any{int64(30)}
	inner := []any{int64(20), deep}
	leaf := []any{int64(50)}
	m := map[string]any{"k": int64(40), "l": leaf}
	o := []any{int64(10), inner, m}
	ctx.SetVarb("o", V{o, ast.List})
	ctx.SetVarb("w", V{[]any{int64(9)}, ast.List})
	reach := map[string][]string{"o": {"o", "inner", "deep", "m", "leaf"}, "inner": {"inner", "deep"}, "deep": {"deep"}, "m": {"m", "leaf"}, "leaf": {"leaf"}}
	type holder struct {
		path []*ast.Node
		id   string
		slot *ast.Node
	}
	holders := []holder{
		{nil, "o", wInt(0)},
		{nil, "o", wInt(-2)},
		{[]*ast.Node{wInt(1)}, "inner", wInt(0)},
		{[]*ast.Node{wInt(1), wInt(1)}, "deep", wInt(0)},
		{[]*ast.Node{wInt(2)}, "m", wStr("k")},
		{[]*ast.Node{wInt(2)}, "m", wStr("fresh")},
		{[]*ast.Node{wInt(2), wStr("l")}, "leaf", wInt(-1)},
	}
	h := holders[verifnd.Choice(len(holders))]
	type val struct {
		node *ast.Node
		has  []string
	}
	vals := []val{
		{wIdent("o"), reach["o"]},
		{wIndex("o", wInt(1)), reach["inner"]},
		{wIndex("o", wInt(1), wInt(1)), reach["deep"]},
		{wIndex("o", wInt(2)), reach["m"]},
		{wIndex("o", wInt(2), wStr("l")), reach["leaf"]},
		{ast.WrapListInitExpr(&ast.ListLiteral{List: []*ast.Node{wInt(1), wIdent("o")}}), reach["o"]},
		{ast.WrapMapLiteral(&ast.MapLiteral{KeyValeList: [][2]*ast.Node{{wStr("x"), wIndex("o", wInt(1))}}}), reach["inner"]},
		{wIdent("w"), nil},
		{wInt(5), nil},
		{wIndex("o", wInt(0)), nil},
	}
	v := vals[verifnd.Choice(len(vals))]
	cyc := false
	for _, name := range v.has {
		if name == h.id {
			cyc = true
		}
	}
	target := wIndex("o", append(append([]*ast.Node{}, h.path...), h.slot)...)
	err := RunAssignmentExpr(ctx, &ast.AssignmentExpr{Op: ast.EQ, LHS: []*ast.Node{target}, RHS: []*ast.Node{v.node}})
	if cyc {
		verifnd.Reach("would-contain-itself")
		verifnd.Assert(err != nil, "storing-a-container-into-itself-is-an-error")
	} else {
		verifnd.Reach("tree-preserving")
		verifnd.Assert(err == nil, "tree-preserving-assignment-succeeds")
	}
	verifnd.Assert(wscFinite(o, 12), "structure-stays-finite")
}
