package runtimev2

// C08 (v2): load-time checking rejects every invalid construct wherever it occurs.
//
// The trees (one hole per (node kind, child slot) pair), the reference traversal A8 and
// the assertions live in harness/pkg/ast/{shapes,c08}.go and are shared with v1; this
// file binds them to the v2 check pass: Script.Check -> RunStmtsCheck -> RunStmtCheck
// and all Run*Check of r_check.go.

import (
	"github.com/GuanceCloud/platypus/pkg/ast"
	"github.com/GuanceCloud/platypus/pkg/errchain"
)

// vc08Table turns the function table model into the v2 function table.
func vc08Table(tbl []ast.VerifFn) map[string]*Fn {
	fns := map[string]*Fn{}
	for _, f := range tbl {
		rule := f.Rule
		call := func(ctx *Task, e *ast.CallExpr) *errchain.PlError { return nil }
		check := func(ctx *Task, e *ast.CallExpr) *errchain.PlError {
			if !ast.VerifArgsOK(rule, e) {
				return NewRunError(ctx, "bad argument list", e.NamePos)
			}
			return nil
		}
		switch f.State {
		case ast.VerifFull:
			fns[f.Name] = &Fn{Call: call, CallCheck: check}
		case ast.VerifCallOnly:
			fns[f.Name] = &Fn{Call: call}
		case ast.VerifCheckOnly:
			fns[f.Name] = &Fn{CallCheck: check}
		case ast.VerifNilEntry:
			fns[f.Name] = nil
		}
	}
	return fns
}

// vc08Load runs the load-time check of v2 the way engine.ParseV2 does after parsing.
func vc08Load(stmts ast.Stmts, tbl []ast.VerifFn) *errchain.PlError {
	s := &Script{Name: ast.VerifScriptName, Stmts: stmts, Fn: vc08Table(tbl)}
	return s.Check()
}

// VerifCheckShapesV2: see ast.VerifC08Shapes (MODE 0..3).
func VerifCheckShapesV2() { ast.VerifC08Shapes(vc08Load) }

// VerifCheckJumpsV2: see ast.VerifC08Jumps (DEPTH).
func VerifCheckJumpsV2() { ast.VerifC08Jumps(vc08Load) }

// VerifCheckTableV2: see ast.VerifC08Table; v2 also has the nil-entry state.
func VerifCheckTableV2() { ast.VerifC08Table(vc08Load, ast.VerifStates) }
