package runtimev2

// C18(a): index expressions of the v2 interpreter against the index reference A2:
// key must be Int for lists, String for maps; k<0 -> k+n; 0 <= k < n else error; an absent
// map key reads nil, is inserted by the last step of a write and is an error on an inner
// step of a write; indexing a scalar is an error.

import (
	"github.com/GuanceCloud/platypus/internal/verifnd"
	"github.com/GuanceCloud/platypus/pkg/ast"
	"github.com/GuanceCloud/platypus/pkg/engine/runtime"
)

// wRefStep applies one index step of the reference to cur. ok=false: error.
// absent=true: a map was indexed with a string key it does not hold.
func wRefStep(cur any, kv any, kc int) (next any, listPos int, ok bool, absent bool) {
	switch c := cur.(type) {
	case []any:
		if kc != wcInt {
			return nil, 0, false, false
		}
		k := kv.(int64)
		n := int64(len(c))
		if k < 0 {
			k += n
		}
		if k < 0 || k >= n {
			return nil, 0, false, false
		}
		k = verifnd.Pick(k)
		return c[k], int(k), true, false
	case map[string]any:
		if kc != wcString {
			return nil, 0, false, false
		}
		v, has := c[kv.(string)]
		if !has {
			return nil, 0, true, true
		}
		return v, 0, true, false
	}
	return nil, 0, false, false // scalar
}

func wIndexKey(L int) (any, ast.DType, int) {
	kc := verifnd.Choice(wcCount)
	kv, kt := wValue(kc, L, 1)
	if kc == wcString {
		s := kv.(string)
		for i := 0; i < len(s); i++ {
			verifnd.Assume(verifnd.Or(s[i] == 'a', s[i] == 'b', s[i] == 'z'))
		}
	}
	return kv, kt, kc
}

// wIndexObject: 0 list of 0..N tagged ints, 1 map {a,b}, 2 list [[20,21],{a:22},23],
// 3 map {a:[30,31], b:{a:32}}, 4 an integer.
func wIndexObject(kind, N int) (any, ast.DType) {
	switch kind {
	case 0:
		n := verifnd.Int(0, N)
		l := make([]any, n)
		for i := range l {
			l[i] = int64(100 + i)
		}
		return l, ast.List
	case 1:
		return map[string]any{"a": int64(10), "b": int64(11)}, ast.Map
	case 2:
		return []any{[]any{int64(20), int64(21)}, map[string]any{"a": int64(22)}, int64(23)}, ast.List
	case 3:
		return map[string]any{"a": []any{int64(30), int64(31)}, "b": map[string]any{"a": int64(32)}}, ast.Map
	}
	return int64(5), ast.Int
}

// VerifV2Index: read o[k] / o[k][j] and write o[k] = 99 / o[k][j] = 99 for every object
// shape and keys of every class (ints unconstrained, strings over {a,b,z}).
func VerifV2Index() {
	L, N := verifnd.Param("L", 1), verifnd.Param("N", 3)
	okind := verifnd.Choice(5)
	depth := verifnd.Int(1, 2)
	write := verifnd.Int(0, 1) == 1
	obj, ot := wIndexObject(okind, N)
	ref := wCopy(obj) // the reference works on its own copy
	ctx := wNewTask()
	ctx.SetVarb("o", V{obj, ot})
	keys := make([]any, depth)
	kcs := make([]int, depth)
	vars := []wVar{{"o", obj, ot}}
	var idx []*ast.Node
	names := []string{"k", "j"}
	for d := 0; d < depth; d++ {
		kv, kt, kc := wIndexKey(L)
		keys[d], kcs[d] = kv, kc
		vars = append(vars, wVar{names[d], kv, kt})
		ctx.SetVarb(names[d], V{kv, kt})
		idx = append(idx, wIdent(names[d]))
	}
	// reference
	cur := ref
	ok := true
	absent := false
	var holder any // collection indexed by the last step
	lastPos := 0
	innerAbsentRead := false
	for d := 0; d < depth && ok; d++ {
		if absent { // previous (inner) step found no such key
			if write {
				ok = false // inner step of a write: error
			}
			innerAbsentRead = true // read through an absent key: the reference is silent
			break
		}
		holder = cur
		cur, lastPos, ok, absent = wRefStep(cur, keys[d], kcs[d])
	}
	if innerAbsentRead {
		// read through an absent key: the index reference is silent; the two interpreters
		// must agree (shared language: same value, same error verdict)
		verifnd.Reach("read-through-absent-key")
		expr := &ast.IndexExpr{Obj: &ast.Identifier{Name: "o"}, Index: idx}
		err2 := RunIndexExprGet(ctx, expr)
		v2v, v2t, _ := wResult(ctx, err2)
		v1v, v1t, err1 := runtime.RunIndexExprGet(wV1Task(vars, nil), expr)
		verifnd.Assert((err1 == nil) == (err2 == nil), "read-through-absent-key:same-error-verdict-as-v1")
		if err1 == nil && err2 == nil {
			verifnd.Assert(wSameDeep(v1v, v2v) && v1t == v2t, "read-through-absent-key:same-value-as-v1")
		}
		return
	}
	if !write {
		err := RunIndexExprGet(ctx, &ast.IndexExpr{Obj: &ast.Identifier{Name: "o"}, Index: idx})
		v, dt, _ := wResult(ctx, err)
		if !ok {
			verifnd.Reach("read-error")
			verifnd.Assert(err != nil, "bad-index-read-is-error")
			return
		}
		verifnd.Assert(err == nil, "good-index-read-no-error")
		if err != nil {
			return
		}
		verifnd.Assert(wInv(v, dt), "result-inv")
		if absent {
			verifnd.Reach("read-absent-key")
			verifnd.Assert(v == nil && dt == ast.Nil, "absent-map-key-reads-nil")
			return
		}
		verifnd.Reach("read-value")
		verifnd.Assert(wDeepEq(v, cur), "read-value")
		return
	}
	err := RunAssignmentExpr(ctx, &ast.AssignmentExpr{Op: ast.EQ,
		LHS: []*ast.Node{wIndex("o", idx...)}, RHS: []*ast.Node{wInt(99)}})
	if !ok {
		verifnd.Reach("write-error")
		verifnd.Assert(err != nil, "bad-index-write-is-error")
		return
	}
	verifnd.Reach("write-ok")
	verifnd.Assert(err == nil, "good-index-write-no-error")
	if err != nil {
		return
	}
	switch h := holder.(type) {
	case []any:
		h[lastPos] = int64(99)
	case map[string]any:
		if absent {
			verifnd.Reach("write-inserts-key")
		}
		h[keys[depth-1].(string)] = int64(99)
	}
	verifnd.Assert(wDeepEq(obj, ref), "write-updates-exactly-that-element")
}
