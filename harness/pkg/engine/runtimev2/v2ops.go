package runtimev2

// C18(a): the operator obligations O1-O9 of C02 instantiated for the v2 evaluators
// (separate code from v1). Operands come from literals, variables and probe functions
// supplied through the function table; results are read from the result register.

import (
	"github.com/GuanceCloud/platypus/internal/verifnd"
	"github.com/GuanceCloud/platypus/pkg/ast"
)

var wArithOps = []ast.Op{ast.ADD, ast.SUB, ast.MUL, ast.DIV, ast.MOD}
var wCmpOps = []ast.Op{ast.EQEQ, ast.NEQ, ast.LT, ast.LTE, ast.GT, ast.GTE}
var wAssignOps = []ast.Op{ast.ADDEQ, ast.SUBEQ, ast.MULEQ, ast.DIVEQ, ast.MODEQ}

// VerifV2ArithNum: O1/O2/O7 - every arithmetic operator on every ordered pair of numeric
// operands (any int64, any float64 incl. NaN/Inf).
func VerifV2ArithNum() {
	wReset()
	op := wArithOps[verifnd.Choice(5)]
	lc := wcInt + verifnd.Int(0, 1)
	rc := wcInt + verifnd.Int(0, 1)
	ctx := wNewTask()
	lv, lt := wScalar(lc, 0)
	rv, rt := wScalar(rc, 0)
	lk, rk := verifnd.Choice(3), verifnd.Choice(3)
	expr := &ast.ArithmeticExpr{Op: op, LHS: wLeaf(ctx, "x", 1, lv, lt, lk), RHS: wLeaf(ctx, "y", 2, rv, rt, rk)}
	err := RunArithmeticExpr(ctx, expr)
	v, dt, _ := wResult(ctx, err)
	if lk == 2 && rk == 2 {
		verifnd.Assert(len(wTrace) == 2 && wTrace[0] == 1 && wTrace[1] == 2, "operands-left-to-right-once")
	}
	if lc == wcInt && rc == wcInt {
		li, ri := lv.(int64), rv.(int64)
		if (op == ast.DIV || op == ast.MOD) && ri == 0 {
			verifnd.Reach("int-zero-divisor")
			verifnd.Assert(err != nil, "int-zero-divisor-is-error")
			return
		}
		verifnd.Reach("int-int")
		verifnd.Assert(err == nil, "int-int-no-error")
		if err != nil {
			return
		}
		verifnd.Assert(dt == ast.Int, "int-int-type")
		r, ok := v.(int64)
		verifnd.Assert(ok, "int-int-value-is-int64")
		if !ok {
			return
		}
		switch op {
		case ast.ADD:
			verifnd.Assert(r == li+ri, "int-add-wraps")
		case ast.SUB:
			verifnd.Assert(r == li-ri, "int-sub-wraps")
		case ast.MUL:
			verifnd.Assert(r == li*ri, "int-mul-wraps")
		case ast.DIV:
			verifnd.Assert(r == li/ri, "int-div-truncates")
		case ast.MOD:
			verifnd.Assert(r == li%ri, "int-mod")
		}
		return
	}
	lf, rf := wPromote(lv), wPromote(rv)
	if op == ast.MOD {
		verifnd.Reach("float-mod")
		verifnd.Assert(err != nil, "float-mod-is-error")
		return
	}
	if op == ast.DIV && rf == 0 {
		verifnd.Reach("float-zero-divisor")
		verifnd.Assert(err != nil, "float-zero-divisor-is-error")
		return
	}
	verifnd.Reach("float")
	verifnd.Assert(err == nil, "float-no-error")
	if err != nil {
		return
	}
	verifnd.Assert(dt == ast.Float, "float-type")
	r, ok := v.(float64)
	verifnd.Assert(ok, "float-value-is-float64")
	if !ok {
		return
	}
	switch op {
	case ast.ADD:
		verifnd.Assert(wSameFloat(r, lf+rf), "float-add")
	case ast.SUB:
		verifnd.Assert(wSameFloat(r, lf-rf), "float-sub")
	case ast.MUL:
		verifnd.Assert(wSameFloat(r, lf*rf), "float-mul")
	case ast.DIV:
		verifnd.Assert(wSameFloat(r, lf/rf), "float-div")
	}
}

// VerifV2ArithClasses: O3 - arithmetic over every ordered pair of operand classes:
// string+string concatenates, every other use of a string and every nil/list/map operand
// is an error, results satisfy Inv.
func VerifV2ArithClasses() {
	wReset()
	op := wArithOps[verifnd.Choice(5)]
	lc, rc := verifnd.Choice(wcCount), verifnd.Choice(wcCount)
	verifnd.Assume(!(wIsNum(lc) && wIsNum(rc))) // VerifV2ArithNum
	ctx := wNewTask()
	L, N := verifnd.Param("L", 2), verifnd.Param("N", 2)
	lv, lt := wValue(lc, L, N)
	rv, rt := wValue(rc, L, N)
	expr := &ast.ArithmeticExpr{Op: op, LHS: wLeaf(ctx, "x", 1, lv, lt, 1+verifnd.Choice(2)), RHS: wLeaf(ctx, "y", 2, rv, rt, 1+verifnd.Choice(2))}
	err := RunArithmeticExpr(ctx, expr)
	v, dt, _ := wResult(ctx, err)
	if err == nil {
		verifnd.Assert(wInv(v, dt), "result-inv")
	}
	bad := func(c int) bool { return c == wcNil || c == wcList || c == wcMap }
	switch {
	case bad(lc) || bad(rc):
		verifnd.Reach("nil-list-map-operand")
		verifnd.Assert(err != nil, "nil-list-map-operand-is-error")
	case lc == wcString && rc == wcString:
		if op != ast.ADD {
			verifnd.Reach("string-non-add")
			verifnd.Assert(err != nil, "string-non-add-is-error")
			return
		}
		verifnd.Reach("concat")
		verifnd.Assert(err == nil, "concat-no-error")
		if err != nil {
			return
		}
		s, ok := v.(string)
		verifnd.Assert(ok && dt == ast.String, "concat-type")
		verifnd.Assert(ok && s == lv.(string)+rv.(string), "concat-value")
	case lc == wcString || rc == wcString:
		verifnd.Reach("string-mixed")
		verifnd.Assert(err != nil, "string-with-non-string-is-error")
	default:
		// a bool operand with a bool/number: the reference is silent; only Inv is required
		verifnd.Reach("bool-operand")
	}
}

// wRefEq is the reference equality O4; ok=false where the reference is silent
// (bool against number).
func wRefEq(lc, rc int, lv, rv any) (eq bool, ok bool) {
	switch {
	case lc == wcInt && rc == wcInt:
		return lv.(int64) == rv.(int64), true
	case wIsNum(lc) && wIsNum(rc):
		return wPromote(lv) == wPromote(rv), true
	case lc == wcBool && rc == wcBool:
		return lv.(bool) == rv.(bool), true
	case (lc == wcBool && wIsNum(rc)) || (rc == wcBool && wIsNum(lc)):
		return false, false
	case lc == wcString && rc == wcString:
		return lv.(string) == rv.(string), true
	case lc == wcNil && rc == wcNil:
		return true, true
	case lc == wcList && rc == wcList:
		return wDeepEq(lv, rv), true
	case lc == wcMap && rc == wcMap:
		return wDeepEq(lv, rv), true
	}
	return false, true // unrelated classes
}

// VerifV2Compare: O4/O5 - == != < <= > >= over every ordered pair of operand classes.
func VerifV2Compare() {
	wReset()
	op := wCmpOps[verifnd.Choice(6)]
	lc, rc := verifnd.Choice(wcCount), verifnd.Choice(wcCount)
	ctx := wNewTask()
	L, N := verifnd.Param("L", 2), verifnd.Param("N", 2)
	lv, lt := wValue(lc, L, N)
	rv, rt := wValue(rc, L, N)
	lk, rk := verifnd.Choice(3), verifnd.Choice(3)
	expr := &ast.ConditionalExpr{Op: op, LHS: wLeaf(ctx, "x", 1, lv, lt, lk), RHS: wLeaf(ctx, "y", 2, rv, rt, rk)}
	err := RunConditionExpr(ctx, expr)
	v, dt, _ := wResult(ctx, err)
	if lk == 2 && rk == 2 {
		verifnd.Assert(len(wTrace) == 2 && wTrace[0] == 1 && wTrace[1] == 2, "operands-left-to-right-once")
	}
	if op == ast.EQEQ || op == ast.NEQ {
		want, defined := wRefEq(lc, rc, lv, rv)
		verifnd.Assert(err == nil, "equality-never-errors")
		if err != nil {
			return
		}
		r, ok := v.(bool)
		verifnd.Assert(ok && dt == ast.Bool, "equality-type")
		if !ok || !defined {
			return
		}
		verifnd.Reach("equality")
		if op == ast.EQEQ {
			verifnd.Assert(r == want, "eq-value")
		} else {
			verifnd.Assert(r == !want, "neq-value")
		}
		return
	}
	if !(wIsNum(lc) || lc == wcBool) || !(wIsNum(rc) || rc == wcBool) {
		verifnd.Reach("order-non-numeric")
		verifnd.Assert(err != nil, "order-non-numeric-is-error")
		return
	}
	if lc == wcBool || rc == wcBool {
		return // reference silent
	}
	verifnd.Reach("order")
	verifnd.Assert(err == nil, "order-no-error")
	if err != nil {
		return
	}
	r, ok := v.(bool)
	verifnd.Assert(ok && dt == ast.Bool, "order-type")
	if !ok {
		return
	}
	var want bool
	if lc == wcInt && rc == wcInt {
		li, ri := lv.(int64), rv.(int64)
		switch op {
		case ast.LT:
			want = li < ri
		case ast.LTE:
			want = li <= ri
		case ast.GT:
			want = li > ri
		case ast.GTE:
			want = li >= ri
		}
	} else {
		lf, rf := wPromote(lv), wPromote(rv)
		switch op {
		case ast.LT:
			want = lf < rf
		case ast.LTE:
			want = lf <= rf
		case ast.GT:
			want = lf > rf
		case ast.GTE:
			want = lf >= rf
		}
	}
	verifnd.Assert(r == want, "order-value")
}

// VerifV2Logic: O6 - && and || short-circuit on a deciding boolean left operand (the right
// operand is a probe that must not run), combine two booleans, and reject anything else.
func VerifV2Logic() {
	wReset()
	isAnd := verifnd.Bool()
	isAnd = verifnd.PickBool(isAnd)
	op := ast.OR
	if isAnd {
		op = ast.AND
	}
	lc, rc := verifnd.Choice(wcCount), verifnd.Choice(wcCount)
	ctx := wNewTask()
	lv, lt := wValue(lc, 1, 1)
	rv, rt := wValue(rc, 1, 1)
	expr := &ast.ConditionalExpr{Op: op, LHS: wLeaf(ctx, "x", 1, lv, lt, verifnd.Choice(3)), RHS: wProbe(ctx, "probe_y", 2, rv, rt)}
	err := RunConditionExpr(ctx, expr)
	v, dt, _ := wResult(ctx, err)
	ranRight := 0
	for _, id := range wTrace {
		if id == 2 {
			ranRight++
		}
	}
	if lc == wcBool {
		l := lv.(bool)
		if l == !isAnd { // true || _ , false && _
			verifnd.Reach("short-circuit")
			verifnd.Assert(ranRight == 0, "right-operand-not-evaluated")
			verifnd.Assert(err == nil, "short-circuit-no-error")
			r, ok := v.(bool)
			verifnd.Assert(ok && dt == ast.Bool && r == l, "short-circuit-value")
			return
		}
		verifnd.Assert(ranRight == 1, "right-operand-evaluated-once")
		if rc == wcBool {
			verifnd.Reach("both-bool")
			verifnd.Assert(err == nil, "bool-bool-no-error")
			r, ok := v.(bool)
			verifnd.Assert(ok && dt == ast.Bool && r == rv.(bool), "bool-bool-value")
			return
		}
	}
	verifnd.Reach("non-bool")
	verifnd.Assert(err != nil, "non-bool-operand-is-error")
}

// VerifV2Unary: O8 - unary + - ! on every operand class.
func VerifV2Unary() {
	wReset()
	ops := []ast.Op{ast.ADD, ast.SUB, ast.NOT}
	op := ops[verifnd.Choice(3)]
	c := verifnd.Choice(wcCount)
	ctx := wNewTask()
	val, t := wValue(c, 2, 2)
	k := verifnd.Choice(3)
	expr := &ast.UnaryExpr{Op: op, RHS: wLeaf(ctx, "x", 1, val, t, k)}
	err := RunUnaryExpr(ctx, expr)
	v, dt, _ := wResult(ctx, err)
	if k == 2 {
		verifnd.Assert(len(wTrace) == 1, "operand-evaluated-once")
	}
	if err == nil {
		verifnd.Assert(wInv(v, dt), "result-inv")
	}
	if op == ast.NOT {
		// truthiness table (A3)
		var truthy bool
		switch x := val.(type) {
		case nil:
			truthy = false
		case bool:
			truthy = x
		case int64:
			truthy = x != 0
		case float64:
			truthy = x != 0
		case string:
			truthy = len(x) != 0
		case []any:
			truthy = len(x) != 0
		case map[string]any:
			truthy = len(x) != 0
		}
		verifnd.Reach("not")
		verifnd.Assert(err == nil, "not-no-error")
		r, ok := v.(bool)
		verifnd.Assert(ok && dt == ast.Bool && r == !truthy, "not-value")
		return
	}
	switch c {
	case wcInt:
		verifnd.Reach("sign-int")
		verifnd.Assert(err == nil, "sign-int-no-error")
		r, ok := v.(int64)
		verifnd.Assert(ok && dt == ast.Int, "sign-int-type")
		if ok {
			if op == ast.SUB {
				verifnd.Assert(r == -val.(int64), "neg-int")
			} else {
				verifnd.Assert(r == val.(int64), "plus-int")
			}
		}
	case wcFloat:
		verifnd.Reach("sign-float")
		verifnd.Assert(err == nil, "sign-float-no-error")
		r, ok := v.(float64)
		verifnd.Assert(ok && dt == ast.Float, "sign-float-type")
		if ok {
			if op == ast.SUB {
				verifnd.Assert(wSameFloat(r, -val.(float64)), "neg-float")
			} else {
				verifnd.Assert(wSameFloat(r, val.(float64)), "plus-float")
			}
		}
	case wcBool:
		verifnd.Reach("sign-bool") // reference silent on the value; Inv asserted above
	default:
		verifnd.Reach("sign-non-numeric")
		verifnd.Assert(err != nil, "sign-non-numeric-is-error")
	}
}

func wContains(s, sub string) bool {
	for i := 0; i+len(sub) <= len(s); i++ {
		if s[i:i+len(sub)] == sub {
			return true
		}
	}
	return false
}

// VerifV2In: O8 - `x in y` is substring (string), key presence (map), element presence
// (list); a non-string left operand with a string/map, and any other right operand class,
// is an error.
func VerifV2In() {
	wReset()
	lc, rc := verifnd.Choice(wcCount), verifnd.Choice(wcCount)
	ctx := wNewTask()
	L, N := verifnd.Param("L", 2), verifnd.Param("N", 2)
	lv, lt := wValue(lc, L, 1)
	var rv any
	var rt ast.DType
	if rc == wcMap {
		// map values of every class, nil included, and keys that are present as well as absent:
		// key presence must not depend on the value. With a non-string left operand the
		// contents do not matter (one representative).
		m := map[string]any{}
		names := []string{"k0", "k1", "k2"}
		if lc == wcString {
			nk := verifnd.Int(0, N)
			for i := 0; i < nk; i++ {
				m[names[i]], _ = wScalar(verifnd.Int(wcNil, wcString), L)
			}
			lv = []string{"k0", "k1", "zz", ""}[verifnd.Choice(4)]
		} else {
			m["k0"] = int64(1)
		}
		rv, rt = m, ast.Map
	} else {
		rv, rt = wValue(rc, L, N)
	}
	lk, rk := verifnd.Choice(3), verifnd.Choice(3)
	expr := &ast.InExpr{Op: "in", LHS: wLeaf(ctx, "x", 1, lv, lt, lk), RHS: wLeaf(ctx, "y", 2, rv, rt, rk)}
	err := RunInExpr(ctx, expr)
	v, dt, _ := wResult(ctx, err)
	if lk == 2 && rk == 2 {
		verifnd.Assert(len(wTrace) == 2 && wTrace[0] == 1 && wTrace[1] == 2, "operands-left-to-right-once")
	}
	switch rc {
	case wcString:
		if lc != wcString {
			verifnd.Reach("string-rhs-bad-lhs")
			verifnd.Assert(err != nil, "non-string-in-string-is-error")
			return
		}
		verifnd.Reach("substring")
		verifnd.Assert(err == nil, "substring-no-error")
		r, ok := v.(bool)
		verifnd.Assert(ok && dt == ast.Bool, "in-type")
		verifnd.Assert(r == wContains(rv.(string), lv.(string)), "substring-value")
	case wcMap:
		if lc != wcString {
			verifnd.Reach("map-rhs-bad-lhs")
			verifnd.Assert(err != nil, "non-string-in-map-is-error")
			return
		}
		verifnd.Reach("map-key")
		verifnd.Assert(err == nil, "map-key-no-error")
		r, ok := v.(bool)
		verifnd.Assert(ok && dt == ast.Bool, "in-type")
		_, has := rv.(map[string]any)[lv.(string)]
		if has {
			verifnd.Reach("map-key-present")
		}
		verifnd.Assert(r == has, "map-key-value")
	case wcList:
		verifnd.Reach("list-elem")
		verifnd.Assert(err == nil, "list-elem-no-error")
		r, ok := v.(bool)
		verifnd.Assert(ok && dt == ast.Bool, "in-type")
		want := false
		silent := false
		for _, e := range rv.([]any) {
			if wDeepEq(lv, e) {
				want = true
			}
			_, ef := e.(float64)
			_, ei := e.(int64)
			if (lc == wcInt && ef) || (lc == wcFloat && ei) {
				silent = true // int against float element: reference silent
			}
		}
		if !silent || want {
			verifnd.Assert(r == want, "list-elem-value")
		}
	default:
		verifnd.Reach("bad-rhs")
		verifnd.Assert(err != nil, "in-scalar-is-error")
	}
}

// VerifV2AssignOp: O9 - `a op= b` behaves as `a = a op b` for every operator and every
// ordered pair of operand classes: same error-ness, same variable state afterwards.
func VerifV2AssignOp() {
	k := verifnd.Choice(5)
	lc, rc := verifnd.Choice(wcCount), verifnd.Choice(wcCount)
	L, N := verifnd.Param("L", 1), verifnd.Param("N", 1)
	lv, lt := wValue(lc, L, N)
	rv, rt := wValue(rc, L, N)
	mk := func() *Task {
		ctx := wNewTask()
		ctx.SetVarb("a", V{lv, lt})
		ctx.SetVarb("b", V{rv, rt})
		return ctx
	}
	c1 := mk()
	e1 := RunAssignmentExpr(c1, &ast.AssignmentExpr{Op: wAssignOps[k], LHS: []*ast.Node{wIdent("a")}, RHS: []*ast.Node{wIdent("b")}})
	c2 := mk()
	rhs := ast.WrapArithmeticExpr(&ast.ArithmeticExpr{Op: wArithOps[k], LHS: wIdent("a"), RHS: wIdent("b")})
	e2 := RunAssignmentExpr(c2, &ast.AssignmentExpr{Op: ast.EQ, LHS: []*ast.Node{wIdent("a")}, RHS: []*ast.Node{rhs}})
	verifnd.Reach("compared")
	verifnd.Assert((e1 == nil) == (e2 == nil), "same-error-ness")
	if e1 != nil || e2 != nil {
		return
	}
	a1, err1 := c1.GetKey("a")
	a2, err2 := c2.GetKey("a")
	verifnd.Assert(err1 == nil && err2 == nil, "target-defined")
	if err1 == nil && err2 == nil {
		verifnd.Assert(a1.DType == a2.DType && wSameValue(a1.Value, a2.Value), "same-variable-state")
		verifnd.Assert(wInv(a1.Value, a1.DType), "target-inv")
	}
}
