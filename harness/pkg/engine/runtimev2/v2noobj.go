package runtimev2

import (
	"github.com/GuanceCloud/platypus/internal/verifnd"
	"github.com/GuanceCloud/platypus/pkg/ast"
)

// VerifV2IndexNoObject: the grammar admits the object-less index expression `.[i]`; evaluating
// it in the v2 interpreter (as a value, an assignment source, an assignment target, a
// compound-assignment target, a call argument) must not crash the host.
func VerifV2IndexNoObject() {
	ctx := wNewTask()
	node := ast.WrapIndexExpr(&ast.IndexExpr{Index: []*ast.Node{wInt(verifnd.Int64())}})
	switch verifnd.Choice(4) {
	case 0:
		_ = RunStmts(ctx, ast.Stmts{node})
		verifnd.Reach("value")
	case 1:
		_ = RunStmts(ctx, ast.Stmts{wSet("x", node)})
		verifnd.Reach("assign-source")
	case 2:
		_ = RunStmts(ctx, ast.Stmts{wAssign(ast.EQ, []*ast.Node{node}, []*ast.Node{wInt(1)})})
		verifnd.Reach("assign-target")
	case 3:
		_ = RunStmts(ctx, ast.Stmts{wAssign(ast.ADDEQ, []*ast.Node{node}, []*ast.Node{wInt(1)})})
		verifnd.Reach("opassign-target")
	}
}
