package runtimev2

import (
	"github.com/GuanceCloud/platypus/internal/verifnd"
	"github.com/GuanceCloud/platypus/pkg/ast"
)

// wRefSliceIndices is the reference A1: CPython PySlice_AdjustIndices with
// clamping before arithmetic, so that no intermediate can overflow int64.
func wRefSliceIndices(n int, hasS bool, s int64, hasE bool, e int64, hasT bool, t int64) ([]int, bool) {
	step := int64(1)
	if hasT {
		step = t
	}
	if step == 0 {
		return nil, false
	}
	N := int64(n)
	var lo, hi int64
	if step > 0 {
		lo, hi = 0, N
	} else {
		lo, hi = -1, N-1
	}
	norm := func(has bool, x int64, dflt int64) int64 {
		if !has {
			return dflt
		}
		if x < 0 {
			if x >= -N {
				return x + N
			}
			return lo
		}
		if x > hi {
			return hi
		}
		return x
	}
	var start, end int64
	if step > 0 {
		start = norm(hasS, s, 0)
		end = norm(hasE, e, N)
	} else {
		start = norm(hasS, s, N-1)
		end = norm(hasE, e, -1)
	}
	out := []int{}
	i := start
	for k := 0; k <= n; k++ {
		if step > 0 {
			if !(i < end) {
				break
			}
		} else {
			if !(i > end) {
				break
			}
		}
		out = append(out, int(i))
		if step > N || step < -N {
			break
		}
		i += step
	}
	return out, true
}

// wSliceBounds attaches optional, arbitrary int64 bounds to a slice expression.
func wSliceBounds(expr *ast.SliceExpr) (hasS bool, s int64, hasE bool, e int64, hasT bool, t int64) {
	hasS = verifnd.Int(0, 1) == 1
	hasE = verifnd.Int(0, 1) == 1
	hasT = verifnd.Int(0, 1) == 1
	if hasS {
		s = verifnd.Int64()
		expr.Start = wInt(s)
	}
	if hasE {
		e = verifnd.Int64()
		expr.End = wInt(e)
	}
	if hasT {
		t = verifnd.Int64()
		expr.Step = wInt(t)
	}
	return
}

// VerifV2SliceList: C18(a), reference A1 - a[start:end:step] on a list of 0..N tagged elements, each
// bound absent or ANY int64: result is exactly the Python slice; step 0 is an error;
// nothing panics.
func VerifV2SliceList() {
	n := verifnd.Int(0, verifnd.Param("N", 3))
	list := make([]any, n)
	for i := range list {
		list[i] = int64(100 + i)
	}
	ctx := wNewTask()
	ctx.SetVarb("a", V{list, ast.List})
	expr := &ast.SliceExpr{Obj: wIdent("a")}
	hasS, s, hasE, e, hasT, t := wSliceBounds(expr)
	err := RunSliceExpr(ctx, expr)
	v, dt, _ := wResult(ctx, err)
	ref, ok := wRefSliceIndices(n, hasS, s, hasE, e, hasT, t)
	if !ok {
		verifnd.Reach("step0")
		verifnd.Assert(err != nil, "step0-error")
		return
	}
	verifnd.Reach("ok")
	verifnd.Assert(err == nil, "no-error")
	if err != nil {
		return
	}
	verifnd.Assert(dt == ast.List, "dtype")
	res, isList := v.([]any)
	verifnd.Assert(isList, "inv")
	verifnd.Assert(len(res) == len(ref), "len")
	if len(res) != len(ref) {
		return
	}
	for k := range ref {
		verifnd.Assert(res[k].(int64) == int64(100+ref[k]), "elem")
	}
	// the source list is not modified
	for i := range list {
		verifnd.Assert(list[i].(int64) == int64(100+i), "src-unchanged")
	}
	// the result is a fresh list: writes through it and through the source do not meet
	if len(res) > 0 {
		res[0] = int64(-1)
		res = append(res, int64(-2))
		for i := range list {
			verifnd.Assert(list[i].(int64) == int64(100+i), "result-is-fresh:write-to-result-leaves-source")
		}
		list[ref[0]] = int64(-3)
		if len(ref) > 1 {
			list[ref[1]] = int64(-4)
			verifnd.Assert(res[1].(int64) == int64(100+ref[1]), "result-is-fresh:write-to-source-leaves-result")
		}
		verifnd.Assert(res[0].(int64) == -1, "result-is-fresh:write-to-source-leaves-result")
	}
}

// VerifV2SliceString: the same for a string of 0..N arbitrary bytes (bytes >= 0x80 included).
func VerifV2SliceString() {
	n := verifnd.Int(0, verifnd.Param("N", 3))
	str := verifnd.Bytes(n)
	ctx := wNewTask()
	ctx.SetVarb("a", V{str, ast.String})
	expr := &ast.SliceExpr{Obj: wIdent("a")}
	hasS, s, hasE, e, hasT, t := wSliceBounds(expr)
	err := RunSliceExpr(ctx, expr)
	v, dt, _ := wResult(ctx, err)
	ref, ok := wRefSliceIndices(n, hasS, s, hasE, e, hasT, t)
	if !ok {
		verifnd.Reach("step0")
		verifnd.Assert(err != nil, "step0-error")
		return
	}
	verifnd.Reach("ok")
	verifnd.Assert(err == nil, "no-error")
	if err != nil {
		return
	}
	verifnd.Assert(dt == ast.String, "dtype")
	res, isStr := v.(string)
	verifnd.Assert(isStr, "inv")
	verifnd.Assert(len(res) == len(ref), "len")
	if len(res) != len(ref) {
		return
	}
	for k := range ref {
		verifnd.Assert(res[k] == str[ref[k]], "byte")
	}
}
