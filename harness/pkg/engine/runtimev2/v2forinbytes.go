package runtimev2

// C18: as runtime.VerifForInBytes for the v2 interpreter.

import (
	"github.com/GuanceCloud/platypus/internal/verifnd"
	"github.com/GuanceCloud/platypus/pkg/ast"
	"github.com/GuanceCloud/platypus/pkg/errchain"
)

// VerifV2ForInBytes: s = N arbitrary bytes; for c in s { p(c) }.
func VerifV2ForInBytes() {
	wReset()
	s := verifnd.Bytes(verifnd.Int(0, verifnd.Param("N", 3)))
	prog := ast.Stmts{wSet("s", wStr(s)),
		ast.WrapForInStmt(&ast.ForInStmt{Varb: wIdent("c"), Iter: wIdent("s"), Body: wBlock(wP(wIdent("c")))})}
	fns := map[string]*Fn{}
	one := []*Param{{Name: "v"}}
	fns["p"] = &Fn{Call: func(c *Task, e *ast.CallExpr) *errchain.PlError {
		if err := CheckPassParam(c, e, one); err != nil {
			return err
		}
		v, err := GetParam(c, e, one, 0)
		if err != nil {
			return err
		}
		wSeen = append(wSeen, v)
		return nil
	}}
	err := (&Script{Name: "verif.p", Stmts: prog, Fn: fns}).Run(nil)
	verifnd.Reach("looped")
	verifnd.Assert(err == nil, "for-in-over-any-bytes-no-error")
	if err != nil {
		return
	}
	var want []string
	for _, r := range s {
		want = append(want, string(r))
	}
	verifnd.Assert(len(wSeen) == len(want), "one-iteration-per-character")
	if len(wSeen) == len(want) {
		for i := range want {
			verifnd.Assert(wSeen[i] == any(want[i]), "characters-in-order")
		}
	}
}
