package runtimev2

// C18(d): "the same programs are also run on the v1 interpreter where the languages
// coincide". The same AST (all names defined, single assignment) is run by both
// interpreters on the same symbolic data; the error verdicts, the values seen by the
// observing function and the evaluation results must agree.

import (
	"github.com/GuanceCloud/platypus/internal/verifnd"
	"github.com/GuanceCloud/platypus/pkg/ast"
	"github.com/GuanceCloud/platypus/pkg/engine/runtime"
	"github.com/GuanceCloud/platypus/pkg/errchain"
)

type wNoInput struct{}
type wNoKey struct{}

func (wNoKey) Error() string { return "no such key" }

func (wNoInput) Get(key string) (any, ast.DType, error) { return nil, ast.Invalid, wNoKey{} }

// wCopy deep-copies an Inv-value (each interpreter gets its own collections).
func wCopy(v any) any {
	switch x := v.(type) {
	case []any:
		l := make([]any, len(x))
		for i := range x {
			l[i] = wCopy(x[i])
		}
		return l
	case map[string]any:
		m := map[string]any{}
		for k, e := range x {
			m[k] = wCopy(e)
		}
		return m
	}
	return v
}

// wSameDeep: structural equality of Inv-values where NaN equals NaN (both interpreters
// must produce the same value, whatever it is).
func wSameDeep(a, b any) bool {
	switch x := a.(type) {
	case float64:
		y, ok := b.(float64)
		return ok && wSameFloat(x, y)
	case []any:
		y, ok := b.([]any)
		if !ok || len(x) != len(y) {
			return false
		}
		r := true
		for i := range x {
			r = verifnd.And(r, wSameDeep(x[i], y[i]))
		}
		return r
	case map[string]any:
		y, ok := b.(map[string]any)
		if !ok || len(x) != len(y) {
			return false
		}
		r := true
		for k, xv := range x {
			yv, ok := y[k]
			if !ok {
				return false
			}
			r = verifnd.And(r, wSameDeep(xv, yv))
		}
		return r
	}
	return wDeepEq(a, b)
}

// wLit writes an Inv-value as a literal expression.
func wLit(v any) *ast.Node {
	switch x := v.(type) {
	case nil:
		return wNil()
	case bool:
		return wBool(x)
	case int64:
		return wInt(x)
	case float64:
		return wFloat(x)
	case string:
		return wStr(x)
	case []any:
		l := &ast.ListLiteral{}
		for _, e := range x {
			l.List = append(l.List, wLit(e))
		}
		return ast.WrapListInitExpr(l)
	case map[string]any:
		m := &ast.MapLiteral{}
		for k, e := range x {
			m.KeyValeList = append(m.KeyValeList, [2]*ast.Node{wStr(k), wLit(e)})
		}
		return ast.WrapMapLiteral(m)
	}
	panic("wLit")
}

type wVar struct {
	name string
	v    any
	t    ast.DType
}

// wV1Task builds a v1 task (exported API only) with the variables defined.
func wV1Task(vars []wVar, fns map[string]runtime.FuncCall) *runtime.Task {
	ctx := runtime.GetContext()
	runtime.InitCtx(ctx, wNoInput{}, &runtime.Script{Name: "verif.p", FuncCall: fns}, nil)
	for _, x := range vars {
		_ = ctx.SetVarb(x.name, wCopy(x.v), x.t)
	}
	return ctx
}

func wV2Task(vars []wVar) *Task {
	ctx := wNewTask()
	for _, x := range vars {
		ctx.SetVarb(x.name, V{wCopy(x.v), x.t})
	}
	return ctx
}

// VerifV2AgreeExpr: one expression / assignment over defined variables, evaluated by v1
// (RunStmt) and by v2 (RunExpr + result register): collections, indexing (read and
// write, nested, negative, out of range, wrong key class), literals, parentheses.
func VerifV2AgreeExpr() {
	L, N := verifnd.Param("L", 1), verifnd.Param("N", 2)
	shape := verifnd.Choice(9)
	kc := verifnd.Choice(wcCount)
	kv, kt := wValue(kc, L, 1) // the key / element under test: any class
	if kc == wcString {
		ks := kv.(string)
		for i := 0; i < len(ks); i++ {
			verifnd.Assume(verifnd.Or(ks[i] == 'a', ks[i] == 'b', ks[i] == 'z'))
		}
	}
	n := verifnd.Int(0, N)
	a := make([]any, n)
	for i := range a {
		a[i] = int64(10 + i)
	}
	inner := []any{int64(20), int64(21)}
	aa := []any{inner, int64(22)}
	m := map[string]any{"a": int64(30), "b": map[string]any{"a": int64(31)}}
	xv, xt := wValue(verifnd.Choice(wcCount), L, 1)
	vars := []wVar{{"k", kv, kt}, {"x", xv, xt}, {"a", a, ast.List}, {"aa", aa, ast.List}, {"m", m, ast.Map}, {"n", int64(5), ast.Int}}
	k, x := wIdent("k"), wIdent("x")
	var e *ast.Node
	target := ""
	switch shape {
	case 0:
		e = wIndex("a", k)
	case 1:
		e = wIndex("aa", wInt(0), k)
	case 2:
		e = wIndex("m", k)
	case 3:
		e = wIndex("m", wStr("b"), k)
	case 4:
		e = wIndex("n", k)
	case 5:
		e, target = wAssign(ast.EQ, []*ast.Node{wIndex("a", k)}, []*ast.Node{x}), "a"
	case 6:
		e, target = wAssign(ast.EQ, []*ast.Node{wIndex("m", k)}, []*ast.Node{x}), "m"
	case 7:
		e, target = wAssign(ast.EQ, []*ast.Node{wIndex("m", k, wStr("a"))}, []*ast.Node{x}), "m"
	case 8:
		e = ast.WrapParenExpr(&ast.ParenExpr{Param: ast.WrapListInitExpr(&ast.ListLiteral{List: []*ast.Node{x,
			ast.WrapMapLiteral(&ast.MapLiteral{KeyValeList: [][2]*ast.Node{{k, x}}})}})})
	}
	c1 := wV1Task(vars, nil)
	v1, t1, e1 := runtime.RunStmt(c1, e)
	c2 := wV2Task(vars)
	e2 := RunExpr(c2, e)
	verifnd.Reach("compared")
	verifnd.Assert((e1 == nil) == (e2 == nil), "same-error-verdict")
	if e1 != nil || e2 != nil {
		verifnd.Reach("both-error")
		return
	}
	if target == "" {
		v2, t2, ok := wResult(c2, e2)
		if ok {
			verifnd.Reach("both-value")
			verifnd.Assert(t1 == t2, "same-type")
			verifnd.Assert(wSameDeep(v1, v2), "same-value")
		}
		return
	}
	verifnd.Reach("both-stored")
	r1, err1 := c1.GetKey(target)
	r2, err2 := c2.GetKey(target)
	verifnd.Assert(err1 == nil && err2 == nil, "target-defined")
	if err1 == nil && err2 == nil {
		verifnd.Assert(r1.DType == r2.DType && wSameDeep(r1.Value, r2.Value), "same-collection-state")
	}
}

// ---- programs ----

var wSeen1 []any // values observed by p(...) under v1

func wV1Funcs() map[string]runtime.FuncCall {
	return map[string]runtime.FuncCall{
		"p": func(c *runtime.Task, e *ast.CallExpr) *errchain.PlError {
			v, _, err := runtime.RunStmt(c, e.Param[0])
			if err != nil {
				return err
			}
			wSeen1 = append(wSeen1, v)
			return nil
		},
	}
}

func wP(arg *ast.Node) *ast.Node { return wCall("p", arg) }

// VerifV2AgreeFlow: small programs with if/elif/else, for (break/continue) and for-in,
// block-local names and assignments to outer names, over symbolic data; p(e) observes.
func VerifV2AgreeFlow() {
	wReset()
	wSeen1 = nil
	L := verifnd.Param("L", 1)
	shape := verifnd.Choice(4)
	if only := verifnd.Param("SHAPE", -1); only >= 0 {
		verifnd.Assume(shape == only)
	}
	var prog ast.Stmts
	lt := func(l, r *ast.Node) *ast.Node {
		return ast.WrapConditionExpr(&ast.ConditionalExpr{Op: ast.LT, LHS: l, RHS: r})
	}
	eq := func(l, r *ast.Node) *ast.Node {
		return ast.WrapConditionExpr(&ast.ConditionalExpr{Op: ast.EQEQ, LHS: l, RHS: r})
	}
	add := func(l, r *ast.Node) *ast.Node {
		return ast.WrapArithmeticExpr(&ast.ArithmeticExpr{Op: ast.ADD, LHS: l, RHS: r})
	}
	ifs := func(c *ast.Node, body ...*ast.Node) *ast.Node {
		return ast.WrapIfelseStmt(&ast.IfelseStmt{IfList: ast.IfList{{Condition: c, Block: wBlock(body...)}}})
	}
	brk := ast.WrapBreakStmt(&ast.BreakStmt{})
	cont := ast.WrapContinueStmt(&ast.ContinueStmt{})
	switch shape {
	case 0: // truthiness of every class decides the branch
		cv, _ := wValue(verifnd.Choice(wcCount), L, 1)
		dv, _ := wValue(verifnd.Choice(wcCount), L, 1)
		prog = ast.Stmts{
			wSet("c", wLit(cv)), wSet("d", wLit(dv)),
			ast.WrapIfelseStmt(&ast.IfelseStmt{
				IfList: ast.IfList{
					{Condition: wIdent("c"), Block: wBlock(wP(wInt(1)))},
					{Condition: wIdent("d"), Block: wBlock(wP(wInt(2)))}},
				Else: wBlock(wP(wInt(3)))}),
			wP(wInt(4)),
		}
	case 1: // for with break / continue and the loop clause
		kk := verifnd.Int64()
		verifnd.Assume(verifnd.And(kk >= 0, kk <= 3))
		b, cc := int64(verifnd.Int(-1, 3)), int64(verifnd.Int(-1, 3))
		prog = ast.Stmts{
			wSet("k", wInt(kk)), wSet("b", wInt(b)), wSet("c", wInt(cc)), wSet("sum", wInt(0)),
			ast.WrapForStmt(&ast.ForStmt{
				Init: wSet("i", wInt(0)), Cond: lt(wIdent("i"), wIdent("k")), Loop: wSet("i", add(wIdent("i"), wInt(1))),
				Body: wBlock(
					ifs(eq(wIdent("i"), wIdent("b")), brk),
					ifs(eq(wIdent("i"), wIdent("c")), cont),
					wP(wIdent("i")),
					wSet("sum", add(wIdent("sum"), wInt(10))),
				)}),
			wP(wIdent("sum")),
		}
	case 2: // for-in over every class (string / list / map iterate, the rest is an error)
		ic := verifnd.Choice(wcCount)
		var iv any
		switch ic {
		case wcString:
			s := verifnd.Bytes(verifnd.Int(0, 2))
			for i := 0; i < len(s); i++ {
				verifnd.Assume(verifnd.Or(s[i] == 'a', s[i] == 'b', s[i] == 0xC3, s[i] == 0xA9))
			}
			iv = s
		case wcList:
			n := verifnd.Int(0, 2)
			l := make([]any, n)
			for i := range l {
				l[i], _ = wScalar(verifnd.Int(wcNil, wcString), L)
			}
			iv = l
		default:
			iv, _ = wValue(ic, L, 1)
		}
		b, cc := int64(verifnd.Int(-1, 2)), int64(verifnd.Int(0, 2))
		prog = ast.Stmts{
			wSet("it", wLit(iv)), wSet("b", wInt(b)), wSet("c", wInt(cc)), wSet("cnt", wInt(0)),
			ast.WrapForInStmt(&ast.ForInStmt{Varb: wIdent("x"), Iter: wIdent("it"), Body: wBlock(
				ifs(eq(wIdent("cnt"), wIdent("b")), brk),
				wSet("cnt", add(wIdent("cnt"), wInt(1))),
				ifs(eq(wIdent("cnt"), wIdent("c")), cont),
				wP(wIdent("x")),
			)}),
			wP(wIdent("cnt")),
		}
	case 3: // scoping: assignments to outer names from nested blocks, block-local names
		x0 := verifnd.Int64()
		cv := verifnd.Bool()
		prog = ast.Stmts{
			wSet("x", wInt(x0)), wSet("c", wBool(cv)),
			ast.WrapIfelseStmt(&ast.IfelseStmt{
				IfList: ast.IfList{{Condition: wIdent("c"), Block: wBlock(
					wSet("x", add(wIdent("x"), wInt(1))), wSet("y", wInt(5)), wP(wIdent("y")))}},
				Else: wBlock(wSet("y", wInt(6)), wSet("x", add(wIdent("x"), wIdent("y"))))}),
			ast.WrapForStmt(&ast.ForStmt{
				Init: wSet("i", wInt(0)), Cond: lt(wIdent("i"), wInt(2)), Loop: wSet("i", add(wIdent("i"), wInt(1))),
				Body: wBlock(wSet("x", add(wIdent("x"), wInt(10))), wSet("z", wIdent("i")), wP(wIdent("z")))}),
			wSet("y", wInt(7)),
			wP(wIdent("x")), wP(wIdent("y")),
		}
	}
	s1 := &runtime.Script{Name: "verif.p", FuncCall: wV1Funcs(), Ast: prog}
	e1 := s1.Run(wNoInput{}, nil)

	fns := map[string]*Fn{}
	one := []*Param{{Name: "v"}}
	fns["p"] = &Fn{Call: func(c *Task, e *ast.CallExpr) *errchain.PlError {
		if err := CheckPassParam(c, e, one); err != nil {
			return err
		}
		v, err := GetParam(c, e, one, 0)
		if err != nil {
			return err
		}
		wSeen = append(wSeen, v)
		return nil
	}}
	s2 := &Script{Name: "verif.p", Stmts: prog, Fn: fns}
	e2 := s2.Run(nil)

	verifnd.Reach("compared")
	verifnd.Assert((e1 == nil) == (e2 == nil), "same-error-verdict")
	verifnd.Assert(len(wSeen1) == len(wSeen), "same-number-of-observations")
	if len(wSeen1) != len(wSeen) {
		return
	}
	for i := range wSeen {
		verifnd.Assert(wSameDeep(wSeen1[i], wSeen[i]), "same-observation")
	}
	if e1 == nil && e2 == nil {
		verifnd.Reach("both-finish")
	} else if e1 != nil && e2 != nil {
		verifnd.Reach("both-error")
	}
}
