package runtimev2

// C18(c): multi-assignment. "`a, b = x, y` evaluates the whole right side before
// assigning"; counts must match else error; a call returning several values spreads over
// several targets; an undefined name on the right is an error.

import (
	"github.com/GuanceCloud/platypus/internal/verifnd"
	"github.com/GuanceCloud/platypus/pkg/ast"
)

var wVarNames = []string{"x0", "x1", "x2", "x3"}

// VerifV2MultiSwap: `x0, .., xn-1 = x_p0, .., x_pn-1` for every mapping p (swap, rotation,
// duplication): every target receives the value its source had BEFORE the statement.
// SHAPE 0: the targets/sources are variables (n = 2: values of every class; n = 3:
// integers); SHAPE 1: they are the elements l[0..n-1] of one list.
func VerifV2MultiSwap() {
	wReset()
	shape := verifnd.Choice(2)
	n := verifnd.Int(2, 3)
	ctx := wNewTask()
	old := make([]any, n)
	oldT := make([]ast.DType, n)
	for i := 0; i < n; i++ {
		c := wcInt
		if n == 2 && shape == 0 {
			c = verifnd.Choice(wcCount)
		}
		old[i], oldT[i] = wValue(c, 1, 1)
	}
	p := make([]int, n)
	for i := range p {
		p[i] = verifnd.Choice(n)
	}
	var lhs, rhs []*ast.Node
	var l []any
	if shape == 0 {
		for i := 0; i < n; i++ {
			ctx.SetVarb(wVarNames[i], V{old[i], oldT[i]})
			lhs = append(lhs, wIdent(wVarNames[i]))
			rhs = append(rhs, wIdent(wVarNames[p[i]]))
		}
	} else {
		l = make([]any, n)
		copy(l, old)
		ctx.SetVarb("l", V{l, ast.List})
		for i := 0; i < n; i++ {
			lhs = append(lhs, wIndex("l", wInt(int64(i))))
			rhs = append(rhs, wIndex("l", wInt(int64(p[i]))))
		}
	}
	err := RunStmts(ctx, ast.Stmts{wAssign(ast.EQ, lhs, rhs)})
	verifnd.Reach("swap")
	if n == 2 && p[0] == 1 && p[1] == 0 {
		verifnd.Reach("a,b=b,a")
	}
	verifnd.Assert(err == nil, "multi-assign-no-error")
	if err != nil {
		return
	}
	for i := 0; i < n; i++ {
		var got any
		var gotT ast.DType
		if shape == 0 {
			vb, e := ctx.GetKey(wVarNames[i])
			verifnd.Assert(e == nil, "target-defined")
			if e != nil {
				return
			}
			got, gotT = vb.Value, vb.DType
			verifnd.Assert(gotT == oldT[p[i]], "target-gets-type-of-old-source")
		} else {
			got = l[i]
		}
		verifnd.Assert(wSameValue(got, old[p[i]]), "target-gets-old-value-of-source")
	}
}

// source kinds of VerifV2MultiAssign
const (
	wmLit = iota
	wmVar
	wmCall1
	wmCall2
	wmCall3
	wmUndef
	wmCount
)

// VerifV2MultiAssign: n targets (variables; the first one optionally a list element),
// m sources, each a literal, a variable, a call returning 1, 2 or 3 values, or an
// undefined name. Reference: the right side is flattened left to right; an undefined name
// is an error; the flattened count must equal n else error; otherwise target i receives
// value i, and every call ran exactly once, in order.
func VerifV2MultiAssign() {
	wReset()
	n := verifnd.Int(1, verifnd.Param("T", 3))
	m := verifnd.Int(1, verifnd.Param("S", 3))
	firstIsElem := verifnd.Int(0, 1) == 1
	ctx := wNewTask()
	l := []any{int64(1), int64(2), int64(3)}
	ctx.SetVarb("l", V{l, ast.List})
	var lhs, rhs []*ast.Node
	for i := 0; i < n; i++ {
		if i == 0 && firstIsElem {
			lhs = append(lhs, wIndex("l", wInt(1)))
		} else {
			lhs = append(lhs, wIdent(wVarNames[i]))
		}
	}
	var flat []int64
	var calls []int
	undef := false
	srcNames := []string{"s0", "s1", "s2", "s3"}
	fnNames := []string{"f0", "f1", "f2", "f3"}
	for j := 0; j < m; j++ {
		base := int64(100 * (j + 1))
		k := verifnd.Choice(wmCount)
		switch k {
		case wmLit:
			rhs = append(rhs, wInt(base))
			flat = append(flat, base)
		case wmVar:
			ctx.SetVarb(srcNames[j], V{base + 1, ast.Int})
			rhs = append(rhs, wIdent(srcNames[j]))
			flat = append(flat, base+1)
		case wmUndef:
			rhs = append(rhs, wIdent("undefined_name"))
			undef = true
		default:
			cnt := k - wmCall1 + 1
			vals := make([]V, cnt)
			for c := range vals {
				vals[c] = V{base + 10 + int64(c), ast.Int}
				flat = append(flat, base+10+int64(c))
			}
			rhs = append(rhs, wProbeMulti(ctx, fnNames[j], j+1, vals))
			calls = append(calls, j+1)
		}
	}
	err := RunStmts(ctx, ast.Stmts{wAssign(ast.EQ, lhs, rhs)})
	switch {
	case undef:
		verifnd.Reach("undefined-source")
		verifnd.Assert(err != nil, "undefined-name-on-the-right-is-error")
		return
	case len(flat) != n:
		verifnd.Reach("count-mismatch")
		verifnd.Assert(err != nil, "count-mismatch-is-error")
		return
	}
	verifnd.Reach("counts-match")
	if len(flat) > m {
		verifnd.Reach("multi-value-call-spreads")
	}
	verifnd.Assert(err == nil, "matching-counts-no-error")
	if err != nil {
		return
	}
	okTrace := len(wTrace) == len(calls)
	if okTrace {
		for i := range calls {
			okTrace = okTrace && wTrace[i] == calls[i]
		}
	}
	verifnd.Assert(okTrace, "sources-evaluated-left-to-right-once")
	for i := 0; i < n; i++ {
		if i == 0 && firstIsElem {
			verifnd.Assert(l[1] == any(flat[0]), "element-target-gets-its-value")
			continue
		}
		vb, e := ctx.GetKey(wVarNames[i])
		verifnd.Assert(e == nil, "target-defined")
		if e != nil {
			return
		}
		verifnd.Assert(vb.DType == ast.Int && vb.Value == any(flat[i]), "target-gets-its-value")
	}
}
