package token

import "github.com/GuanceCloud/platypus/internal/verifnd"

// Reference (DESIGN A7): for 0 <= p <= len(s): ln = 1 + #newlines before p,
// col = p - (index of last newline before p, or -1); invalid otherwise.
func verifRefLnCol(q string, pos Pos) (int, int, bool) {
	if pos < 0 || int(pos) > len(q) {
		return 0, 0, false
	}
	ln, last := 1, -1
	for i := 0; i < int(pos); i++ {
		if q[i] == '\n' {
			ln++
			last = i
		}
	}
	return ln, int(pos) - last, true
}

// verifText builds a text of 0..N bytes. alpha=0: arbitrary bytes; alpha=1: bytes
// drawn from the alphabet the property names (a, newline, lead/continuation bytes of
// 2-, 3- and 4-byte runes, one invalid byte).
func verifText(n, alpha int) string {
	if alpha == 0 {
		return verifnd.Bytes(n)
	}
	alphabet := []byte{'a', '\n', 0xC3, 0xA9, 0xE4, 0xB8, 0xAD, 0xF0, 0x9F, 0x98, 0x80, 0xFF}
	b := make([]byte, n)
	for i := range b {
		c := verifnd.Byte()
		ok := false
		for _, a := range alphabet {
			ok = ok || c == a
		}
		verifnd.Assume(ok)
		b[i] = c
	}
	return string(b)
}

// VerifLnCol: C17(a) - both position-lookup routines agree with each other and with
// the reference on every offset (any int64) of every text up to N bytes.
func VerifLnCol() {
	n := verifnd.Int(0, verifnd.Param("N", 2))
	q := verifText(n, verifnd.Param("ALPHA", 0))
	pos := Pos(verifnd.Int64())
	c := NewPosCache(q)
	r := c.LnCol(pos)
	ln, col, err := LnCol(q, pos)
	rl, rc, ok := verifRefLnCol(q, pos)
	if err != nil {
		verifnd.Reach("invalid")
		verifnd.Assert(r == InvalidLnColPos, "cache-invalid")
		verifnd.Assert(!ok, "ref-invalid")
	} else {
		verifnd.Reach("valid")
		verifnd.Assert(r.Ln == ln, "ln-agree")
		verifnd.Assert(r.Col == col, "col-agree")
		verifnd.Assert(r.Pos == pos, "pos")
		verifnd.Assert(ok, "ref-valid")
		verifnd.Assert(rl == ln, "ref-ln")
		verifnd.Assert(rc == col, "ref-col")
		verifnd.Assert(col >= 1, "col-1-based")
	}
}
