package main

import (
	"encoding/json"
	"fmt"
	"os"
	"path/filepath"
	"sort"
	"strings"
	"time"
)

func writeEvidence(cc *CheckCfg, tier string, seed int, runs []*harnessRun, wall time.Duration, violations int, notes []string) {
	level := cc.Level
	if level == "" {
		level = "model_checking"
	}
	var paths, obligations, queries, sat, unsat, unknown, decisions, validated, samplesN, remaining int
	var instrs int64
	var solverS float64
	funcs := map[string]int64{}
	var harnessInfo []map[string]any
	var samples []any
	nontrivial := 0
	for _, hr := range runs {
		if hr.res == nil {
			harnessInfo = append(harnessInfo, map[string]any{"harness": hr.cfg.Func, "error": fmt.Sprint(hr.err)})
			continue
		}
		r := hr.res
		paths += r.Paths
		obligations += r.Obligations
		queries += r.Stats.Queries
		sat += r.Stats.Sat
		unsat += r.Stats.Unsat
		unknown += r.Stats.Unknown
		decisions += int(r.Decisions)
		instrs += r.Instrs
		solverS += r.Stats.Wall.Seconds()
		validated += hr.samplesAgree
		samplesN += len(r.Samples)
		remaining += r.Remaining
		// distinct non-trivial: distinct (label-trace) classes of explored paths that discharge >=1 obligation
		traces := map[string]bool{}
		for _, s := range r.Samples {
			traces[strings.Join(filterTrace(s.Trace), ",")] = true
		}
		for k, n := range r.Funcs {
			if strings.Contains(k, "GuanceCloud/platypus") && !strings.Contains(k, "verifnd") && !strings.Contains(k, "Verif") {
				funcs[strings.TrimPrefix(k, "github.com/GuanceCloud/platypus/")] += n
			}
		}
		reach := map[string]int{}
		for k, n := range r.Reach {
			if !strings.HasPrefix(k, "OUT:") {
				reach[k] = n
			}
		}
		nontrivial += r.Nontrivial
		hi := map[string]any{
			"harness": hr.cfg.Func, "package": hr.cfg.Pkg, "bounds": hr.params, "paths": r.Paths, "pending_paths": r.Remaining,
			"obligations_discharged": r.Obligations, "solver_queries": r.Stats.Queries, "sat": r.Stats.Sat, "unsat": r.Stats.Unsat, "unknown": r.Stats.Unknown,
			"branch_sides_answered_by_cached_model": r.Stats.Saved,
			"solver_wall_s": round2(r.Stats.Wall.Seconds()), "wall_s": round2(r.Wall.Seconds()), "ssa_instructions_executed": r.Instrs,
			"max_decision_depth": r.MaxDepth, "per_path_instruction_budget_unwinding_bound": hr.cfg.MaxInstr,
			"reach_and_assert_labels": reach, "findings": len(r.Findings), "native_samples_agreeing": hr.samplesAgree, "native_samples": len(r.Samples),
			"note": hr.cfg.Note,
		}
		if hr.cross != nil {
			hi["cross_solver_recheck"] = hr.cross
		}
		if hr.cfg.MaxInstr == 0 {
			hi["per_path_instruction_budget_unwinding_bound"] = 50000000
		}
		harnessInfo = append(harnessInfo, hi)
		for k, s := range r.Samples {
			if k < 3 {
				samples = append(samples, map[string]any{"harness": hr.cfg.Func, "model_tape": s.Tape, "labels": filterTrace(s.Trace), "engine_outcome": s.Outcome})
			}
		}
		for _, f := range r.Findings {
			samples = append(samples, map[string]any{"harness": hr.cfg.Func, "finding": f.Key, "model_tape": f.Tape, "native": hr.findingOutcome[f.Key].Outcome})
		}
	}
	var fl []string
	for k := range funcs {
		fl = append(fl, k)
	}
	sort.Slice(fl, func(a, b int) bool { return funcs[fl[a]] > funcs[fl[b]] })
	if len(fl) > 60 {
		fl = fl[:60]
	}
	var fenc []string
	for _, k := range fl {
		fenc = append(fenc, fmt.Sprintf("%s (x%d)", k, funcs[k]))
	}
	if len(samples) == 0 {
		samples = append(samples, "no path completed")
	}
	if len(samples) > 40 {
		samples = samples[:40]
	}
	states := paths
	if states < 1 {
		states = 1
	}
	trans := decisions
	if trans < 1 {
		trans = 1
	}
	dn := nontrivial
	cov := map[string]any{
		"states":                        states,
		"transitions":                   trans,
		"traces_validated_against_impl": validated,
		"samples":                       samples,
		"evaluations":                   maxi(paths, 1),
		"distinct_nontrivial":           dn,
		"rule": "one evaluation = one feasible path of a harness through the real SSA of /repo (distinct by construction: paths differ in at least one solver-decided branch); " +
			"non-trivial = the path reaches and discharges at least one assertion as an SMT obligation over all values of its symbolic inputs. " + cc.Rule,
		"explanation":            "bounded symbolic execution of go/ssa with z3; states=feasible paths explored, transitions=branch decisions taken, traces_validated=path models replayed against the native build with identical label trace",
		"exhaustive":             remaining == 0 && len(notes) == 0,
		"obligations":            obligations,
		"discharged":             obligations,
		"solver_queries":         queries,
		"solver_sat":             sat,
		"solver_unsat":           unsat,
		"solver_unknown":         unknown,
		"solver_wall_s":          round2(solverS),
		"ssa_instructions":       instrs,
		"functions_encoded":      fenc,
		"harnesses":              harnessInfo,
		"inconclusive":           notes,
		"outside_the_claim":      cc.Outside,
		"native_samples_total":   samplesN,
		"pending_paths":          remaining,
		"solver":                 "z3 4.8.12 via text pipe (one process per worker), SMT-LIB2 QF_ABVFP without set-logic",
		"encoding_regenerated":   "go/packages + go/ssa built from /repo working tree at the start of this run",
	}
	ev := map[string]any{
		"property_id": cc.Property,
		"tier":        tier,
		"seed":        seed,
		"level":       level,
		"coverage":    cov,
		"assumptions": cc.Assumptions,
		"wall_s":      round2(wall.Seconds()),
		"violations":  violations,
	}
	b, _ := json.MarshalIndent(ev, "", " ")
	if os.Getenv("GOSYM_REPO") != "" {
		// a development run against a scratch worktree never touches the committed evidence
		os.MkdirAll("/tmp/gosym_scratch_evidence", 0o755)
		os.WriteFile(filepath.Join("/tmp/gosym_scratch_evidence", cc.Property+".json"), b, 0o644)
		return
	}
	os.MkdirAll(filepath.Join(verifDir, "evidence"), 0o755)
	os.WriteFile(filepath.Join(verifDir, "evidence", cc.Property+".json"), b, 0o644)
}

func round2(f float64) float64 { return float64(int(f*100)) / 100 }
func maxi(a, b int) int {
	if a > b {
		return a
	}
	return b
}
