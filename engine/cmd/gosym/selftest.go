package main

import "fmt"

func cmdSelftest(args []string) int {
	fmt.Println("selftest: TODO")
	return 0
}
