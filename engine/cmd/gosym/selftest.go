package main

import (
	"fmt"
	"time"
)

// cmdSelftest runs the engine on small harnesses with known verdicts: lemmas that must be
// proved, planted defects that must be found with a model, one run-time panic, and the
// ownership monitor (use after sync.Pool.Put, locked and unlocked shared writes).
func cmdSelftest(args []string) int {
	l, err := loadProgram([]string{"internal/verifself"})
	if err != nil {
		fmt.Println("selftest: cannot load:", err)
		return 1
	}
	type exp struct {
		fn      string
		finding string // expected finding key prefix, "" = none
		reach   string
	}
	cases := []exp{
		{"SelfTwin", "ASSERT:twin", "R:big"},
		{"SelfWrap", "ASSERT:no-overflow", ""},
		{"SelfXor", "", "R:done"},
		{"SelfFloat", "ASSERT:int-to-float-injective", ""},
		{"SelfIndex", "PANIC:", ""},
		{"SelfStrings", "", "R:done"},
		{"SelfSyncMap", "", "R:done"},
		{"SelfPoolUse", "SHAREDWRITE:read", ""},
		{"SelfPoolOK", "", "R:done"},
		{"SelfUnlockedWrite", "SHAREDWRITE:store", ""},
		{"SelfFmtVerb", "", "R:done"},
		{"SelfFmtRecursion", "UNWIND:", ""},
		{"SelfTypedJSON", "", "R:done"},
		{"SelfFprintf", "", "R:done"},
		{"SelfTypeAssert", "PANIC:", ""},
		{"SelfGlobStat", "", "R:done"},
	}
	fail := 0
	for _, c := range cases {
		res, err := explore(l, HarnessCfg{Pkg: "internal/verifself", Func: c.fn}, nil, 120*time.Second, false)
		if err != nil {
			fmt.Println("selftest:", c.fn, err)
			fail++
			continue
		}
		ok := res.Remaining == 0 && !res.TimedOut && len(res.Inconclusive) == 0
		if c.finding == "" {
			ok = ok && len(res.Findings) == 0
		} else {
			found := false
			for _, f := range res.Findings {
				if len(f.Key) >= len(c.finding) && f.Key[:len(c.finding)] == c.finding {
					found = true
				}
			}
			ok = ok && found
		}
		if c.reach != "" && res.Reach[c.reach] == 0 {
			ok = false
		}
		if c.fn == "SelfWrap" && ok {
			ok = len(res.Findings) == 1 && len(res.Findings[0].Tape) == 1 && res.Findings[0].Tape[0] == 9223372036854775807
		}
		status := "ok"
		if !ok {
			status = "FAILED"
			fail++
		}
		fmt.Printf("selftest %-12s paths=%d queries=%d findings=%d %s\n", c.fn, res.Paths, res.Stats.Queries, len(res.Findings), status)
	}
	if fail > 0 {
		fmt.Println("selftest: FAILED")
		return 1
	}
	fmt.Println("selftest: ok")
	return 0
}
