package main

// Native replay: the same harness functions compiled into the real build and
// driven by a tape of concrete values taken from solver models.

import (
	"bufio"
	"bytes"
	"encoding/json"
	"fmt"
	"os"
	"os/exec"
	"path/filepath"
	"sort"
	"strings"
	"time"
)

type replayCase struct {
	ID      int            `json:"id"`
	Harness string         `json:"harness"`
	Tape    []int64        `json:"tape"`
	Params  map[string]int `json:"params"`
}

type replayOutcome struct {
	ID      int      `json:"id"`
	Outcome string   `json:"outcome"` // ok | assert:<label> | panic:<msg> | assume | tape | timeout | crash | notrun
	Trace   []string `json:"trace"`
	Msg     string   `json:"msg,omitempty"`
}

const replayTestTmpl = `package %s

import (
	"encoding/json"
	"fmt"
	"os"
	"testing"
	"time"

	"github.com/GuanceCloud/platypus/internal/verifnd"
)

var verifHarnessTable = map[string]func(){
%s}

type verifCase struct {
	ID      int            ` + "`json:\"id\"`" + `
	Harness string         ` + "`json:\"harness\"`" + `
	Tape    []int64        ` + "`json:\"tape\"`" + `
	Params  map[string]int ` + "`json:\"params\"`" + `
}

type verifOutcome struct {
	ID      int      ` + "`json:\"id\"`" + `
	Outcome string   ` + "`json:\"outcome\"`" + `
	Trace   []string ` + "`json:\"trace\"`" + `
	Msg     string   ` + "`json:\"msg,omitempty\"`" + `
}

func verifRunOne(c verifCase) (out verifOutcome) {
	out.ID = c.ID
	defer func() {
		out.Trace = verifnd.Trace
		if r := recover(); r != nil {
			switch p := r.(type) {
			case verifnd.AssertFailed:
				out.Outcome = "assert:" + p.Label
			case verifnd.AssumeViolated:
				out.Outcome = "assume"
			case verifnd.TapeExhausted:
				out.Outcome = "tape"
			default:
				out.Outcome = "panic"
				out.Msg = fmt.Sprint(r)
			}
		}
	}()
	f := verifHarnessTable[c.Harness]
	if f == nil {
		out.Outcome = "noharness"
		return
	}
	verifnd.Reset(c.Tape, c.Params)
	f()
	out.Outcome = "ok"
	return
}

func TestVerifReplay(t *testing.T) {
	data, err := os.ReadFile(os.Getenv("VERIF_TAPES"))
	if err != nil {
		t.Fatal(err)
	}
	var cases []verifCase
	if err := json.Unmarshal(data, &cases); err != nil {
		t.Fatal(err)
	}
	for _, c := range cases {
		done := make(chan verifOutcome, 1)
		go func() { done <- verifRunOne(c) }()
		var out verifOutcome
		select {
		case out = <-done:
		case <-time.After(%d * time.Second):
			out = verifOutcome{ID: c.ID, Outcome: "timeout"}
			b, _ := json.Marshal(out)
			fmt.Printf("VERIF-REPLAY %%s\n", b)
			os.Stdout.Sync()
			os.Exit(0) // the runaway goroutine would corrupt later cases
		}
		b, _ := json.Marshal(out)
		fmt.Printf("VERIF-REPLAY %%s\n", b)
	}
}
`

// runNative executes the cases of one package natively and returns outcomes by id.
func runNative(pkgDir string, pkgName string, harnessFuncs []string, cases []replayCase, timeoutS int) (map[int]replayOutcome, string, error) {
	res := map[int]replayOutcome{}
	if len(cases) == 0 {
		return res, "", nil
	}
	scratch, err := os.MkdirTemp("", "gosym-replay-")
	if err != nil {
		return nil, "", err
	}
	defer os.RemoveAll(scratch)
	sort.Strings(harnessFuncs)
	var tbl strings.Builder
	for _, f := range harnessFuncs {
		fmt.Fprintf(&tbl, "\t%q: %s,\n", f, f)
	}
	testSrc := fmt.Sprintf(replayTestTmpl, pkgName, tbl.String(), timeoutS)
	testFile := filepath.Join(scratch, "replay_test.go")
	if err := os.WriteFile(testFile, []byte(testSrc), 0o644); err != nil {
		return nil, "", err
	}
	ov := map[string]string{}
	for virt, real := range overlayFiles() {
		ov[virt] = real
	}
	ov[filepath.Join(repoDir, pkgDir, "zz_verif_replay_test.go")] = testFile
	ovJSON, _ := json.Marshal(map[string]any{"Replace": ov})
	ovFile := filepath.Join(scratch, "overlay.json")
	os.WriteFile(ovFile, ovJSON, 0o644)

	remaining := cases
	var logAll bytes.Buffer
	for attempt := 0; len(remaining) > 0 && attempt < len(cases)+2; attempt++ {
		tapes := filepath.Join(scratch, "tapes.json")
		b, _ := json.Marshal(remaining)
		os.WriteFile(tapes, b, 0o644)
		cmd := exec.Command("go", "test", "-v", "-vet=off", "-count=1", "-overlay", ovFile, "-run", "^TestVerifReplay$", "-timeout", "20m", "./"+pkgDir)
		cmd.Dir = repoDir
		cmd.Env = append(os.Environ(), "GOFLAGS=-mod=mod", "GOPROXY=off", "GOSUMDB=off", "GOTOOLCHAIN=local", "VERIF_TAPES="+tapes,
			"GOMEMLIMIT=4GiB")
		var outb bytes.Buffer
		cmd.Stdout = &outb
		cmd.Stderr = &outb
		done := make(chan error, 1)
		go func() { done <- cmd.Run() }()
		select {
		case <-done:
		case <-time.After(25 * time.Minute):
			cmd.Process.Kill()
		}
		logAll.Write(outb.Bytes())
		outStr := outb.String() // (the scanner below drains outb)
		got := 0
		sawTimeout := false
		sc := bufio.NewScanner(&outb)
		sc.Buffer(make([]byte, 1<<20), 1<<26)
		for sc.Scan() {
			line := sc.Text()
			if idx := strings.Index(line, "VERIF-REPLAY "); idx >= 0 {
				var o replayOutcome
				if json.Unmarshal([]byte(line[idx+len("VERIF-REPLAY "):]), &o) == nil {
					res[o.ID] = o
					got++
					if o.Outcome == "timeout" {
						sawTimeout = true
					}
				}
			}
		}
		// drop the cases that produced output; if the process died, the first
		// case without output is the one that crashed it.
		var rest []replayCase
		crashedMarked := false
		for _, c := range remaining {
			if _, ok := res[c.ID]; ok {
				continue
			}
			if !crashedMarked && !sawTimeout {
				crashedMarked = true
				if strings.Contains(logAll.String(), "[build failed]") || strings.Contains(logAll.String(), "[setup failed]") {
					return res, logAll.String(), fmt.Errorf("native build failed")
				}
				msg := lastLines(outStr, 12)
				if strings.Contains(outStr, "fatal error: stack overflow") {
					msg = "fatal error: stack overflow\n" + msg
				}
				res[c.ID] = replayOutcome{ID: c.ID, Outcome: "crash", Msg: msg}
				continue
			}
			rest = append(rest, c)
		}
		remaining = rest
		_ = got
	}
	return res, logAll.String(), nil
}

func lastLines(s string, n int) string {
	lines := strings.Split(strings.TrimSpace(s), "\n")
	// prefer the fatal/panic header
	for i, l := range lines {
		if strings.HasPrefix(l, "fatal error:") || strings.HasPrefix(l, "panic:") || strings.HasPrefix(l, "runtime:") {
			end := i + n
			if end > len(lines) {
				end = len(lines)
			}
			return strings.Join(lines[i:end], "\n")
		}
	}
	if len(lines) > n {
		lines = lines[len(lines)-n:]
	}
	return strings.Join(lines, "\n")
}
