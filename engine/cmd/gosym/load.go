package main

import (
	"fmt"
	"os"
	"path/filepath"
	"sort"
	"strings"

	"golang.org/x/tools/go/packages"
	"golang.org/x/tools/go/ssa"
	"golang.org/x/tools/go/ssa/ssautil"
)

const (
	verifDir   = "/verif"
	modulePath = "github.com/GuanceCloud/platypus"
)

// repoDir is /repo; GOSYM_REPO redirects a development run to a scratch worktree (used only to
// try seeded changes without disturbing /repo; registered checks never set it).
var repoDir = func() string {
	if d := os.Getenv("GOSYM_REPO"); d != "" {
		return d
	}
	return "/repo"
}()

// overlayFiles maps virtual paths under /repo to real harness files under /verif/harness.
//
//	/verif/harness/verifnd/*.go      -> /repo/internal/verifnd/*.go
//	/verif/harness/<pkgdir>/<f>.go   -> /repo/<pkgdir>/zz_verif_<f>.go
// droppedHarness: harness files (virtual path -> first compile error) that do not compile against
// the tree under check, e.g. because a change renamed an unexported field one harness looks at.
// They are left out of the overlay - the harnesses defined in them are reported INCONCLUSIVE - so
// that the other harnesses of the package still decide their obligations.
var droppedHarness = map[string]string{}

func overlayFiles() map[string]string {
	out := allOverlayFiles()
	for virt := range droppedHarness {
		delete(out, virt)
	}
	return out
}

func allOverlayFiles() map[string]string {
	out := map[string]string{}
	roots := []string{filepath.Join(verifDir, "harness")}
	// GOSYM_HARNESS_EXTRA: additional private harness roots (work in progress of one developer)
	for _, r := range strings.Split(os.Getenv("GOSYM_HARNESS_EXTRA"), ":") {
		if r != "" {
			roots = append(roots, r)
		}
	}
	for ri, root := range roots {
		root := root
		prefix := "zz_verif_"
		if ri > 0 {
			prefix = fmt.Sprintf("zz_verif_x%d_", ri)
		}
		filepath.Walk(root, func(p string, info os.FileInfo, err error) error {
			if err != nil || info.IsDir() || !strings.HasSuffix(p, ".go") {
				return nil
			}
			rel, _ := filepath.Rel(root, p)
			dir, file := filepath.Split(rel)
			dir = strings.TrimSuffix(dir, "/")
			if dir == "verifnd" {
				out[filepath.Join(repoDir, "internal/verifnd", file)] = p
			} else {
				out[filepath.Join(repoDir, dir, prefix+file)] = p
			}
			return nil
		})
	}
	return out
}

type loaded struct {
	prog *ssa.Program
	pkgs map[string]*ssa.Package // by import path
}

func loadProgram(pkgDirs []string) (*loaded, error) {
	var pkgs []*packages.Package
	for attempt := 0; ; attempt++ {
		ov := map[string][]byte{}
		for virt, real := range overlayFiles() {
			b, err := os.ReadFile(real)
			if err != nil {
				return nil, err
			}
			ov[virt] = b
		}
		env := append(os.Environ(), "GOFLAGS=-mod=mod", "GOPROXY=off", "GOSUMDB=off", "GOTOOLCHAIN=local")
		cfg := &packages.Config{Mode: packages.LoadAllSyntax, Dir: repoDir, Overlay: ov, Env: env}
		pats := []string{}
		seen := map[string]bool{}
		for _, d := range pkgDirs {
			if !seen[d] {
				seen[d] = true
				pats = append(pats, "./"+d)
			}
		}
		sort.Strings(pats)
		var err error
		pkgs, err = packages.Load(cfg, pats...)
		if err != nil {
			return nil, err
		}
		nerr, dropped := 0, 0
		packages.Visit(pkgs, nil, func(p *packages.Package) {
			for _, e := range p.Errors {
				nerr++
				// an error located in a harness file (not in verifnd): drop that file and retry
				file := e.Pos
				if k := strings.Index(file, ".go:"); k >= 0 {
					file = file[:k+3]
				}
				if _, isOv := ov[file]; isOv && strings.Contains(filepath.Base(file), "zz_verif_") && attempt < 6 {
					if _, already := droppedHarness[file]; !already {
						droppedHarness[file] = e.Msg
						fmt.Fprintln(os.Stderr, "harness file does not compile against this tree, dropped:", e)
						dropped++
					}
					continue
				}
				fmt.Fprintln(os.Stderr, "load error:", e)
			}
		})
		if nerr == 0 {
			break
		}
		if dropped == 0 {
			return nil, fmt.Errorf("%d package load errors", nerr)
		}
	}
	prog, _ := ssautil.AllPackages(pkgs, ssa.InstantiateGenerics)
	prog.Build()
	l := &loaded{prog: prog, pkgs: map[string]*ssa.Package{}}
	for _, p := range prog.AllPackages() {
		l.pkgs[p.Pkg.Path()] = p
	}
	return l, nil
}

func importPath(pkgDir string) string {
	if st, err := os.Stat(filepath.Join(repoDir, pkgDir)); err == nil && st.IsDir() {
		return modulePath + "/" + pkgDir
	}
	if strings.HasPrefix(pkgDir, "internal/verif") {
		return modulePath + "/" + pkgDir // virtual overlay package
	}
	return pkgDir // standard library or third-party import path given verbatim
}
