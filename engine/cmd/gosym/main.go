// gosym: solver-based checking of GuanceCloud/platypus.
//
//	gosym run <pkgdir> <Func> [-p name=val ...]      explore one harness (development)
//	gosym check <Cxx> [--tier quick|thorough]         run a registered check, write evidence
//	gosym replay <file>                               replay a recorded counterexample natively
//	gosym selftest                                    engine self-test (vacuity twins, known-bad kernels)
package main

import (
	"os/exec"
	"sync"
	"encoding/json"
	"flag"
	"fmt"
	"os"
	"path/filepath"
	"regexp"
	"runtime"
	"sort"
	"strconv"
	"strings"
	"time"

	"golang.org/x/tools/go/ssa"

	"gosym/symexec"
)

type HarnessCfg struct {
	Pkg         string           `json:"pkg"`
	Func        string           `json:"func"`
	Quick       map[string]int64 `json:"quick"`
	Thorough    map[string]int64 `json:"thorough"`
	Init        []string         `json:"init"`
	MaxInstr    int64            `json:"max_instr"`
	EagerTables bool             `json:"eager_tables"`
	TimeoutS    int              `json:"timeout_s"`
	ThoroughS   int              `json:"thorough_timeout_s"`
	Reach       []string         `json:"reach"`
	Note        string           `json:"note"`
	ThoroughOnly bool            `json:"thorough_only"`
	// OnlyKinds: finding kinds that count for THIS property (a harness shared with another
	// property may assert more than this property states); empty = all kinds
	OnlyKinds []string `json:"only_kinds"`
	// OnlyLabels: besides the kinds above, ASSERT findings whose label contains one of these
	// substrings count
	OnlyLabels []string `json:"only_labels"`
	ReplayRepeat int             `json:"replay_repeat"`
}

type CheckCfg struct {
	Property    string       `json:"property"`
	Level       string       `json:"level"`
	Harnesses   []HarnessCfg `json:"harnesses"`
	Assumptions []string     `json:"assumptions"`
	Rule        string       `json:"rule"`
	Outside     []string     `json:"outside"`
}

func main() {
	if len(os.Args) < 2 {
		fmt.Fprintln(os.Stderr, "usage: gosym run|check|replay|selftest ...")
		os.Exit(2)
	}
	switch os.Args[1] {
	case "run":
		cmdRun(os.Args[2:])
	case "check":
		os.Exit(cmdCheck(os.Args[2:]))
	case "replay":
		os.Exit(cmdReplay(os.Args[2:]))
	case "selftest":
		os.Exit(cmdSelftest(os.Args[2:]))
	default:
		fmt.Fprintln(os.Stderr, "unknown command", os.Args[1])
		os.Exit(2)
	}
}

func findHarness(l *loaded, pkgDir, fn string) (*ssa.Function, []*ssa.Function, []string, error) {
	ip := importPath(pkgDir)
	p := l.pkgs[ip]
	if p == nil {
		return nil, nil, nil, fmt.Errorf("package %s not loaded", ip)
	}
	f := p.Func(fn)
	if f == nil {
		for virt, msg := range droppedHarness {
			if strings.HasPrefix(virt, filepath.Join(repoDir, pkgDir)+"/") {
				return nil, nil, nil, fmt.Errorf("cannot load: harness %s is not available, a harness file of its package does not compile against this tree (%s: %s)", fn, filepath.Base(virt), msg)
			}
		}
		return nil, nil, nil, fmt.Errorf("function %s.%s not found", ip, fn)
	}
	return f, nil, nil, nil
}

// initOrder returns the init functions of the wanted packages in dependency order.
func initOrder(l *loaded, root *ssa.Package, want map[string]bool) []*ssa.Function {
	var out []*ssa.Function
	seen := map[string]bool{}
	var visit func(p *ssa.Package)
	visit = func(p *ssa.Package) {
		if p == nil || seen[p.Pkg.Path()] {
			return
		}
		seen[p.Pkg.Path()] = true
		for _, imp := range p.Pkg.Imports() {
			visit(l.pkgs[imp.Path()])
		}
		if want[p.Pkg.Path()] {
			if f := p.Func("init"); f != nil {
				out = append(out, f)
			}
		}
	}
	visit(root)
	return out
}

func defaultInits(pkgDir string, extra []string) map[string]bool {
	want := map[string]bool{importPath(pkgDir): true, "unicode/utf8": true, "strconv": true, "io": true, "strings": true}
	for _, e := range extra {
		want[importPath(e)] = true
	}
	return want
}

var crossDumpDir string // set by cmdCheck in the thorough tier

func explore(l *loaded, h HarnessCfg, params map[string]int64, deadline time.Duration, verbose bool) (*symexec.Result, error) {
	f, _, _, err := findHarness(l, h.Pkg, h.Func)
	if err != nil {
		return nil, err
	}
	want := defaultInits(h.Pkg, h.Init)
	// every package of the module that the harness package imports (transitively)
	var addDeps func(p *ssa.Package)
	seenDeps := map[string]bool{}
	addDeps = func(p *ssa.Package) {
		if p == nil || seenDeps[p.Pkg.Path()] {
			return
		}
		seenDeps[p.Pkg.Path()] = true
		if strings.HasPrefix(p.Pkg.Path(), modulePath) && !strings.HasSuffix(p.Pkg.Path(), "internal/verifnd") {
			want[p.Pkg.Path()] = true
		}
		for _, imp := range p.Pkg.Imports() {
			if strings.HasPrefix(imp.Path(), modulePath) {
				addDeps(l.pkgs[imp.Path()])
			}
		}
	}
	addDeps(f.Pkg)
	inits := initOrder(l, f.Pkg, want)
	var initPkgs []string
	for p := range want {
		initPkgs = append(initPkgs, p)
	}
	cfg := &symexec.Config{
		Workers:     runtime.NumCPU(),
		Params:      params,
		MaxInstr:    h.MaxInstr,
		EagerTables: h.EagerTables,
		Verbose:     verbose,
		InitPkgs:    initPkgs,
		DumpDir:     crossDumpDir,
	}
	if w := os.Getenv("GOSYM_WORKERS"); w != "" {
		cfg.Workers, _ = strconv.Atoi(w)
	}
	if deadline > 0 {
		cfg.Deadline = time.Now().Add(deadline)
	}
	return symexec.Explore(l.prog, f, inits, cfg), nil
}

func cmdRun(args []string) {
	fs := flag.NewFlagSet("run", flag.ExitOnError)
	var ps multiFlag
	fs.Var(&ps, "p", "harness parameter name=value")
	tmo := fs.Int("timeout", 600, "seconds")
	verbose := fs.Bool("v", false, "verbose aborts")
	eager := fs.Bool("eager", false, "concretise constant-table lookups at once")
	native := fs.Bool("native", false, "also run samples and findings natively")
	maxInstr := fs.Int64("maxinstr", 0, "per-path instruction budget")
	var inits multiFlag
	fs.Var(&inits, "init", "extra package whose init is interpreted")
	fs.Parse(args)
	rest := fs.Args()
	if len(rest) < 2 {
		fmt.Fprintln(os.Stderr, "usage: gosym run [flags] <pkgdir> <Func>")
		os.Exit(2)
	}
	params := map[string]int64{}
	for _, p := range ps {
		kv := strings.SplitN(p, "=", 2)
		v, _ := strconv.ParseInt(kv[1], 10, 64)
		params[kv[0]] = v
	}
	t0 := time.Now()
	h := HarnessCfg{Pkg: rest[0], Func: rest[1], EagerTables: *eager, Init: inits, MaxInstr: *maxInstr}
	l, err := loadProgram(append([]string{rest[0]}, nil...))
	if err != nil {
		fmt.Fprintln(os.Stderr, err)
		os.Exit(2)
	}
	fmt.Printf("load+ssa %.1fs\n", time.Since(t0).Seconds())
	res, err := explore(l, h, params, time.Duration(*tmo)*time.Second, *verbose)
	if err != nil {
		fmt.Fprintln(os.Stderr, err)
		os.Exit(2)
	}
	printResult(res)
	if *native {
		hr := &harnessRun{cfg: h, res: res, params: params}
		nativePhase("DEV", []*harnessRun{hr})
		for _, f := range res.Findings {
			fmt.Printf("  native[%s] -> %s\n", f.Key, hr.findingOutcome[f.Key].Outcome)
		}
		fmt.Printf("samples validated natively: %d/%d mismatches=%v\n", hr.samplesAgree, len(res.Samples), hr.mismatches)
	}
}

type multiFlag []string

func (m *multiFlag) String() string     { return strings.Join(*m, ",") }
func (m *multiFlag) Set(s string) error { *m = append(*m, s); return nil }

func printResult(res *symexec.Result) {
	st := res.Stats
	fmt.Printf("paths=%d remaining=%d timedout=%v obligations=%d queries=%d (sat %d unsat %d unknown %d err %d) saved=%d solver=%.1fs wall=%.1fs instrs=%d maxdepth=%d\n",
		res.Paths, res.Remaining, res.TimedOut, res.Obligations, st.Queries, st.Sat, st.Unsat, st.Unknown, st.Errors, st.Saved, st.Wall.Seconds(), res.Wall.Seconds(), res.Instrs, res.MaxDepth)
	var labels []string
	for k := range res.Reach {
		labels = append(labels, k)
	}
	sort.Strings(labels)
	for _, k := range labels {
		if !strings.HasPrefix(k, "OUT:") {
			fmt.Printf("  reach %-40s %d\n", k, res.Reach[k])
		}
	}
	for _, f := range res.Findings {
		fmt.Printf("FINDING %s x%d tape=%v\n   stack=%v\n", f.Key, f.Count, f.Tape, tailS(f.Stack, 5))
	}
	for k, n := range res.Inconclusive {
		fmt.Printf("INCONCLUSIVE x%d %s\n", n, k)
	}
}

func tailS(s []string, n int) []string {
	if len(s) > n {
		return s[len(s)-n:]
	}
	return s
}

// ------------------------------------------------------------------ check

type harnessRun struct {
	cross          *crossResult
	cfg            HarnessCfg
	params         map[string]int64
	res            *symexec.Result
	err            error
	findingOutcome map[string]replayOutcome
	samplesAgree   int
	mismatches     []string
	nativeFailures []nativeFailure
}

type nativeFailure struct {
	tape    []int64
	outcome replayOutcome
}

var sanitizeRe = regexp.MustCompile(`[^A-Za-z0-9_.-]+`)

func sanitize(s string) string {
	s = sanitizeRe.ReplaceAllString(s, "_")
	if len(s) > 100 {
		s = s[:100]
	}
	return s
}

func pkgNameOf(pkgDir string) string {
	// package name = last path element, except known deviations
	switch pkgDir {
	case "internal/cmd/platypus/run":
		return "run"
	}
	return filepath.Base(pkgDir)
}

func intParams(p map[string]int64) map[string]int {
	out := map[string]int{}
	for k, v := range p {
		out[k] = int(v)
	}
	return out
}

// nativePhase replays findings and path samples of all harness runs, one go test per package.
func nativePhase(prop string, runs []*harnessRun) {
	byPkg := map[string][]*harnessRun{}
	for _, r := range runs {
		if r.res != nil {
			byPkg[r.cfg.Pkg] = append(byPkg[r.cfg.Pkg], r)
		}
	}
	for pkgDir, rs := range byPkg {
		var cases []replayCase
		type ref struct {
			r      *harnessRun
			key    string // finding key or ""
			sample int
		}
		refs := map[int]ref{}
		funcs := map[string]bool{}
		id := 0
		for _, r := range rs {
			funcs[r.cfg.Func] = true
			r.findingOutcome = map[string]replayOutcome{}
			for _, f := range r.res.Findings {
				rep := r.cfg.ReplayRepeat
				if rep <= 0 {
					rep = 1
				}
				for k := 0; k < rep; k++ {
					id++
					cases = append(cases, replayCase{ID: id, Harness: r.cfg.Func, Tape: f.Tape, Params: intParams(r.params)})
					refs[id] = ref{r: r, key: f.Key}
				}
			}
			for si, s := range r.res.Samples {
				id++
				cases = append(cases, replayCase{ID: id, Harness: r.cfg.Func, Tape: s.Tape, Params: intParams(r.params)})
				refs[id] = ref{r: r, sample: si}
			}
		}
		var fl []string
		for f := range funcs {
			fl = append(fl, f)
		}
		// every harness function of the package must be in the table only if used
		outs, log, err := runNative(pkgDir, pkgNameOf(pkgDir), fl, cases, 60)
		if err != nil {
			for _, r := range rs {
				r.mismatches = append(r.mismatches, "native run failed: "+err.Error()+": "+lastLines(log, 15))
			}
			continue
		}
		for cid, rf := range refs {
			o, ok := outs[cid]
			if !ok {
				o = replayOutcome{ID: cid, Outcome: "notrun"}
			}
			if rf.key != "" {
				prev, seen := rf.r.findingOutcome[rf.key]
				if !seen || (!isFailure(prev.Outcome) && isFailure(o.Outcome)) {
					rf.r.findingOutcome[rf.key] = o
				}
				continue
			}
			s := rf.r.res.Samples[rf.sample]
			wantFail := s.Outcome == "panic"
			switch {
			case !wantFail && o.Outcome == "ok" && sameTrace(s.Trace, o.Trace):
				rf.r.samplesAgree++
			case wantFail && (o.Outcome == "panic" || o.Outcome == "crash"):
				rf.r.samplesAgree++
			case !wantFail && isFailure(o.Outcome):
				rf.r.nativeFailures = append(rf.r.nativeFailures, nativeFailure{tape: s.Tape, outcome: o})
			default:
				rf.r.mismatches = append(rf.r.mismatches, fmt.Sprintf("sample tape=%v engine=%s/%v native=%s/%v %s", s.Tape, s.Outcome, filterTrace(s.Trace), o.Outcome, o.Trace, o.Msg))
			}
		}
		// A finding that did not reproduce in the shared test process is tried once more alone in a
		// fresh process: state that earlier cases left in process-wide pools and caches (sync.Pool)
		// can mask a history-dependent defect that needs a FRESH process to show.
		solo := 0
		for cid, rf := range refs {
			if rf.key == "" || solo >= 8 {
				continue
			}
			if prev, seen := rf.r.findingOutcome[rf.key]; seen && isFailure(prev.Outcome) {
				continue
			}
			var one []replayCase
			for _, c := range cases {
				if c.ID == cid {
					one = append(one, c)
				}
			}
			if len(one) != 1 {
				continue
			}
			solo++
			outs1, _, err1 := runNative(pkgDir, pkgNameOf(pkgDir), fl, one, 60)
			if err1 != nil {
				continue
			}
			if o, ok := outs1[cid]; ok && isFailure(o.Outcome) {
				rf.r.findingOutcome[rf.key] = o
			}
		}
	}
}

func isFailure(o string) bool {
	return strings.HasPrefix(o, "assert:") || o == "panic" || o == "crash" || o == "timeout"
}

func filterTrace(t []string) []string {
	var out []string
	for _, x := range t {
		if !strings.HasPrefix(x, "OUT:") {
			out = append(out, x)
		}
	}
	return out
}

func sameTrace(a, b []string) bool {
	a = filterTrace(a)
	if len(a) != len(b) {
		return false
	}
	for i := range a {
		if a[i] != b[i] {
			return false
		}
	}
	return true
}

// confirms reports whether the native outcome reproduces the engine finding.
func confirms(f *symexec.Finding, o replayOutcome) bool {
	switch f.Kind {
	case "ASSERT":
		return strings.HasPrefix(o.Outcome, "assert:")
	case "PANIC":
		return o.Outcome == "panic" || o.Outcome == "crash"
	case "UNWIND":
		// non-termination: natively a timeout, or - for unbounded recursion - the Go runtime's
		// fatal stack overflow, which kills the test process
		return o.Outcome == "timeout" || (o.Outcome == "crash" && strings.Contains(o.Msg, "stack overflow"))
	case "SHAREDWRITE":
		// an engine observation on a path: confirmed when the same inputs take the same
		// path natively (the write itself is not observable from a test)
		return o.Outcome == "ok" || o.Outcome == "tape"
	}
	return false
}

type knownFindings struct {
	known map[string]string // "Cxx key" -> description
}

func loadKnown() *knownFindings {
	k := &knownFindings{known: map[string]string{}}
	b, err := os.ReadFile(filepath.Join(verifDir, "known_findings.txt"))
	if err != nil {
		return k
	}
	re := regexp.MustCompile(`^known:\s+property=(\S+)\s+key=(\S+)\s*(.*)$`)
	for _, line := range strings.Split(string(b), "\n") {
		if m := re.FindStringSubmatch(strings.TrimSpace(line)); m != nil {
			k.known[m[1]+" "+m[2]] = m[3]
		}
	}
	return k
}

func cmdCheck(args []string) int {
	fs := flag.NewFlagSet("check", flag.ExitOnError)
	tier := fs.String("tier", "", "quick|thorough")
	verbose := fs.Bool("v", false, "verbose")
	only := fs.String("only", "", "run only this harness function (development)")
	var prop string
	if len(args) > 0 && !strings.HasPrefix(args[0], "-") {
		prop = args[0]
		args = args[1:]
	}
	fs.Parse(args)
	if prop == "" && fs.NArg() > 0 {
		prop = fs.Arg(0)
	}
	if *tier == "" {
		*tier = os.Getenv("VERIF_TIER")
	}
	if *tier != "thorough" {
		*tier = "quick"
	}
	seed, _ := strconv.Atoi(os.Getenv("VERIF_SEED"))
	t0 := time.Now()
	b, err := os.ReadFile(filepath.Join(verifDir, "checks", prop+".json"))
	if err != nil {
		fmt.Fprintln(os.Stderr, err)
		return 2
	}
	var cc CheckCfg
	if err := json.Unmarshal(b, &cc); err != nil {
		fmt.Fprintln(os.Stderr, "bad check config:", err)
		return 2
	}
	var pkgDirs []string
	var hs []HarnessCfg
	for _, h := range cc.Harnesses {
		if h.ThoroughOnly && *tier != "thorough" {
			continue
		}
		if *only != "" && h.Func != *only {
			continue
		}
		hs = append(hs, h)
		pkgDirs = append(pkgDirs, h.Pkg)
	}
	l, err := loadProgram(pkgDirs)
	if err != nil {
		// The tree does not build with the harnesses: this is not a verdict on the property.
		fmt.Printf("INCONCLUSIVE property=%s cannot load /repo with harnesses: %v\n", prop, err)
		writeEvidence(&cc, *tier, seed, nil, time.Since(t0), 0, []string{"load failed: " + err.Error()})
		return 3
	}
	loadS := time.Since(t0).Seconds()
	var runs []*harnessRun
	for _, h := range hs {
		params := h.Quick
		tmo := h.TimeoutS
		if *tier == "thorough" {
			params = map[string]int64{}
			for k, v := range h.Quick {
				params[k] = v
			}
			for k, v := range h.Thorough {
				params[k] = v
			}
			tmo = h.ThoroughS
			if tmo == 0 {
				tmo = 4 * h.TimeoutS
			}
		}
		if tmo == 0 {
			tmo = 300
		}
		hr := &harnessRun{cfg: h, params: params}
		if *tier == "thorough" || os.Getenv("GOSYM_CROSS") != "" {
			crossDumpDir, _ = os.MkdirTemp("", "gosym-smt2-")
		}
		hr.res, hr.err = explore(l, h, params, time.Duration(tmo)*time.Second, *verbose)
		if crossDumpDir != "" {
			if hr.res != nil {
				hr.cross = crossCheck(crossDumpDir, hr.res.DumpVerdicts)
			}
			os.RemoveAll(crossDumpDir)
			crossDumpDir = ""
		}
		runs = append(runs, hr)
		if hr.err != nil {
			fmt.Printf("INCONCLUSIVE property=%s harness=%s %v\n", prop, h.Func, hr.err)
			continue
		}
		r := hr.res
		fmt.Printf("harness %s params=%v: paths=%d obligations=%d queries=%d(sat %d/unsat %d/unknown %d) findings=%d wall=%.1fs\n",
			h.Func, params, r.Paths, r.Obligations, r.Stats.Queries, r.Stats.Sat, r.Stats.Unsat, r.Stats.Unknown, len(r.Findings), r.Wall.Seconds())
	}
	nativePhase(prop, runs)

	known := loadKnown()
	violations := 0
	var notes []string
	os.MkdirAll(filepath.Join(verifDir, "replay", prop), 0o755)
	for _, hr := range runs {
		if hr.res == nil {
			notes = append(notes, hr.cfg.Func+": "+hr.err.Error())
			continue
		}
		r := hr.res
		if r.TimedOut || r.Remaining > 0 {
			msg := fmt.Sprintf("INCONCLUSIVE property=%s harness=%s exploration incomplete: %d paths pending at the deadline (bound not covered)", prop, hr.cfg.Func, r.Remaining)
			fmt.Println(msg)
			notes = append(notes, msg)
		}
		for why, n := range r.Inconclusive {
			msg := fmt.Sprintf("INCONCLUSIVE property=%s harness=%s x%d %s", prop, hr.cfg.Func, n, why)
			fmt.Println(msg)
			notes = append(notes, msg)
		}
		for _, lbl := range hr.cfg.Reach {
			if r.Reach["R:"+lbl] == 0 && r.Reach["A:"+lbl] == 0 {
				msg := fmt.Sprintf("INCONCLUSIVE property=%s harness=%s vacuous=%s (label reached on no feasible path)", prop, hr.cfg.Func, lbl)
				fmt.Println(msg)
				notes = append(notes, msg)
			}
		}
		if hr.cross != nil {
			for _, d := range hr.cross.Disagreements {
				msg := fmt.Sprintf("INCONCLUSIVE property=%s harness=%s solver disagreement: %s", prop, hr.cfg.Func, d)
				fmt.Println(msg)
				notes = append(notes, msg)
			}
		}
		for _, m := range hr.mismatches {
			msg := fmt.Sprintf("INCONCLUSIVE property=%s harness=%s translator-validation mismatch: %s", prop, hr.cfg.Func, m)
			fmt.Println(msg)
			notes = append(notes, msg)
		}
		counts := func(kind, label string) bool {
			if len(hr.cfg.OnlyKinds) == 0 && len(hr.cfg.OnlyLabels) == 0 {
				return true
			}
			for _, k := range hr.cfg.OnlyKinds {
				if k == kind {
					return true
				}
			}
			if kind == "ASSERT" {
				for _, l := range hr.cfg.OnlyLabels {
					if strings.Contains(label, l) {
						return true
					}
				}
			}
			return false
		}
		for _, f := range r.Findings {
			if !counts(f.Kind, f.Label) {
				continue // decided under the property this harness belongs to
			}
			key := hr.cfg.Func + "/" + f.Key
			o := hr.findingOutcome[f.Key]
			if !confirms(f, o) {
				msg := fmt.Sprintf("INCONCLUSIVE property=%s finding %s unreplayed (native outcome %s %s)", prop, key, o.Outcome, o.Msg)
				fmt.Println(msg)
				notes = append(notes, msg)
				continue
			}
			skey := strings.ReplaceAll(key, " ", "_")
			if desc, ok := known.known[prop+" "+skey]; ok {
				fmt.Printf("KNOWN-FINDING: property=%s key=%s %s\n", prop, skey, desc)
				continue
			}
			path := writeReplay(prop, hr, key, f.Tape, f.Kind+":"+f.Label, o)
			fmt.Printf("VIOLATION property=%s replay=%s\n", prop, path)
			fmt.Printf("  finding %s native=%s %s tape=%v\n", skey, o.Outcome, o.Msg, f.Tape)
			violations++
		}
		for k, nf := range hr.nativeFailures {
			nk := "ASSERT"
			if nf.outcome.Outcome == "panic" || nf.outcome.Outcome == "crash" {
				nk = "PANIC"
			} else if nf.outcome.Outcome == "timeout" {
				nk = "UNWIND"
			}
			if !counts(nk, nf.outcome.Outcome) {
				continue
			}
			if nk == "ASSERT" && poolIdentityLabel(nf.outcome.Outcome) {
				// harness plumbing ("the pool handed out the very object the harness prepared"): the
				// engine's sync.Pool is a LIFO list, the native one may hand out another object (GC,
				// scheduling) - that says nothing about the property
				msg := fmt.Sprintf("INCONCLUSIVE property=%s harness=%s native pool order differs on a sampled path (%s)", prop, hr.cfg.Func, nf.outcome.Outcome)
				fmt.Println(msg)
				notes = append(notes, msg)
				continue
			}
			key := fmt.Sprintf("%s/NATIVE:%s", hr.cfg.Func, nf.outcome.Outcome)
			skey := strings.ReplaceAll(key, " ", "_")
			if desc, ok := known.known[prop+" "+skey]; ok {
				fmt.Printf("KNOWN-FINDING: property=%s key=%s %s\n", prop, skey, desc)
				continue
			}
			path := writeReplay(prop, hr, fmt.Sprintf("%s-%d", key, k), nf.tape, nf.outcome.Outcome, nf.outcome)
			fmt.Printf("VIOLATION property=%s replay=%s\n", prop, path)
			fmt.Printf("  a sampled path model fails natively (%s %s) although the engine saw no violation on that path\n", nf.outcome.Outcome, nf.outcome.Msg)
			violations++
		}
	}
	writeEvidence(&cc, *tier, seed, runs, time.Since(t0), violations, notes)
	fmt.Printf("check %s tier=%s load=%.1fs total=%.1fs violations=%d\n", prop, *tier, loadS, time.Since(t0).Seconds(), violations)
	if violations > 0 {
		return 1
	}
	return 0
}

// poolIdentityLabel: assertion labels of the harnesses that only state WHICH pooled object was handed out.
func poolIdentityLabel(outcome string) bool {
	for _, l := range []string{"operation-reused-the-predecessors-task", "pool-handed-out-the-", "recycled-index-entries-were-used",
		"stale-parser-was-the-one-used", "stale-task-was-the-one-used", "successor-reused-the-predecessors-parser"} {
		if strings.Contains(outcome, l) {
			return true
		}
	}
	return false
}

type replayFile struct {
	Property string         `json:"property"`
	Pkg      string         `json:"pkg"`
	Harness  string         `json:"harness"`
	Key      string         `json:"key"`
	Expect   string         `json:"expect"`
	Tape     []int64        `json:"tape"`
	Params   map[string]int `json:"params"`
	Native   replayOutcome  `json:"native_outcome"`
	Repeat   int            `json:"repeat,omitempty"`
}

func writeReplay(prop string, hr *harnessRun, key string, tape []int64, expect string, o replayOutcome) string {
	rf := replayFile{Property: prop, Pkg: hr.cfg.Pkg, Harness: hr.cfg.Func, Key: key, Expect: expect, Tape: tape, Params: intParams(hr.params), Native: o, Repeat: hr.cfg.ReplayRepeat}
	path := filepath.Join(verifDir, "replay", prop, sanitize(key)+".json")
	b, _ := json.MarshalIndent(rf, "", " ")
	os.WriteFile(path, b, 0o644)
	return path
}

func cmdReplay(args []string) int {
	if len(args) < 1 {
		fmt.Fprintln(os.Stderr, "usage: gosym replay <file>")
		return 2
	}
	b, err := os.ReadFile(args[0])
	if err != nil {
		fmt.Fprintln(os.Stderr, err)
		return 2
	}
	var rf replayFile
	if err := json.Unmarshal(b, &rf); err != nil {
		fmt.Fprintln(os.Stderr, err)
		return 2
	}
	rep := rf.Repeat
	if rep <= 0 {
		rep = 1
	}
	var cases []replayCase
	for k := 0; k < rep; k++ {
		cases = append(cases, replayCase{ID: k + 1, Harness: rf.Harness, Tape: rf.Tape, Params: rf.Params})
	}
	outs, log, err := runNative(rf.Pkg, pkgNameOf(rf.Pkg), []string{rf.Harness}, cases, 60)
	if err != nil {
		fmt.Println(log)
		fmt.Fprintln(os.Stderr, err)
		return 2
	}
	fail := false
	for _, c := range cases {
		o := outs[c.ID]
		fmt.Printf("replay %s harness=%s tape=%v -> %s %s\n", rf.Key, rf.Harness, rf.Tape, o.Outcome, o.Msg)
		if isFailure(o.Outcome) {
			fail = true
			break
		}
	}
	if fail {
		fmt.Printf("VIOLATION property=%s replay=%s\n", rf.Property, args[0])
		return 1
	}
	fmt.Println("not reproduced on this tree")
	return 0
}

// crossResult: sampled property obligations re-decided by two other solvers.
type crossResult struct {
	Files         int      `json:"obligations_dumped"`
	Z3NewAgree    int      `json:"z3_5_1_agree"`
	Cvc5Agree     int      `json:"cvc5_agree"`
	Z3NewUnknown  int      `json:"z3_5_1_unknown_or_timeout"`
	Cvc5Unknown   int      `json:"cvc5_unknown_or_timeout"`
	Disagreements []string `json:"disagreements"`
	WallS         float64  `json:"wall_s"`
}

func runSolverFile(bin []string, file string) string {
	cmd := exec.Command(bin[0], append(bin[1:], file)...)
	out, _ := cmd.CombinedOutput()
	for _, line := range strings.Split(string(out), "\n") {
		line = strings.TrimSpace(line)
		if line == "sat" || line == "unsat" {
			return line
		}
	}
	return "unknown"
}

func crossCheck(dir string, verdicts map[int]string) *crossResult {
	t0 := time.Now()
	cr := &crossResult{}
	files, _ := filepath.Glob(filepath.Join(dir, "ob*.smt2"))
	sort.Strings(files)
	type job struct {
		file string
		k    int
	}
	jobs := make(chan job)
	var mu sync.Mutex
	var wg sync.WaitGroup
	for w := 0; w < 8; w++ {
		wg.Add(1)
		go func() {
			defer wg.Done()
			for j := range jobs {
				want := verdicts[j.k]
				if want != "sat" && want != "unsat" {
					continue
				}
				a := runSolverFile([]string{"z3-new", "-T:60"}, j.file)
				b := runSolverFile([]string{"cvc5", "--tlimit=60000"}, j.file)
				mu.Lock()
				cr.Files++
				switch {
				case a == want:
					cr.Z3NewAgree++
				case a == "unknown":
					cr.Z3NewUnknown++
				default:
					cr.Disagreements = append(cr.Disagreements, fmt.Sprintf("%s: z3 4.8.12 says %s, z3 5.1 says %s", filepath.Base(j.file), want, a))
				}
				switch {
				case b == want:
					cr.Cvc5Agree++
				case b == "unknown":
					cr.Cvc5Unknown++
				default:
					cr.Disagreements = append(cr.Disagreements, fmt.Sprintf("%s: z3 4.8.12 says %s, cvc5 says %s", filepath.Base(j.file), want, b))
				}
				mu.Unlock()
			}
		}()
	}
	for _, f := range files {
		var k int
		fmt.Sscanf(filepath.Base(f), "ob%05d.smt2", &k)
		jobs <- job{f, k}
	}
	close(jobs)
	wg.Wait()
	cr.WallS = time.Since(t0).Seconds()
	return cr
}
