package symexec

// Slicing, allocation bounds and index checks with symbolic operands.

import (
	"fmt"
)

// boundsCheck forks a panicking path when idx can be outside [0,n).
func (i *interpreter) boundsCheck(idx symInt, n int) {
	tc := i.tc
	var bad *Term
	var x *Term
	if idx.signed {
		x = tc.sextT(idx.t, 64)
	} else {
		x = tc.zext(idx.t, 64)
	}
	if idx.signed || idx.w == 64 {
		bad = tc.or(tc.op2(oSlt, kBool, 0, x, tc.bvConst(64, 0)), tc.op2(oSle, kBool, 0, tc.bvConst(64, uint64(n)), x))
		if !idx.signed {
			bad = tc.op2(oUle, kBool, 0, tc.bvConst(64, uint64(n)), x)
		}
	} else {
		bad = tc.op2(oUle, kBool, 0, tc.bvConst(64, uint64(n)), x)
	}
	if i.decide(bad) {
		panic(symRuntimeError(fmt.Sprintf("index out of range [symbolic] with length %d", n)))
	}
}

const maxAllocElems = 1 << 32 // beyond this a real make() panics or dies with out-of-memory

// makeSliceBounds checks make([]T, len, cap) as the Go runtime does and concretises len.
func (i *interpreter) makeSliceBounds(lnv, cpv value) (int, int) {
	tc := i.tc
	if sl, ok := lnv.(symInt); ok {
		bad := tc.or(tc.op2(oSlt, kBool, 0, sl.t, tc.bvConst(sl.w, 0)), tc.op2(oSlt, kBool, 0, tc.bvConst(sl.w, maxAllocElems), sl.t))
		if i.decide(bad) {
			panic(symRuntimeError("makeslice: len out of range"))
		}
		same := false
		if sc, ok := cpv.(symInt); ok && sc.t == sl.t {
			same = true
		}
		lnv = i.concretizeInt(sl)
		if same {
			cpv = lnv
		}
	}
	ln := asInt64(lnv)
	if ln < 0 || ln > maxAllocElems {
		panic(symRuntimeError("makeslice: len out of range"))
	}
	if sc, ok := cpv.(symInt); ok {
		bad := tc.or(tc.op2(oSlt, kBool, 0, sc.t, tc.bvConst(sc.w, uint64(ln))), tc.op2(oSlt, kBool, 0, tc.bvConst(sc.w, maxAllocElems), sc.t))
		if i.decide(bad) {
			panic(symRuntimeError("makeslice: cap out of range"))
		}
		// capacity has no semantic effect beyond the check: allocate len
		return int(ln), int(ln)
	}
	cp := asInt64(cpv)
	if cp < ln || cp > maxAllocElems {
		panic(symRuntimeError("makeslice: cap out of range"))
	}
	if cp > 1<<20 {
		cp = ln // do not really allocate huge backing arrays in the engine
	}
	return int(ln), int(cp)
}

// symSlice implements x[lo:hi:max] with possibly symbolic bounds.
func (i *interpreter) symSlice(x, lo, hi, max value) value {
	var Len, Cap int
	switch x := x.(type) {
	case string:
		Len, Cap = len(x), len(x)
	case symStr:
		Len, Cap = len(x.b), len(x.b)
	case []value:
		Len, Cap = len(x), cap(x)
	case *value:
		if x == nil {
			panic(symRuntimeError("invalid memory address or nil pointer dereference"))
		}
		a := (*x).(array)
		Len, Cap = len(a), cap(a)
	}
	tc := i.tc
	term := func(v value, dflt int) *Term {
		if v == nil {
			return tc.bvConst(64, uint64(dflt))
		}
		if s, ok := v.(symInt); ok {
			if s.w != 64 {
				if s.signed {
					return tc.sextT(s.t, 64)
				}
				return tc.zext(s.t, 64)
			}
			return s.t
		}
		return tc.bvConst(64, uint64(asInt64(v)))
	}
	l, h, m := term(lo, 0), term(hi, Len), term(max, Cap)
	_, isStr := x.(string)
	_, isSymStr := x.(symStr)
	// Go: 0 <= lo <= hi <= max <= cap (strings: hi <= len)
	sle := func(a, b *Term) *Term { return tc.op2(oSle, kBool, 0, a, b) }
	ok := tc.and(sle(tc.bvConst(64, 0), l), tc.and(sle(l, h), tc.and(sle(h, m), sle(m, tc.bvConst(64, uint64(Cap))))))
	if !i.decide(ok) {
		panic(symRuntimeError("slice bounds out of range"))
	}
	li, hi2, mi := int(i.concretize(l)), int(i.concretize(h)), int(i.concretize(m))
	switch x := x.(type) {
	case string:
		return x[li:hi2]
	case symStr:
		return normStr(symStr{x.b[li:hi2:hi2]})
	case []value:
		if x == nil && hi2 == 0 {
			return []value(nil)
		}
		return x[li:hi2:mi]
	case *value:
		a := (*x).(array)
		return []value(a)[li:hi2:mi]
	}
	_ = isStr
	_ = isSymStr
	panic(fmt.Sprintf("slice: unexpected X type: %T", x))
}
