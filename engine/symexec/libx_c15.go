package symexec

// Added for C15 (file name sorts after libintrinsics.go on purpose: its init must run after
// the base table is filled, because it replaces one entry).
//
// strconv.ParseFloat on SYMBOLIC text: instead of aborting the path, the text is
// concretised byte by byte (one fork per feasible value under the path condition, the same
// mechanism as verifnd.PickString) and the real strconv.ParseFloat runs on each concrete
// text. Exact; the cost is the number of feasible texts (number tokens that the lexer
// accepted and ParseInt rejected: a handful per symbolic byte).

import "strconv"

func init() {
	libIntrinsics["strconv.ParseFloat"] = scParseFloatEnum
}

func scParseFloatEnum(i *interpreter, fr *frame, a []value) (value, bool) {
	s, ok := a[0].(symStr)
	if !ok || isSym(a[1]) {
		return scParseFloat(i, fr, a)
	}
	bs := make([]byte, len(s.b))
	for k, e := range s.b {
		if se, ok := e.(symInt); ok {
			bs[k] = byte(i.concretize(se.t))
		} else {
			bs[k] = e.(uint8)
		}
	}
	f, e := strconv.ParseFloat(string(bs), int(asInt64(a[1])))
	return tuple{f, i.mkError(fr, e)}, true
}
