package symexec

// SMT term DAG with constant folding, a concrete evaluator (used to reuse
// the last model instead of asking the solver) and an SMT-LIB2 printer that
// names shared sub-terms.

import (
	"fmt"
	"math"
	"strings"
)

type tkind uint8

const (
	kBool tkind = iota
	kBV
	kFP // float64 only
)

type top uint8

const (
	oVar top = iota
	oConst
	// bit-vector
	oAdd
	oSub
	oMul
	oSDiv
	oUDiv
	oSRem
	oURem
	oAnd
	oOr
	oXor
	oNot
	oNeg
	oShl
	oLShr
	oAShr
	oExtract // val = lo, w = result width
	oZExt
	oSExt
	oSelect // constant table lookup: tbl, a = index
	// predicates
	oEq // on bv or bool
	oUlt
	oUle
	oSlt
	oSle
	// bool
	oBAnd
	oBOr
	oBNot
	oIte
	// floating point (float64, RNE)
	oFAdd
	oFSub
	oFMul
	oFDiv
	oFNeg
	oFEq
	oFLt
	oFLe
	oFIsNaN
	oSIToFP
	oUIToFP
	oFPToSBV // RTZ; caller guards range
	oFromBits
)

type table struct {
	name string
	vals []uint64
	iw   int // index width
	w    int // element width
}

type Term struct {
	op      top
	k       tkind
	w       int // bit width for kBV
	a, b, c *Term
	val     uint64
	name    string
	tbl     *table
	id      int
	size    int
	evalVer int
	evalVal uint64
}

type termKey struct {
	op      top
	k       tkind
	w       int
	a, b, c int
	val     uint64
	name    string
	tbl     *table
}

type termCtx struct {
	n    int
	ver  int // model version for eval memo
	cons map[termKey]*Term
}

func tid(t *Term) int {
	if t == nil {
		return 0
	}
	return t.id
}

// mk hash-conses: structurally identical terms are the same pointer.
func (c *termCtx) mk(t *Term) *Term {
	if c.cons == nil {
		c.cons = map[termKey]*Term{}
	}
	key := termKey{t.op, t.k, t.w, tid(t.a), tid(t.b), tid(t.c), t.val, t.name, t.tbl}
	if old, ok := c.cons[key]; ok {
		return old
	}
	c.cons[key] = t
	c.n++
	t.id = c.n
	t.size = 1
	for _, x := range []*Term{t.a, t.b, t.c} {
		if x != nil {
			t.size += x.size
		}
	}
	if t.size > 1<<30 {
		t.size = 1 << 30
	}
	return t
}

func (c *termCtx) bvConst(w int, v uint64) *Term {
	return c.mk(&Term{op: oConst, k: kBV, w: w, val: v & mask(w)})
}
func (c *termCtx) boolConst(b bool) *Term {
	v := uint64(0)
	if b {
		v = 1
	}
	return c.mk(&Term{op: oConst, k: kBool, val: v})
}
func (c *termCtx) fpConst(f float64) *Term {
	return c.mk(&Term{op: oConst, k: kFP, val: math.Float64bits(f)})
}
func (c *termCtx) bvVar(name string, w int) *Term {
	return c.mk(&Term{op: oVar, k: kBV, w: w, name: name})
}
func (c *termCtx) boolVar(name string) *Term {
	return c.mk(&Term{op: oVar, k: kBool, name: name})
}

func (t *Term) isConst() bool { return t.op == oConst }
func (t *Term) isTrue() bool  { return t.op == oConst && t.k == kBool && t.val == 1 }
func (t *Term) isFalse() bool { return t.op == oConst && t.k == kBool && t.val == 0 }

func mask(w int) uint64 {
	if w >= 64 {
		return ^uint64(0)
	}
	return (uint64(1) << uint(w)) - 1
}

func sext(v uint64, w int) int64 {
	if w >= 64 {
		return int64(v)
	}
	v &= mask(w)
	if v&(uint64(1)<<uint(w-1)) != 0 {
		v |= ^mask(w)
	}
	return int64(v)
}

// apply evaluates one operator on concrete argument values.
func apply(op top, k tkind, w int, aw int, val uint64, tbl *table, a, b, c uint64) uint64 {
	b2u := func(x bool) uint64 {
		if x {
			return 1
		}
		return 0
	}
	fa, fb := math.Float64frombits(a), math.Float64frombits(b)
	switch op {
	case oAdd:
		return (a + b) & mask(w)
	case oSub:
		return (a - b) & mask(w)
	case oMul:
		return (a * b) & mask(w)
	case oSDiv:
		x, y := sext(a, w), sext(b, w)
		if y == 0 {
			// SMT-LIB: bvsdiv by zero
			if x >= 0 {
				return mask(w)
			}
			return 1
		}
		if y == -1 {
			return uint64(-x) & mask(w)
		}
		return uint64(x/y) & mask(w)
	case oUDiv:
		if b == 0 {
			return mask(w)
		}
		return (a / b) & mask(w)
	case oSRem:
		x, y := sext(a, w), sext(b, w)
		if y == 0 {
			return a
		}
		if y == -1 {
			return 0
		}
		return uint64(x%y) & mask(w)
	case oURem:
		if b == 0 {
			return a
		}
		return (a % b) & mask(w)
	case oAnd:
		return a & b
	case oOr:
		return a | b
	case oXor:
		return a ^ b
	case oNot:
		return ^a & mask(w)
	case oNeg:
		return (-a) & mask(w)
	case oShl:
		if b >= uint64(w) {
			return 0
		}
		return (a << b) & mask(w)
	case oLShr:
		if b >= uint64(w) {
			return 0
		}
		return a >> b
	case oAShr:
		x := sext(a, w)
		if b >= uint64(w) {
			if x < 0 {
				return mask(w)
			}
			return 0
		}
		return uint64(x>>b) & mask(w)
	case oExtract:
		return (a >> val) & mask(w)
	case oZExt:
		return a
	case oSExt:
		return uint64(sext(a, aw)) & mask(w)
	case oSelect:
		if a < uint64(len(tbl.vals)) {
			return tbl.vals[a]
		}
		return tbl.vals[len(tbl.vals)-1]
	case oEq:
		return b2u(a == b)
	case oUlt:
		return b2u(a < b)
	case oUle:
		return b2u(a <= b)
	case oSlt:
		return b2u(sext(a, aw) < sext(b, aw))
	case oSle:
		return b2u(sext(a, aw) <= sext(b, aw))
	case oBAnd:
		return a & b
	case oBOr:
		return a | b
	case oBNot:
		return a ^ 1
	case oIte:
		if a == 1 {
			return b
		}
		return c
	case oFAdd:
		return canonNaN(fa + fb)
	case oFSub:
		return canonNaN(fa - fb)
	case oFMul:
		return canonNaN(fa * fb)
	case oFDiv:
		return canonNaN(fa / fb)
	case oFNeg:
		return canonNaN(-fa)
	case oFEq:
		return b2u(fa == fb)
	case oFLt:
		return b2u(fa < fb)
	case oFLe:
		return b2u(fa <= fb)
	case oFIsNaN:
		return b2u(fa != fa)
	case oSIToFP:
		return math.Float64bits(float64(sext(a, aw)))
	case oUIToFP:
		return math.Float64bits(float64(a))
	case oFPToSBV:
		// caller guarantees the in-range case matters only
		if fa != fa || fa >= 9223372036854775808.0 || fa < -9223372036854775808.0 {
			return 0
		}
		return uint64(int64(fa)) & mask(w)
	case oFromBits:
		return canonNaN(math.Float64frombits(a))
	}
	panic(fmt.Sprintf("apply: op %d", op))
}

func canonNaN(f float64) uint64 {
	if f != f {
		return 0x7ff8000000000001
	}
	return math.Float64bits(f)
}

func (c *termCtx) op1(op top, k tkind, w int, a *Term) *Term {
	if a.isConst() {
		return c.constOf(k, w, apply(op, k, w, a.w, 0, nil, a.val, 0, 0))
	}
	return c.mk(&Term{op: op, k: k, w: w, a: a})
}

func (c *termCtx) constOf(k tkind, w int, v uint64) *Term {
	switch k {
	case kBool:
		return c.boolConst(v == 1)
	case kBV:
		return c.bvConst(w, v)
	}
	return c.mk(&Term{op: oConst, k: kFP, val: v})
}

func (c *termCtx) op2(op top, k tkind, w int, a, b *Term) *Term {
	if a.isConst() && b.isConst() {
		return c.constOf(k, w, apply(op, k, w, a.w, 0, nil, a.val, b.val, 0))
	}
	// light simplifications
	switch op {
	case oFEq:
		if a == b {
			return c.not(c.op1(oFIsNaN, kBool, 0, a))
		}
	case oFLe:
		if a == b {
			return c.not(c.op1(oFIsNaN, kBool, 0, a))
		}
	case oFLt:
		if a == b {
			return c.boolConst(false)
		}
	case oUle, oSle:
		if a == b {
			return c.boolConst(true)
		}
	case oUlt, oSlt:
		if a == b {
			return c.boolConst(false)
		}
	case oBAnd:
		if a == b {
			return a
		}
		if (a.op == oBNot && a.a == b) || (b.op == oBNot && b.a == a) {
			return c.boolConst(false)
		}
		if a.isTrue() {
			return b
		}
		if b.isTrue() {
			return a
		}
		if a.isFalse() || b.isFalse() {
			return c.boolConst(false)
		}
	case oBOr:
		if a == b {
			return a
		}
		if (a.op == oBNot && a.a == b) || (b.op == oBNot && b.a == a) {
			return c.boolConst(true)
		}
		if a.isFalse() {
			return b
		}
		if b.isFalse() {
			return a
		}
		if a.isTrue() || b.isTrue() {
			return c.boolConst(true)
		}
	case oAdd, oOr, oXor:
		if a.isConst() && a.val == 0 {
			return b
		}
		if b.isConst() && b.val == 0 {
			return a
		}
	case oSub, oShl, oLShr, oAShr:
		if b.isConst() && b.val == 0 {
			return a
		}
	case oEq:
		if a == b && a.k != kFP {
			return c.boolConst(true)
		}
		if a.k == kBool {
			if b.isTrue() {
				return a
			}
			if a.isTrue() {
				return b
			}
			if b.isFalse() {
				return c.not(a)
			}
			if a.isFalse() {
				return c.not(b)
			}
		}
	}
	return c.mk(&Term{op: op, k: k, w: w, a: a, b: b})
}

func (c *termCtx) not(a *Term) *Term {
	if a.isConst() {
		return c.boolConst(a.val == 0)
	}
	if a.op == oBNot {
		return a.a
	}
	return c.mk(&Term{op: oBNot, k: kBool, a: a})
}
func (c *termCtx) and(a, b *Term) *Term { return c.op2(oBAnd, kBool, 0, a, b) }
func (c *termCtx) or(a, b *Term) *Term  { return c.op2(oBOr, kBool, 0, a, b) }
func (c *termCtx) eq(a, b *Term) *Term {
	if a.k == kFP {
		panic("eq on fp: use oFEq")
	}
	return c.op2(oEq, kBool, 0, a, b)
}
func (c *termCtx) ite(cond, a, b *Term) *Term {
	if cond.isConst() {
		if cond.val == 1 {
			return a
		}
		return b
	}
	if a == b {
		return a
	}
	return c.mk(&Term{op: oIte, k: a.k, w: a.w, a: cond, b: a, c: b})
}
func (c *termCtx) extract(a *Term, lo, w int) *Term {
	if a.isConst() {
		return c.bvConst(w, a.val>>uint(lo))
	}
	if lo == 0 && w == a.w {
		return a
	}
	return c.mk(&Term{op: oExtract, k: kBV, w: w, a: a, val: uint64(lo)})
}
func (c *termCtx) zext(a *Term, w int) *Term {
	if w == a.w {
		return a
	}
	return c.op1(oZExt, kBV, w, a)
}
func (c *termCtx) sextT(a *Term, w int) *Term {
	if w == a.w {
		return a
	}
	return c.op1(oSExt, kBV, w, a)
}
func (c *termCtx) sel(tbl *table, idx *Term) *Term {
	if idx.isConst() {
		return c.bvConst(tbl.w, apply(oSelect, kBV, tbl.w, 0, 0, tbl, idx.val, 0, 0))
	}
	return c.mk(&Term{op: oSelect, k: kBV, w: tbl.w, a: idx, tbl: tbl})
}

// eval computes the value of t under model m (variables absent from m are 0).
func (c *termCtx) eval(t *Term, m map[string]uint64) uint64 {
	if t.op == oConst {
		return t.val
	}
	if t.evalVer == c.ver {
		return t.evalVal
	}
	var r uint64
	switch t.op {
	case oVar:
		r = m[t.name] & mask64k(t)
	case oIte:
		if c.eval(t.a, m) == 1 {
			r = c.eval(t.b, m)
		} else {
			r = c.eval(t.c, m)
		}
	case oBAnd:
		if c.eval(t.a, m) == 0 {
			r = 0
		} else {
			r = c.eval(t.b, m)
		}
	case oBOr:
		if c.eval(t.a, m) == 1 {
			r = 1
		} else {
			r = c.eval(t.b, m)
		}
	default:
		var a, b uint64
		aw := 0
		if t.a != nil {
			a = c.eval(t.a, m)
			aw = t.a.w
		}
		if t.b != nil {
			b = c.eval(t.b, m)
		}
		r = apply(t.op, t.k, t.w, aw, t.val, t.tbl, a, b, 0)
	}
	t.evalVer = c.ver
	t.evalVal = r
	return r
}

func mask64k(t *Term) uint64 {
	if t.k == kBool {
		return 1
	}
	if t.k == kFP {
		return ^uint64(0)
	}
	return mask(t.w)
}

// ---------------------------------------------------------------- printing

type printer struct {
	defined map[int]string
	tables  map[*table]bool
	out     func(string)
}

func newPrinter(out func(string)) *printer {
	return &printer{defined: map[int]string{}, tables: map[*table]bool{}, out: out}
}

func bvlit(w int, v uint64) string {
	if w%4 == 0 {
		return fmt.Sprintf("#x%0*x", w/4, v&mask(w))
	}
	return fmt.Sprintf("#b%0*b", w, v&mask(w))
}

func sortStr(t *Term) string {
	switch t.k {
	case kBool:
		return "Bool"
	case kFP:
		return "(_ FloatingPoint 11 53)"
	}
	return fmt.Sprintf("(_ BitVec %d)", t.w)
}

const shareThreshold = 6

func (p *printer) str(t *Term) string {
	switch t.op {
	case oConst:
		switch t.k {
		case kBool:
			if t.val == 1 {
				return "true"
			}
			return "false"
		case kBV:
			return bvlit(t.w, t.val)
		default:
			return "((_ to_fp 11 53) " + bvlit(64, t.val) + ")"
		}
	case oVar:
		return t.name
	}
	if n, ok := p.defined[t.id]; ok {
		return n
	}
	body := p.body(t)
	if t.size >= shareThreshold {
		name := fmt.Sprintf("t!%d", t.id)
		p.out("(define-fun " + name + " () " + sortStr(t) + " " + body + ")")
		p.defined[t.id] = name
		return name
	}
	return body
}

func (p *printer) defTable(tb *table) {
	if p.tables[tb] {
		return
	}
	p.tables[tb] = true
	var build func(lo, hi int) string
	build = func(lo, hi int) string {
		if lo == hi {
			return bvlit(tb.w, tb.vals[lo])
		}
		// collapse constant runs
		same := true
		for i := lo + 1; i <= hi; i++ {
			if tb.vals[i] != tb.vals[lo] {
				same = false
				break
			}
		}
		if same {
			return bvlit(tb.w, tb.vals[lo])
		}
		mid := (lo + hi + 1) / 2
		return "(ite (bvult i " + bvlit(tb.iw, uint64(mid)) + ") " + build(lo, mid-1) + " " + build(mid, hi) + ")"
	}
	p.out(fmt.Sprintf("(define-fun %s ((i (_ BitVec %d))) (_ BitVec %d) %s)", tb.name, tb.iw, tb.w, build(0, len(tb.vals)-1)))
}

var opNames = map[top]string{
	oAdd: "bvadd", oSub: "bvsub", oMul: "bvmul", oSDiv: "bvsdiv", oUDiv: "bvudiv", oSRem: "bvsrem", oURem: "bvurem",
	oAnd: "bvand", oOr: "bvor", oXor: "bvxor", oNot: "bvnot", oNeg: "bvneg", oShl: "bvshl", oLShr: "bvlshr", oAShr: "bvashr",
	oEq: "=", oUlt: "bvult", oUle: "bvule", oSlt: "bvslt", oSle: "bvsle", oBAnd: "and", oBOr: "or", oBNot: "not", oIte: "ite",
	oFNeg: "fp.neg", oFEq: "fp.eq", oFLt: "fp.lt", oFLe: "fp.leq", oFIsNaN: "fp.isNaN",
}

func (p *printer) body(t *Term) string {
	switch t.op {
	case oExtract:
		return fmt.Sprintf("((_ extract %d %d) %s)", int(t.val)+t.w-1, t.val, p.str(t.a))
	case oZExt:
		return fmt.Sprintf("((_ zero_extend %d) %s)", t.w-t.a.w, p.str(t.a))
	case oSExt:
		return fmt.Sprintf("((_ sign_extend %d) %s)", t.w-t.a.w, p.str(t.a))
	case oSelect:
		p.defTable(t.tbl)
		return "(" + t.tbl.name + " " + p.str(t.a) + ")"
	case oFAdd:
		return "(fp.add RNE " + p.str(t.a) + " " + p.str(t.b) + ")"
	case oFSub:
		return "(fp.sub RNE " + p.str(t.a) + " " + p.str(t.b) + ")"
	case oFMul:
		return "(fp.mul RNE " + p.str(t.a) + " " + p.str(t.b) + ")"
	case oFDiv:
		return "(fp.div RNE " + p.str(t.a) + " " + p.str(t.b) + ")"
	case oSIToFP:
		return "((_ to_fp 11 53) RNE " + p.str(t.a) + ")"
	case oUIToFP:
		return "((_ to_fp_unsigned 11 53) RNE " + p.str(t.a) + ")"
	case oFPToSBV:
		return fmt.Sprintf("((_ fp.to_sbv %d) RTZ %s)", t.w, p.str(t.a))
	case oFromBits:
		return "((_ to_fp 11 53) " + p.str(t.a) + ")"
	}
	name, ok := opNames[t.op]
	if !ok {
		panic(fmt.Sprintf("printer: op %d", t.op))
	}
	var sb strings.Builder
	sb.WriteString("(" + name)
	for _, x := range []*Term{t.a, t.b, t.c} {
		if x != nil {
			sb.WriteString(" ")
			sb.WriteString(p.str(x))
		}
	}
	sb.WriteString(")")
	return sb.String()
}
