// Copyright 2013 The Go Authors. All rights reserved.
// Use of this source code is governed by a BSD-style
// license that can be found in the LICENSE file.

// Package ssa/interp defines an interpreter for the SSA
// representation of Go programs.
//
// This interpreter is provided as an adjunct for testing the SSA
// construction algorithm.  Its purpose is to provide a minimal
// metacircular implementation of the dynamic semantics of each SSA
// instruction.  It is not, and will never be, a production-quality Go
// interpreter.
//
// The following is a partial list of Go features that are currently
// unsupported or incomplete in the interpreter.
//
// * Unsafe operations, including all uses of unsafe.Pointer, are
// impossible to support given the "boxed" value representation we
// have chosen.
//
// * The reflect package is only partially implemented.
//
// * The "testing" package is no longer supported because it
// depends on low-level details that change too often.
//
// * "sync/atomic" operations are not atomic due to the "boxed" value
// representation: it is not possible to read, modify and write an
// interface value atomically. As a consequence, Mutexes are currently
// broken.
//
// * recover is only partially implemented.  Also, the interpreter
// makes no attempt to distinguish target panics from interpreter
// crashes.
//
// * the sizes of the int, uint and uintptr types in the target
// program are assumed to be the same as those of the interpreter
// itself.
//
// * all values occupy space, even those of types defined by the spec
// to have zero size, e.g. struct{}.  This can cause asymptotic
// performance degradation.
//
// * os.Exit is implemented using panic, causing deferred functions to
// run.
package symexec

import (
	"strings"
	"fmt"
	"go/token"
	"go/types"
	"log"
	"os"
	"reflect"
	"runtime"
	"slices"
	"sync/atomic"
	_ "unsafe"

	"golang.org/x/tools/go/ssa"
)

type continuation int

const (
	kNext continuation = iota
	kReturn
	kJump
)

// Mode is a bitmask of options affecting the interpreter.
type Mode uint

const (
	DisableRecover Mode = 1 << iota // Disable recover() in target programs; show interpreter crash instead.
	EnableTracing                   // Print a trace of all instructions as they are interpreted.
)

type methodSet map[string]*ssa.Function

// State shared between all interpreted goroutines.
type interpreter struct {
	callStack []string
	abortStack []string

	sol       *solver
	ps        *pathState
	sh        *shared
	cfg       *Config
	tc        *termCtx
	tables    map[*value]*table
	funcs     map[string]int64
	curV      uint64
	fmtDepth  int
	fmtRaw    bool // the argument being converted is consumed by a verb that ignores String/Error
	lastDump  int
	vfsFiles  map[string]*vfsEntry
	frozen    map[*value]bool
	frozenMap map[*omap]bool
	pools     map[*value][]value
	onces     map[*value]bool
	syncMaps  map[*value]*omap
	lockDepth int
	released  map[*value]bool // cells of objects handed to a sync.Pool and not taken out again (monitor on after Freeze)
	unwinding bool

	osArgs             []value                // the value of os.Args
	prog               *ssa.Program           // the SSA program
	globals            map[*ssa.Global]*value // addresses of global variables (immutable)
	mode               Mode                   // interpreter options
	reflectPackage     *ssa.Package           // the fake reflect package
	errorMethods       methodSet              // the method set of reflect.error, which implements the error interface.
	rtypeMethods       methodSet              // the method set of rtype, which implements the reflect.Type interface.
	runtimeErrorString types.Type             // the runtime.errorString type
	sizes              types.Sizes            // the effective type-sizing function
	goroutines         int32                  // atomically updated
}

type deferred struct {
	fn    value
	args  []value
	instr *ssa.Defer
	tail  *deferred
}

type frame struct {
	i                *interpreter
	caller           *frame
	fn               *ssa.Function
	block, prevBlock *ssa.BasicBlock
	env              map[ssa.Value]value // dynamic values of SSA variables
	locals           []value
	defers           *deferred
	result           value
	panicking        bool
	panic            interface{}
	phitemps         []value // temporaries for parallel phi assignment
}

func (fr *frame) get(key ssa.Value) value {
	switch key := key.(type) {
	case nil:
		// Hack; simplifies handling of optional attributes
		// such as ssa.Slice.{Low,High}.
		return nil
	case *ssa.Function, *ssa.Builtin:
		return key
	case *ssa.Const:
		return constValue(key)
	case *ssa.Global:
		if r, ok := fr.i.globals[key]; ok {
			return r
		}
	}
	if r, ok := fr.env[key]; ok {
		return r
	}
	panic(fmt.Sprintf("get: no value for %T: %v", key, key.Name()))
}

// runDefer runs a deferred call d.
// It always returns normally, but may set or clear fr.panic.
func (fr *frame) runDefer(d *deferred) {
	if fr.i.mode&EnableTracing != 0 {
		fmt.Fprintf(os.Stderr, "%s: invoking deferred function call\n",
			fr.i.prog.Fset.Position(d.instr.Pos()))
	}
	var ok bool
	defer func() {
		if !ok {
			// Deferred call created a new state of panic.
			fr.panicking = true
			fr.panic = recover()
			if pa, isAbort := fr.panic.(pathAbort); isAbort {
				panic(pa)
			}
		}
	}()
	call(fr.i, fr, d.instr.Pos(), d.fn, d.args)
	ok = true
}

// runDefers executes fr's deferred function calls in LIFO order.
//
// On entry, fr.panicking indicates a state of panic; if
// true, fr.panic contains the panic value.
//
// On completion, if a deferred call started a panic, or if no
// deferred call recovered from a previous state of panic, then
// runDefers itself panics after the last deferred call has run.
//
// If there was no initial state of panic, or it was recovered from,
// runDefers returns normally.
func (fr *frame) runDefers() {
	for d := fr.defers; d != nil; d = d.tail {
		fr.runDefer(d)
	}
	fr.defers = nil
	if fr.panicking {
		panic(fr.panic) // new panic, or still panicking
	}
}

// lookupMethod returns the method set for type typ, which may be one
// of the interpreter's fake types.
func lookupMethod(i *interpreter, typ types.Type, meth *types.Func) *ssa.Function {
	switch typ {
	case rtypeType:
		return i.rtypeMethods[meth.Id()]
	case errorType:
		return i.errorMethods[meth.Id()]
	}
	return i.prog.LookupMethod(typ, meth.Pkg(), meth.Name())
}

// visitInstr interprets a single ssa.Instruction within the activation
// record frame.  It returns a continuation value indicating where to
// read the next instruction from.
func visitInstr(fr *frame, instr ssa.Instruction) continuation {
	switch instr := instr.(type) {
	case *ssa.DebugRef:
		// no-op

	case *ssa.UnOp:
		x := fr.get(instr.X)
		if instr.Op == token.MUL && len(fr.i.released) > 0 {
			if a, ok := x.(*value); ok && fr.i.released[a] {
				fr.i.sharedWrite("read of a pooled object after sync.Pool.Put", fr)
			}
		}
		if v, ok := fr.i.symUnop(fr, instr.Op, instr.Type(), x); ok {
			fr.env[instr] = v
		} else {
			fr.env[instr] = unop(instr, x)
		}

	case *ssa.BinOp:
		x, y := fr.get(instr.X), fr.get(instr.Y)
		if containsSym(x) || containsSym(y) {
			fr.env[instr] = fr.i.symBinop(instr.Op, instr.X.Type(), instr.Y.Type(), x, y)
		} else {
			fr.env[instr] = binop(instr.Op, instr.X.Type(), x, y)
		}

	case *ssa.Call:
		fn, args := prepareCall(fr, &instr.Call)
		fr.env[instr] = call(fr.i, fr, instr.Pos(), fn, args)

	case *ssa.ChangeInterface:
		fr.env[instr] = fr.get(instr.X)

	case *ssa.ChangeType:
		fr.env[instr] = fr.get(instr.X) // (can't fail)

	case *ssa.Convert:
		if v, ok := fr.i.symConv(instr.Type(), instr.X.Type(), fr.get(instr.X)); ok {
			fr.env[instr] = v
		} else {
			fr.env[instr] = conv(instr.Type(), instr.X.Type(), fr.get(instr.X))
		}

	case *ssa.SliceToArrayPointer:
		fr.env[instr] = sliceToArrayPointer(instr.Type(), instr.X.Type(), fr.get(instr.X))

	case *ssa.MakeInterface:
		fr.env[instr] = iface{t: instr.X.Type(), v: fr.get(instr.X)}

	case *ssa.Extract:
		fr.env[instr] = fr.get(instr.Tuple).(tuple)[instr.Index]

	case *ssa.Slice:
		fr.env[instr] = fr.i.symSlice(fr.get(instr.X), fr.get(instr.Low), fr.get(instr.High), fr.get(instr.Max))

	case *ssa.Return:
		switch len(instr.Results) {
		case 0:
		case 1:
			fr.result = fr.get(instr.Results[0])
		default:
			var res []value
			for _, r := range instr.Results {
				res = append(res, fr.get(r))
			}
			fr.result = tuple(res)
		}
		fr.block = nil
		return kReturn

	case *ssa.RunDefers:
		fr.runDefers()

	case *ssa.Panic:
		panic(targetPanic{fr.get(instr.X)})

	case *ssa.Send:
		fr.get(instr.Chan).(chan value) <- fr.get(instr.X)

	case *ssa.Store:
		addr := fr.get(instr.Addr).(*value)
		if fr.i.frozen != nil && fr.i.frozen[addr] {
			fr.i.sharedWrite("store", fr)
		}
		if len(fr.i.released) > 0 && fr.i.released[addr] {
			fr.i.sharedWrite("write to a pooled object after sync.Pool.Put", fr)
		}
		store(typeparams.MustDeref(instr.Addr.Type()), addr, fr.get(instr.Val))

	case *ssa.If:
		succ := 1
		switch c := fr.get(instr.Cond).(type) {
		case bool:
			if c {
				succ = 0
			}
		case symBool:
			if fr.i.decide(c.t) {
				succ = 0
			}
		}
		fr.prevBlock, fr.block = fr.block, fr.block.Succs[succ]
		return kJump

	case *ssa.Jump:
		fr.prevBlock, fr.block = fr.block, fr.block.Succs[0]
		return kJump

	case *ssa.Defer:
		fn, args := prepareCall(fr, &instr.Call)
		defers := &fr.defers
		if into := fr.get(instr.DeferStack); into != nil {
			defers = into.(**deferred)
		}
		*defers = &deferred{
			fn:    fn,
			args:  args,
			instr: instr,
			tail:  *defers,
		}

	case *ssa.Go:
		fn, args := prepareCall(fr, &instr.Call)
		atomic.AddInt32(&fr.i.goroutines, 1)
		go func() {
			call(fr.i, nil, instr.Pos(), fn, args)
			atomic.AddInt32(&fr.i.goroutines, -1)
		}()

	case *ssa.MakeChan:
		fr.env[instr] = make(chan value, asInt64(fr.get(instr.Size)))

	case *ssa.Alloc:
		var addr *value
		if instr.Heap {
			// new
			addr = new(value)
			fr.env[instr] = addr
		} else {
			// local
			addr = fr.env[instr].(*value)
		}
		*addr = zero(typeparams.MustDeref(instr.Type()))

	case *ssa.MakeSlice:
		ln, cp := fr.i.makeSliceBounds(fr.get(instr.Len), fr.get(instr.Cap))
		slice := make([]value, cp)
		tElt := instr.Type().Underlying().(*types.Slice).Elem()
		for i := range slice {
			slice[i] = zero(tElt)
		}
		fr.env[instr] = slice[:ln]

	case *ssa.MakeMap:
		var reserve int64
		if instr.Reserve != nil {
			reserve = asInt64(fr.get(instr.Reserve))
		}
		if !fitsInt(reserve, fr.i.sizes) {
			panic(fmt.Sprintf("ssa.MakeMap.Reserve value %d does not fit in int", reserve))
		}
		fr.env[instr] = makeMap(instr.Type().Underlying().(*types.Map).Key(), reserve)

	case *ssa.Range:
		if ss, ok := fr.get(instr.X).(symStr); ok {
			fr.env[instr] = &symStrIter{i: fr.i, fr: fr, s: ss}
		} else {
			fr.env[instr] = rangeIter(fr.i, fr.get(instr.X), instr.X.Type())
		}

	case *ssa.Next:
		fr.env[instr] = fr.get(instr.Iter).(iter).next()

	case *ssa.FieldAddr:
		fr.env[instr] = &(*fr.get(instr.X).(*value)).(structure)[instr.Field]

	case *ssa.Field:
		fr.env[instr] = fr.get(instr.X).(structure)[instr.Field]

	case *ssa.IndexAddr:
		x := fr.get(instr.X)
		idx := fr.get(instr.Index)
		var n int
		switch xx := x.(type) {
		case []value:
			n = len(xx)
		case *value:
			if xx == nil {
				panic(symRuntimeError("invalid memory address or nil pointer dereference"))
			}
			n = len((*xx).(array))
		default:
			panic(fmt.Sprintf("unexpected x type in IndexAddr: %T", x))
		}
		if si, ok := idx.(symInt); ok {
			fr.i.boundsCheck(si, n)
			if xp, ok := x.(*value); ok {
				arr := (*xp).(array)
				et := typeparams.MustDeref(instr.Type())
				if _, _, isInt := intInfo(et); isInt && len(arr) > 0 && !containsSym(arr) {
					fr.env[instr] = symElemPtr{arr: arr, idx: si, et: et}
					break
				}
			}
			idx = fr.i.concretizeInt(si)
		}
		k := asInt64(idx)
		if k < 0 || k >= int64(n) {
			panic(symRuntimeError(fmt.Sprintf("index out of range [%d] with length %d", k, n)))
		}
		switch x := x.(type) {
		case []value:
			fr.env[instr] = &x[k]
		case *value: // *array
			fr.env[instr] = &(*x).(array)[k]
		}

	case *ssa.Index:
		x := fr.get(instr.X)
		idx := fr.get(instr.Index)
		var n int
		switch xx := x.(type) {
		case array:
			n = len(xx)
		case string:
			n = len(xx)
		case symStr:
			n = len(xx.b)
		default:
			panic(fmt.Sprintf("unexpected x type in Index: %T", x))
		}
		if si, ok := idx.(symInt); ok {
			fr.i.boundsCheck(si, n)
			idx = fr.i.concretizeInt(si)
		}
		k := asInt64(idx)
		if k < 0 || k >= int64(n) {
			panic(symRuntimeError(fmt.Sprintf("index out of range [%d] with length %d", k, n)))
		}
		switch x := x.(type) {
		case array:
			fr.env[instr] = x[k]
		case string:
			fr.env[instr] = x[k]
		case symStr:
			fr.env[instr] = x.b[k]
		}

	case *ssa.Lookup:
		fr.env[instr] = lookup(fr.i, instr, fr.get(instr.X), fr.get(instr.Index))

	case *ssa.MapUpdate:
		m := fr.get(instr.Map)
		key := fr.get(instr.Key)
		v := fr.get(instr.Value)
		switch m := m.(type) {
		case *omap:
			if fr.i.frozenMap != nil && fr.i.frozenMap[m] {
				fr.i.sharedWrite("map update", fr)
			}
			m.insert(fr.i, key, v)
		default:
			panic(fmt.Sprintf("illegal map type: %T", m))
		}

	case *ssa.TypeAssert:
		fr.env[instr] = typeAssert(fr.i, instr, fr.get(instr.X).(iface))

	case *ssa.MakeClosure:
		var bindings []value
		for _, binding := range instr.Bindings {
			bindings = append(bindings, fr.get(binding))
		}
		fr.env[instr] = &closure{instr.Fn.(*ssa.Function), bindings}

	case *ssa.Phi:
		log.Fatal("unreachable") // phis are processed at block entry

	case *ssa.Select:
		var cases []reflect.SelectCase
		if !instr.Blocking {
			cases = append(cases, reflect.SelectCase{
				Dir: reflect.SelectDefault,
			})
		}
		for _, state := range instr.States {
			var dir reflect.SelectDir
			if state.Dir == types.RecvOnly {
				dir = reflect.SelectRecv
			} else {
				dir = reflect.SelectSend
			}
			var send reflect.Value
			if state.Send != nil {
				send = reflect.ValueOf(fr.get(state.Send))
			}
			cases = append(cases, reflect.SelectCase{
				Dir:  dir,
				Chan: reflect.ValueOf(fr.get(state.Chan)),
				Send: send,
			})
		}
		chosen, recv, recvOk := reflect.Select(cases)
		if !instr.Blocking {
			chosen-- // default case should have index -1.
		}
		r := tuple{chosen, recvOk}
		for i, st := range instr.States {
			if st.Dir == types.RecvOnly {
				var v value
				if i == chosen && recvOk {
					// No need to copy since send makes an unaliased copy.
					v = recv.Interface().(value)
				} else {
					v = zero(st.Chan.Type().Underlying().(*types.Chan).Elem())
				}
				r = append(r, v)
			}
		}
		fr.env[instr] = r

	default:
		panic(fmt.Sprintf("unexpected instruction: %T", instr))
	}

	// if val, ok := instr.(ssa.Value); ok {
	// 	fmt.Println(toString(fr.env[val])) // debugging
	// }

	return kNext
}

// prepareCall determines the function value and argument values for a
// function call in a Call, Go or Defer instruction, performing
// interface method lookup if needed.
func prepareCall(fr *frame, call *ssa.CallCommon) (fn value, args []value) {
	v := fr.get(call.Value)
	if call.Method == nil {
		// Function call.
		fn = v
	} else {
		// Interface method invocation.
		recv := v.(iface)
		if recv.t == nil && isLoggerType(call.Value.Type()) {
			return noopFn{}, nil
		}
		if recv.t == nil {
			panic("method invoked on nil interface")
		}
		if f := lookupMethod(fr.i, recv.t, call.Method); f == nil {
			// Unreachable in well-typed programs.
			panic(fmt.Sprintf("method set for dynamic type %v does not contain %s", recv.t, call.Method))
		} else {
			fn = f
		}
		args = append(args, recv.v)
	}
	for _, arg := range call.Args {
		args = append(args, fr.get(arg))
	}
	return
}

// call interprets a call to a function (function, builtin or closure)
// fn with arguments args, returning its result.
// callpos is the position of the callsite.
func call(i *interpreter, caller *frame, callpos token.Pos, fn value, args []value) value {
	switch fn := fn.(type) {
	case *ssa.Function:
		if fn == nil {
			panic("call of nil function") // nil of func type
		}
		return callSSA(i, caller, callpos, fn, args, nil)
	case *closure:
		return callSSA(i, caller, callpos, fn.Fn, args, fn.Env)
	case *ssa.Builtin:
		return callBuiltin(caller, callpos, fn, args)
	case noopFn:
		return nil
	}
	panic(fmt.Sprintf("cannot call %T", fn))
}

func loc(fset *token.FileSet, pos token.Pos) string {
	if pos == token.NoPos {
		return ""
	}
	return " at " + fset.Position(pos).String()
}

// callSSA interprets a call to function fn with arguments args,
// and lexical environment env, returning its result.
// callpos is the position of the callsite.
func callSSA(i *interpreter, caller *frame, callpos token.Pos, fn *ssa.Function, args []value, env []value) value {
	if i.mode&EnableTracing != 0 {
		fset := fn.Prog.Fset
		// TODO(adonovan): fix: loc() lies for external functions.
		fmt.Fprintf(os.Stderr, "Entering %s%s.\n", fn, loc(fset, fn.Pos()))
		suffix := ""
		if caller != nil {
			suffix = ", resuming " + caller.fn.String() + loc(fset, callpos)
		}
		defer fmt.Fprintf(os.Stderr, "Leaving %s%s.\n", fn, suffix)
	}
	fr := &frame{
		i:      i,
		caller: caller, // for panic/recover
		fn:     fn,
	}
	if fn.Parent() == nil {
		name := fn.String()
		if v, ok := i.intrinsic(fr, fn, args); ok {
			return v
		}
		if ext := externals[name]; ext != nil {
			if i.mode&EnableTracing != 0 {
				fmt.Fprintln(os.Stderr, "\t(external)")
			}
			return ext(fr, args)
		}
		if fn.Blocks == nil {
			panic("no code for function: " + name)
		}
	}

	// generic function body?
	if fn.TypeParams().Len() > 0 && len(fn.TypeArgs()) == 0 {
		panic("interp requires ssa.BuilderMode to include InstantiateGenerics to execute generics")
	}

	i.callStack = append(i.callStack, fn.String())
	i.funcs[fn.String()]++
	defer func() {
		if r := recover(); r != nil {
			if !i.unwinding {
				i.unwinding = true
				i.abortStack = append([]string{}, i.callStack...)
			}
			i.callStack = i.callStack[:len(i.callStack)-1]
			panic(r)
		}
		i.callStack = i.callStack[:len(i.callStack)-1]
	}()
	fr.env = make(map[ssa.Value]value)
	fr.block = fn.Blocks[0]
	fr.locals = make([]value, len(fn.Locals))
	for i, l := range fn.Locals {
		fr.locals[i] = zero(typeparams.MustDeref(l.Type()))
		fr.env[l] = &fr.locals[i]
	}
	for i, p := range fn.Params {
		fr.env[p] = args[i]
	}
	for i, fv := range fn.FreeVars {
		fr.env[fv] = env[i]
	}
	for fr.block != nil {
		runFrame(fr)
	}
	// Destroy the locals to avoid accidental use after return.
	for i := range fn.Locals {
		fr.locals[i] = bad{}
	}
	return fr.result
}

// runFrame executes SSA instructions starting at fr.block and
// continuing until a return, a panic, or a recovered panic.
//
// After a panic, runFrame panics.
//
// After a normal return, fr.result contains the result of the call
// and fr.block is nil.
//
// A recovered panic in a function without named return parameters
// (NRPs) becomes a normal return of the zero value of the function's
// result type.
//
// After a recovered panic in a function with NRPs, fr.result is
// undefined and fr.block contains the block at which to resume
// control.
func runFrame(fr *frame) {
	defer func() {
		if fr.block == nil {
			return // normal return
		}
		if fr.i.mode&DisableRecover != 0 {
			return // let interpreter crash
		}
		fr.panicking = true
		fr.panic = recover()
		if pa, ok := fr.panic.(pathAbort); ok {
			fr.block = nil
			panic(pa)
		}
		if fr.i.mode&EnableTracing != 0 {
			fmt.Fprintf(os.Stderr, "Panicking: %T %v.\n", fr.panic, fr.panic)
		}
		fr.runDefers()
		fr.block = fr.fn.Recover
	}()

	for {
		if fr.i.mode&EnableTracing != 0 {
			fmt.Fprintf(os.Stderr, ".%s:\n", fr.block)
		}

		nonPhis := executePhis(fr)
		for _, instr := range nonPhis {
			if fr.i.mode&EnableTracing != 0 {
				if v, ok := instr.(ssa.Value); ok {
					fmt.Fprintln(os.Stderr, "\t", v.Name(), "=", instr)
				} else {
					fmt.Fprintln(os.Stderr, "\t", instr)
				}
			}
			fr.i.ps.instrs++
		if fr.i.ps.instrs > fr.i.cfg.MaxInstr {
			panic(pathAbort{"UNWIND"})
		}
			if visitInstr(fr, instr) == kReturn {
				return
			}
			// Inv: kNext (continue) or kJump (last instr)
		}
	}
}

// executePhis executes the phi-nodes at the start of the current
// block and returns the non-phi instructions.
func executePhis(fr *frame) []ssa.Instruction {
	firstNonPhi := -1
	for i, instr := range fr.block.Instrs {
		if _, ok := instr.(*ssa.Phi); !ok {
			firstNonPhi = i
			break
		}
	}
	// Inv: 0 <= firstNonPhi; every block contains a non-phi.

	nonPhis := fr.block.Instrs[firstNonPhi:]
	if firstNonPhi > 0 {
		phis := fr.block.Instrs[:firstNonPhi]
		// Execute parallel assignment of phis.
		//
		// See "the swap problem" in Briggs et al's "Practical Improvements
		// to the Construction and Destruction of SSA Form" for discussion.
		predIndex := slices.Index(fr.block.Preds, fr.prevBlock)
		fr.phitemps = fr.phitemps[:0]
		for _, phi := range phis {
			phi := phi.(*ssa.Phi)
			if fr.i.mode&EnableTracing != 0 {
				fmt.Fprintln(os.Stderr, "\t", phi.Name(), "=", phi)
			}
			fr.phitemps = append(fr.phitemps, fr.get(phi.Edges[predIndex]))
		}
		for i, phi := range phis {
			fr.env[phi.(*ssa.Phi)] = fr.phitemps[i]
		}
	}
	return nonPhis
}

// doRecover implements the recover() built-in.
func doRecover(caller *frame) value {
	// recover() must be exactly one level beneath the deferred
	// function (two levels beneath the panicking function) to
	// have any effect.  Thus we ignore both "defer recover()" and
	// "defer f() -> g() -> recover()".
	if caller.i.mode&DisableRecover == 0 &&
		caller != nil && !caller.panicking &&
		caller.caller != nil && caller.caller.panicking {
		caller.caller.panicking = false
		caller.i.unwinding = false
		p := caller.caller.panic
		caller.caller.panic = nil

		// TODO(adonovan): support runtime.Goexit.
		switch p := p.(type) {
		case targetPanic:
			// The target program explicitly called panic().
			return p.v
		case runtime.Error:
			// The interpreter encountered a runtime error.
			return iface{caller.i.runtimeErrorString, p.Error()}
		case string:
			// The interpreter explicitly called panic().
			return iface{caller.i.runtimeErrorString, p}
		default:
			panic(fmt.Sprintf("unexpected panic type %T in target call to recover()", p))
		}
	}
	return iface{}
}

// Interpret interprets the Go program whose main package is mainpkg.
// mode specifies various interpreter options.  filename and args are
// the initial values of os.Args for the target program.  sizes is the
// effective type-sizing function for this program.
//
// Interpret returns the exit code of the program: 2 for panic (like
// gc does), or the argument to os.Exit for normal termination.
//
// The SSA program must include the "runtime" package.
//
// Type parameterized functions must have been built with
// InstantiateGenerics in the ssa.BuilderMode to be interpreted.
func Interpret(mainpkg *ssa.Package, mode Mode, sizes types.Sizes, filename string, args []string) (exitCode int) {
	i := &interpreter{
		prog:       mainpkg.Prog,
		globals:    make(map[*ssa.Global]*value),
		mode:       mode,
		sizes:      sizes,
		goroutines: 1,
	}
	runtimePkg := i.prog.ImportedPackage("runtime")
	if runtimePkg == nil {
		panic("ssa.Program doesn't include runtime package")
	}
	i.runtimeErrorString = runtimePkg.Type("errorString").Object().Type()

	initReflect(i)

	i.osArgs = append(i.osArgs, filename)
	for _, arg := range args {
		i.osArgs = append(i.osArgs, arg)
	}

	for _, pkg := range i.prog.AllPackages() {
		// Initialize global storage.
		for _, m := range pkg.Members {
			switch v := m.(type) {
			case *ssa.Global:
				cell := zero(typeparams.MustDeref(v.Type()))
				i.globals[v] = &cell
			}
		}
	}

	// Top-level error handler.
	exitCode = 2
	defer func() {
		if exitCode != 2 || i.mode&DisableRecover != 0 {
			return
		}
		switch p := recover().(type) {
		case exitPanic:
			exitCode = int(p)
			return
		case targetPanic:
			fmt.Fprintln(os.Stderr, "panic:", toString(p.v))
		case runtime.Error:
			fmt.Fprintln(os.Stderr, "panic:", p.Error())
		case string:
			fmt.Fprintln(os.Stderr, "panic:", p)
		default:
			fmt.Fprintf(os.Stderr, "panic: unexpected type: %T: %v\n", p, p)
		}

		// TODO(adonovan): dump panicking interpreter goroutine?
		// buf := make([]byte, 0x10000)
		// runtime.Stack(buf, false)
		// fmt.Fprintln(os.Stderr, string(buf))
		// (Or dump panicking target goroutine?)
	}()

	// Run!
	call(i, nil, token.NoPos, mainpkg.Func("init"), nil)
	if mainFn := mainpkg.Func("main"); mainFn != nil {
		call(i, nil, token.NoPos, mainFn, nil)
		exitCode = 0
	} else {
		fmt.Fprintln(os.Stderr, "No main function.")
		exitCode = 1
	}
	return
}

type noopFn struct{}

func isLoggerType(t types.Type) bool {
	n, ok := t.(*types.Named)
	return ok && n.Obj().Pkg() != nil && strings.HasSuffix(n.Obj().Pkg().Path(), "internal/logger") && n.Obj().Name() == "Logger"
}
