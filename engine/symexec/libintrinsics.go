package symexec

// Library functions the engine provides itself: stubs for the environment
// (fmt, logging, pools, locks) and symbolic-aware versions of leaf kernels
// that the standard library implements in assembly or with unsafe.

import (
	"fmt"
	"go/token"
	"go/types"
	"math"
	"strconv"
	"strings"

	"golang.org/x/tools/go/ssa"
)

type libFn func(i *interpreter, fr *frame, args []value) (value, bool)

var libIntrinsics = map[string]libFn{}

func init() {
	base := map[string]libFn{
		"fmt.Sprintf":  libSprintf,
		"fmt.Errorf":   libErrorf,
		"fmt.Sprint":   libSprint,
		"fmt.Fprintf": func(i *interpreter, fr *frame, a []value) (value, bool) {
			f := fmtString(i, a[1])
			return libFwrite(i, fr, a[0], fmt.Sprintf(f, fmtArgsFor(i, f, a[2])...)), true
		},
		"fmt.Printf":   libPrintf,
		"fmt.Println":  func(i *interpreter, fr *frame, a []value) (value, bool) { return tuple{0, iface{}}, true },
		"fmt.Fprintln": func(i *interpreter, fr *frame, a []value) (value, bool) {
			return libFwrite(i, fr, a[0], fmt.Sprintln(fmtArgs(i, a[1])...)), true
		},
		"fmt.Fprint": func(i *interpreter, fr *frame, a []value) (value, bool) {
			return libFwrite(i, fr, a[0], fmt.Sprint(fmtArgs(i, a[1])...)), true
		},
		"runtime.Stack": func(i *interpreter, fr *frame, a []value) (value, bool) { return 0, true },
		"github.com/GuanceCloud/platypus/internal/logger.NewStdoutLogger": func(i *interpreter, fr *frame, a []value) (value, bool) {
			return iface{}, true
		},

		"(*strings.Builder).WriteString": sbWriteString,
		"(*strings.Builder).WriteByte":   sbWriteByte,
		"(*strings.Builder).WriteRune":   sbWriteRune,
		"(*strings.Builder).Write":       sbWrite,
		"(*strings.Builder).String":      sbString,
		"(*strings.Builder).Len":         sbLen,
		"(*strings.Builder).Grow":        func(i *interpreter, fr *frame, a []value) (value, bool) { return nil, true },
		"(*strings.Builder).Reset":       sbReset,

		"internal/bytealg.IndexByteString":     baIndexByteString,
		"internal/bytealg.IndexByte":           baIndexByte,
		"internal/bytealg.IndexString":         baIndexString,
		"internal/bytealg.Index":               baIndex,
		"internal/bytealg.CountString":         baCountString,
		"internal/bytealg.Count":               baCount,
		"internal/bytealg.Equal":               baEqual,
		"internal/bytealg.LastIndexByteString": baLastIndexByteString,
		"internal/bytealg.MakeNoZero": func(i *interpreter, fr *frame, a []value) (value, bool) {
			n := int(asInt64(a[0]))
			s := make([]value, n)
			for k := range s {
				s[k] = uint8(0)
			}
			return s, true
		},
		"strings.Index":      strIndex,
		"strings.IndexByte":  func(i *interpreter, fr *frame, a []value) (value, bool) { return baIndexByteString(i, fr, a) },
		"strings.Count":      strCount,
		"strings.ToLower":    strToLower,
		"strings.ToUpper":    strToUpper,
		"strings.EqualFold":  strEqualFold,
		"strings.Replace":    symGuard("strings.Replace"),
		"bytes.Equal":        baEqual,
		"bytes.IndexByte":    baIndexByte,
		"strconv.ParseInt":   scParseInt,
		"strconv.ParseFloat": scParseFloat,
		"strconv.Itoa":       symGuard("strconv.Itoa"),
		"strconv.Atoi":       symGuard("strconv.Atoi"),
		"strconv.FormatFloat": symGuard("strconv.FormatFloat"),
		"strconv.FormatInt":  scFormatInt,
		"strconv.FormatBool": nil,

		// spf13/cast looks through pointers with reflect (Type.Implements); Inv-values are never
		// pointers, so both helpers are the identity on them.
		"github.com/spf13/cast.indirect":                  castIndirect,
		"github.com/spf13/cast.indirectToStringerOrError": castIndirect,
		"internal/stringslite.Clone": func(i *interpreter, fr *frame, a []value) (value, bool) { return a[0], true },
		"strings.Clone":              func(i *interpreter, fr *frame, a []value) (value, bool) { return a[0], true },
		"(*sync.Pool).Get":        poolGet,
		"(*sync.Pool).Put":        poolPut,
		"(*sync.Mutex).Lock":      lockIn,
		"(*sync.Mutex).Unlock":    lockOut,
		"(*sync.Mutex).TryLock":   func(i *interpreter, fr *frame, a []value) (value, bool) { return true, true },
		"(*sync.RWMutex).Lock":    lockIn,
		"(*sync.RWMutex).Unlock":  lockOut,
		"(*sync.RWMutex).RLock":   noop,
		"(*sync.RWMutex).RUnlock": noop,
		"(*sync.Once).Do":         onceDo,
		"(*sync.Map).Load":          syncMapLoad,
		"(*sync.Map).Store":         syncMapStore,
		"(*sync.Map).LoadOrStore":   syncMapLoadOrStore,
		"(*sync.Map).LoadAndDelete": syncMapLoadAndDelete,
		"(*sync.Map).Delete":        syncMapDelete,
		"(*sync.Map).Swap":          syncMapSwap,
		"(*sync.Map).Range":         syncMapRange,
		"(*sync.Map).Clear":         syncMapClear,
		"reflect.DeepEqual":       libDeepEqual,
		"math.IsNaN":              mathIsNaN,
		"math.IsInf":              mathIsInf,
		"math.Float64bits":        mathFloat64bits,
		"math.Float64frombits":    mathFloat64frombits,
		"math.Abs":                symGuard("math.Abs"),
		"unicode/utf8.ValidString": nil,
	}
	for k, v := range base {
		if v != nil {
			libIntrinsics[k] = v
		}
	}
}

func castIndirect(i *interpreter, fr *frame, a []value) (value, bool) {
	if f, ok := a[0].(iface); ok {
		if _, isPtr := f.v.(*value); isPtr {
			panic(pathAbort{"unsupported: cast.indirect on a pointer"})
		}
	}
	return a[0], true
}

func noop(i *interpreter, fr *frame, a []value) (value, bool) { return nil, true }

// lockIn / lockOut count the exclusive locks held: the ownership monitor does not report a
// store made while one is held (stated assumption: a write under a lock is synchronised with
// every other access to that memory).
func lockIn(i *interpreter, fr *frame, a []value) (value, bool)  { i.lockDepth++; return nil, true }
func lockOut(i *interpreter, fr *frame, a []value) (value, bool) { i.lockDepth--; return nil, true }

// symGuard lets the concrete implementation run and aborts the path on symbolic input.
func symGuard(name string) libFn {
	return func(i *interpreter, fr *frame, a []value) (value, bool) {
		for _, x := range a {
			if containsSym(x) {
				panic(pathAbort{"unsupported: " + name + " on symbolic input"})
			}
		}
		return nil, false
	}
}

// ---- fmt ----

// goValue converts an interpreter value to something fmt can print.
func goValue(i *interpreter, v value) interface{} {
	switch x := v.(type) {
	case iface:
		if x.t == nil {
			return nil
		}
		// error / Stringer: call the method in the interpreter when concrete and when the verb
		// is one for which fmt consults it (%v %s %q %x %X; fmt.Sprint). A method that formats
		// its own receiver with such a verb recurses without end in Go (fatal stack overflow):
		// reported as an UNWIND finding.
		if !containsSym(x.v) && !i.fmtRaw {
			if i.fmtDepth > 40 {
				panic(pathAbort{"UNWIND"})
			}
			i.fmtDepth++
			defer func() { i.fmtDepth-- }()
			if m := methodOf(i, x.t, "Error"); m != nil {
				if s, ok := safeCallString(i, m, x.v); ok {
					return fmt.Errorf("%s", s)
				}
			}
			if m := methodOf(i, x.t, "String"); m != nil {
				if s, ok := safeCallString(i, m, x.v); ok {
					return stringer(s)
				}
			}
		}
		return goValue(i, x.v)
	case symInt, symBool, symFloat:
		return "<sym>"
	case symStr:
		bs := make([]byte, len(x.b))
		for k, e := range x.b {
			if c, ok := e.(uint8); ok {
				bs[k] = c
			} else {
				bs[k] = '?'
			}
		}
		return string(bs)
	case *value:
		if x == nil {
			return nil
		}
		return "&{...}"
	case structure:
		return "{...}"
	case []value:
		out := make([]interface{}, len(x))
		for k, e := range x {
			out[k] = goValue(i, e)
		}
		return out
	case *omap:
		return "map[...]"
	case array, tuple, *closure, *ssa.Function:
		return "<value>"
	case rtype:
		return x.t.String()
	}
	return v
}

type stringer string

func (s stringer) String() string { return string(s) }

func methodOf(i *interpreter, t types.Type, name string) *ssa.Function {
	ms := i.prog.MethodSets.MethodSet(t)
	for k := 0; k < ms.Len(); k++ {
		sel := ms.At(k)
		if sel.Obj().Name() == name {
			sig := sel.Obj().Type().(*types.Signature)
			if sig.Params().Len() == 0 && sig.Results().Len() == 1 {
				if b, ok := sig.Results().At(0).Type().Underlying().(*types.Basic); ok && b.Kind() == types.String {
					return i.prog.MethodValue(sel)
				}
			}
		}
	}
	return nil
}

func safeCallString(i *interpreter, m *ssa.Function, recv value) (s string, ok bool) {
	defer func() {
		if r := recover(); r != nil {
			if pa, isAbort := r.(pathAbort); isAbort {
				panic(pa)
			}
			ok = false
		}
	}()
	if m.Blocks == nil {
		return "", false
	}
	depth := len(i.callStack)
	res := callSSA(i, nil, token.NoPos, m, []value{recv}, nil)
	i.callStack = i.callStack[:depth]
	switch r := res.(type) {
	case string:
		return r, true
	case symStr:
		return goValue(i, r).(string), true
	}
	return "", false
}

func fmtArgs(i *interpreter, v value) []interface{} { return fmtArgsFor(i, "", v) }

// fmtArgsFor converts the arguments of a formatting call; with a format string, an argument
// consumed by a verb other than v s q x X is converted without consulting String / Error.
func fmtArgsFor(i *interpreter, format string, v value) []interface{} {
	var out []interface{}
	verbs := fmtVerbs(format)
	if sl, ok := v.([]value); ok {
		for k, e := range sl {
			raw := false
			if format != "" && k < len(verbs) {
				switch verbs[k] {
				case 'v', 's', 'q', 'x', 'X':
				default:
					raw = true
				}
			}
			saved := i.fmtRaw
			i.fmtRaw = raw
			out = append(out, goValue(i, e))
			i.fmtRaw = saved
		}
	}
	return out
}

// fmtVerbs lists the verb consuming each successive argument (explicit argument indexes and
// * widths are rare in the code under test: they make the rest of the list 'v').
func fmtVerbs(format string) []byte {
	var out []byte
	for k := 0; k < len(format); k++ {
		if format[k] != '%' {
			continue
		}
		k++
		for k < len(format) && strings.IndexByte("+-# 0123456789.", format[k]) >= 0 {
			k++
		}
		if k >= len(format) {
			break
		}
		switch format[k] {
		case '%':
		case '[', '*':
			for len(out) < 16 {
				out = append(out, 'v')
			}
			return out
		default:
			out = append(out, format[k])
		}
	}
	return out
}

func fmtString(i *interpreter, v value) string {
	switch s := v.(type) {
	case string:
		return s
	case symStr:
		return goValue(i, s).(string)
	}
	return "<fmt>"
}

func libSprintf(i *interpreter, fr *frame, a []value) (value, bool) {
	f := fmtString(i, a[0])
	return fmt.Sprintf(f, fmtArgsFor(i, f, a[1])...), true
}

// libFwrite writes formatted text into the target's io.Writer through its own Write method;
// writes to *os.File (standard output / error) are dropped.
func libFwrite(i *interpreter, fr *frame, wv value, text string) value {
	w, ok := wv.(iface)
	if !ok || w.t == nil {
		panic(symRuntimeError("invalid memory address or nil pointer dereference"))
	}
	if w.t.String() == "*os.File" {
		return tuple{len(text), iface{}}
	}
	m := i.prog.LookupMethod(w.t, nil, "Write")
	if m == nil {
		panic(pathAbort{"unsupported: fmt.Fprint* on a writer without Write: " + w.t.String()})
	}
	callSSA(i, fr, token.NoPos, m, []value{w.v, bytesToValues([]byte(text))}, nil)
	return tuple{len(text), iface{}}
}

func libSprint(i *interpreter, fr *frame, a []value) (value, bool) {
	return fmt.Sprint(fmtArgs(i, a[0])...), true
}

func libPrintf(i *interpreter, fr *frame, a []value) (value, bool) {
	f := fmtString(i, a[0])
	s := fmt.Sprintf(f, fmtArgsFor(i, f, a[1])...)
	i.ps.trace = append(i.ps.trace, "OUT:"+s)
	return tuple{len(s), iface{}}, true
}

func libErrorf(i *interpreter, fr *frame, a []value) (value, bool) {
	f := fmtString(i, a[0])
	msg := fmt.Sprintf(f, fmtArgsFor(i, f, a[1])...)
	en := i.prog.ImportedPackage("errors").Func("New")
	return callSSA(i, fr, token.NoPos, en, []value{msg}, nil), true
}

// ---- strings.Builder: the buffer lives in field 1 (buf []byte) ----

func sbBuf(a []value) *value {
	p := a[0].(*value)
	st := (*p).(structure)
	return &st[1]
}

func sbAppend(a []value, bs []value) {
	b := sbBuf(a)
	cur, _ := (*b).([]value)
	*b = append(cur, bs...)
}

func sbWriteString(i *interpreter, fr *frame, a []value) (value, bool) {
	s := toSymStr(a[1])
	sbAppend(a, s.b)
	return tuple{len(s.b), iface{}}, true
}
func sbWrite(i *interpreter, fr *frame, a []value) (value, bool) {
	s := a[1].([]value)
	sbAppend(a, s)
	return tuple{len(s), iface{}}, true
}
func sbWriteByte(i *interpreter, fr *frame, a []value) (value, bool) {
	sbAppend(a, []value{a[1]})
	return iface{}, true
}
func sbWriteRune(i *interpreter, fr *frame, a []value) (value, bool) {
	var s symStr
	switch r := a[1].(type) {
	case symInt:
		s = toSymStr(i.runeToString(r))
	default:
		s = toSymStr(string(rune(asInt64(r))))
	}
	sbAppend(a, s.b)
	return tuple{len(s.b), iface{}}, true
}
func sbString(i *interpreter, fr *frame, a []value) (value, bool) {
	cur, _ := (*sbBuf(a)).([]value)
	return normStr(symStr{append([]value{}, cur...)}), true
}
func sbLen(i *interpreter, fr *frame, a []value) (value, bool) {
	cur, _ := (*sbBuf(a)).([]value)
	return len(cur), true
}
func sbReset(i *interpreter, fr *frame, a []value) (value, bool) {
	*sbBuf(a) = []value(nil)
	return nil, true
}

// ---- bytealg ----

func bytesOf(v value) []value {
	switch x := v.(type) {
	case string:
		return toSymStr(x).b
	case symStr:
		return x.b
	case []value:
		return x
	}
	panic(fmt.Sprintf("bytesOf %T", v))
}

func (i *interpreter) byteEq(a, b value) *Term {
	return i.tc.eq(i.iterm(a, 8), i.iterm(b, 8))
}

func indexByte(i *interpreter, s []value, c value) int {
	for k, e := range s {
		if i.decide(i.byteEq(e, c)) {
			return k
		}
	}
	return -1
}

func baIndexByteString(i *interpreter, fr *frame, a []value) (value, bool) {
	if !containsSymBytes(a[0]) && !isSym(a[1]) {
		return strings.IndexByte(a[0].(string), a[1].(uint8)), true
	}
	return indexByte(i, bytesOf(a[0]), a[1]), true
}
func baIndexByte(i *interpreter, fr *frame, a []value) (value, bool) {
	return indexByte(i, bytesOf(a[0]), a[1]), true
}
func baLastIndexByteString(i *interpreter, fr *frame, a []value) (value, bool) {
	s := bytesOf(a[0])
	for k := len(s) - 1; k >= 0; k-- {
		if i.decide(i.byteEq(s[k], a[1])) {
			return k, true
		}
	}
	return -1, true
}

func containsSymBytes(v value) bool {
	switch x := v.(type) {
	case symStr:
		return true
	case []value:
		for _, e := range x {
			if isSym(e) {
				return true
			}
		}
	}
	return false
}

func indexBytes(i *interpreter, s, sub []value) int {
	n := len(sub)
	for k := 0; k+n <= len(s); k++ {
		if i.decide(i.symStrEqTerm(symStr{s[k : k+n]}, symStr{sub})) {
			return k
		}
	}
	return -1
}

func baIndexString(i *interpreter, fr *frame, a []value) (value, bool) {
	if !containsSymBytes(a[0]) && !containsSymBytes(a[1]) {
		return strings.Index(a[0].(string), a[1].(string)), true
	}
	return indexBytes(i, bytesOf(a[0]), bytesOf(a[1])), true
}
func baIndex(i *interpreter, fr *frame, a []value) (value, bool) {
	return indexBytes(i, bytesOf(a[0]), bytesOf(a[1])), true
}
func strIndex(i *interpreter, fr *frame, a []value) (value, bool) {
	return baIndexString(i, fr, a)
}
func countBytes(i *interpreter, s []value, c value) int {
	n := 0
	for _, e := range s {
		if i.decide(i.byteEq(e, c)) {
			n++
		}
	}
	return n
}
func baCountString(i *interpreter, fr *frame, a []value) (value, bool) {
	return countBytes(i, bytesOf(a[0]), a[1]), true
}
func baCount(i *interpreter, fr *frame, a []value) (value, bool) {
	return countBytes(i, bytesOf(a[0]), a[1]), true
}
func strCount(i *interpreter, fr *frame, a []value) (value, bool) {
	if containsSymBytes(a[0]) || containsSymBytes(a[1]) {
		panic(pathAbort{"unsupported: strings.Count on symbolic input"})
	}
	return nil, false
}
func baEqual(i *interpreter, fr *frame, a []value) (value, bool) {
	return i.mkBool(i.symStrEqTerm(symStr{bytesOf(a[0])}, symStr{bytesOf(a[1])})), true
}

// mapBytes is strings.ToLower / ToUpper on a symbolic string: ASCII letters are mapped exactly;
// the two non-ASCII runes whose lower case is ASCII (U+212A KELVIN SIGN -> k, U+0130 -> i) are
// mapped exactly; every other non-ASCII byte is left unchanged. The result is therefore exact
// for comparisons against ASCII-only strings (keyword tables), which is its only use on
// symbolic text.
func mapBytes(i *interpreter, v value, lo, hi byte, delta int) (value, bool) {
	s, ok := v.(symStr)
	if !ok {
		return nil, false
	}
	tc := i.tc
	isByte := func(e value, c byte) bool {
		switch x := e.(type) {
		case uint8:
			return x == c
		case symInt:
			return i.decide(tc.eq(x.t, tc.bvConst(8, uint64(c))))
		}
		return false
	}
	out := make([]value, 0, len(s.b))
	for k := 0; k < len(s.b); k++ {
		e := s.b[k]
		se, isSym := e.(symInt)
		nonASCII := false
		if !isSym {
			nonASCII = e.(uint8) >= 0x80
		} else {
			nonASCII = i.decide(tc.op2(oUle, kBool, 0, tc.bvConst(8, 0x80), se.t))
		}
		if nonASCII {
			if delta > 0 { // ToLower special cases
				if k+2 < len(s.b) && isByte(e, 0xE2) && isByte(s.b[k+1], 0x84) && isByte(s.b[k+2], 0xAA) {
					out = append(out, uint8('k'))
					k += 2
					continue
				}
				if k+1 < len(s.b) && isByte(e, 0xC4) && isByte(s.b[k+1], 0xB0) {
					out = append(out, uint8('i'))
					k++
					continue
				}
			}
			out = append(out, e)
			continue
		}
		if !isSym {
			c := e.(uint8)
			if c >= lo && c <= hi {
				c = byte(int(c) + delta)
			}
			out = append(out, c)
			continue
		}
		in := tc.and(tc.op2(oUle, kBool, 0, tc.bvConst(8, uint64(lo)), se.t), tc.op2(oUle, kBool, 0, se.t, tc.bvConst(8, uint64(hi))))
		out = append(out, i.mkInt(types.Typ[types.Uint8], 8, false, tc.ite(in, tc.op2(oAdd, kBV, 8, se.t, tc.bvConst(8, uint64(delta)&0xff)), se.t)))
	}
	return normStr(symStr{out}), true
}

func strToLower(i *interpreter, fr *frame, a []value) (value, bool) {
	return mapBytes(i, a[0], 'A', 'Z', 32)
}
func strToUpper(i *interpreter, fr *frame, a []value) (value, bool) {
	return mapBytes(i, a[0], 'a', 'z', -32)
}
func strEqualFold(i *interpreter, fr *frame, a []value) (value, bool) {
	if !containsSymBytes(a[0]) && !containsSymBytes(a[1]) {
		return nil, false
	}
	x, ok1 := mapBytes(i, toSymStr(a[0]), 'A', 'Z', 32)
	y, ok2 := mapBytes(i, toSymStr(a[1]), 'A', 'Z', 32)
	if !ok1 || !ok2 {
		panic(pathAbort{"unsupported: EqualFold"})
	}
	return i.mkBool(i.symStrEqTerm(toSymStr(x), toSymStr(y))), true
}

// ---- strconv ----

func (i *interpreter) mkError(fr *frame, e error) value {
	if e == nil {
		return iface{}
	}
	en := i.prog.ImportedPackage("errors").Func("New")
	return callSSA(i, fr, token.NoPos, en, []value{e.Error()}, nil)
}

func scParseInt(i *interpreter, fr *frame, a []value) (value, bool) {
	if sv, ok := a[0].(string); ok && !isSym(a[1]) && !isSym(a[2]) {
		n, e := strconv.ParseInt(sv, int(asInt64(a[1])), int(asInt64(a[2])))
		return tuple{n, i.mkError(fr, e)}, true
	}
	return nil, false // run the real SSA symbolically
}

func scParseFloat(i *interpreter, fr *frame, a []value) (value, bool) {
	sv, ok := a[0].(string)
	if !ok {
		// enumerate the feasible concrete texts (the callers pass short, lexer-constrained
		// number tokens) and use the real library on each
		ss := a[0].(symStr)
		bs := make([]byte, len(ss.b))
		for k, e := range ss.b {
			if se, isSym := e.(symInt); isSym {
				bs[k] = byte(i.concretize(se.t))
			} else {
				bs[k] = e.(uint8)
			}
		}
		sv = string(bs)
	}
	f, e := strconv.ParseFloat(sv, int(asInt64(a[1])))
	return tuple{f, i.mkError(fr, e)}, true
}

func scFormatInt(i *interpreter, fr *frame, a []value) (value, bool) {
	if isSym(a[0]) {
		panic(pathAbort{"unsupported: strconv.FormatInt on symbolic input"})
	}
	return strconv.FormatInt(asInt64(a[0]), int(asInt64(a[1]))), true
}

// ---- sync ----

func poolGet(i *interpreter, fr *frame, a []value) (value, bool) {
	p := a[0].(*value)
	if l := i.pools[p]; len(l) > 0 {
		v := l[len(l)-1]
		i.pools[p] = l[:len(l)-1]
		i.markReleased(v, false)
		return v, true
	}
	st := (*p).(structure)
	// New is the last field
	newf := st[len(st)-1]
	switch f := newf.(type) {
	case *ssa.Function:
		if f == nil {
			return iface{}, true
		}
	case nil:
		return iface{}, true
	}
	return call(i, fr, token.NoPos, newf, nil), true
}

func poolPut(i *interpreter, fr *frame, a []value) (value, bool) {
	p := a[0].(*value)
	if x, ok := a[1].(iface); ok && x.t == nil {
		return nil, true
	}
	if i.pools == nil {
		i.pools = map[*value][]value{}
	}
	i.pools[p] = append(i.pools[p], a[1])
	if i.frozen != nil {
		// ownership: the object now belongs to whoever Gets it next
		i.markReleased(a[1], true)
	}
	return nil, true
}

// markReleased marks (or unmarks) the cells of the object itself: the pointed-to variable and,
// for structs and arrays, their inline fields; memory behind further pointers is not owned by
// the pool entry.
func (i *interpreter) markReleased(v value, on bool) {
	if !on && len(i.released) == 0 {
		return
	}
	if i.released == nil {
		i.released = map[*value]bool{}
	}
	var cells func(p *value)
	cells = func(p *value) {
		if p == nil {
			return
		}
		if on {
			i.released[p] = true
		} else {
			delete(i.released, p)
		}
		switch x := (*p).(type) {
		case structure:
			for k := range x {
				cells(&x[k])
			}
		case array:
			for k := range x {
				cells(&x[k])
			}
		}
	}
	if f, ok := v.(iface); ok {
		v = f.v
	}
	if p, ok := v.(*value); ok {
		cells(p)
	}
}

func onceDo(i *interpreter, fr *frame, a []value) (value, bool) {
	p := a[0].(*value)
	if i.onces == nil {
		i.onces = map[*value]bool{}
	}
	if i.onces[p] {
		return nil, true
	}
	i.onces[p] = true
	i.lockDepth++ // the body of Once.Do is synchronised by Once
	defer func() { i.lockDepth-- }()
	call(i, fr, token.NoPos, a[1], nil)
	return nil, true
}

// sync.Map is modelled as an insertion-ordered map with interface keys,
// attached to the address of the sync.Map value (single goroutine: no races).
func (i *interpreter) syncMap(p value) *omap {
	k := p.(*value)
	if i.syncMaps == nil {
		i.syncMaps = map[*value]*omap{}
	}
	m := i.syncMaps[k]
	if m == nil {
		m = &omap{keyType: tEmptyIface, idx: map[value]int{}}
		i.syncMaps[k] = m
	}
	return m
}

func syncMapLoad(i *interpreter, fr *frame, a []value) (value, bool) {
	if v, ok := i.syncMap(a[0]).lookup(i, a[1]); ok {
		return tuple{v, true}, true
	}
	return tuple{iface{}, false}, true
}

func syncMapStore(i *interpreter, fr *frame, a []value) (value, bool) {
	i.syncMap(a[0]).insert(i, a[1], a[2])
	return nil, true
}

func syncMapLoadOrStore(i *interpreter, fr *frame, a []value) (value, bool) {
	m := i.syncMap(a[0])
	if v, ok := m.lookup(i, a[1]); ok {
		return tuple{v, true}, true
	}
	m.insert(i, a[1], a[2])
	return tuple{a[2], false}, true
}

func syncMapLoadAndDelete(i *interpreter, fr *frame, a []value) (value, bool) {
	m := i.syncMap(a[0])
	if v, ok := m.lookup(i, a[1]); ok {
		m.delete(i, a[1])
		return tuple{v, true}, true
	}
	return tuple{iface{}, false}, true
}

func syncMapDelete(i *interpreter, fr *frame, a []value) (value, bool) {
	i.syncMap(a[0]).delete(i, a[1])
	return nil, true
}

func syncMapSwap(i *interpreter, fr *frame, a []value) (value, bool) {
	m := i.syncMap(a[0])
	v, ok := m.lookup(i, a[1])
	m.insert(i, a[1], a[2])
	if !ok {
		v = iface{}
	}
	return tuple{v, ok}, true
}

func syncMapRange(i *interpreter, fr *frame, a []value) (value, bool) {
	m := i.syncMap(a[0])
	keys := append([]value{}, m.keys...)
	vals := append([]value{}, m.vals...)
	for k := range keys {
		if m.find(i, keys[k]) < 0 {
			continue
		}
		r := call(i, fr, token.NoPos, a[1], []value{keys[k], vals[k]})
		if b, ok := r.(bool); ok && !b {
			break
		}
		if sb, ok := r.(symBool); ok && !i.decide(sb.t) {
			break
		}
	}
	return nil, true
}

func syncMapClear(i *interpreter, fr *frame, a []value) (value, bool) {
	delete(i.syncMaps, a[0].(*value))
	return nil, true
}

// ---- math ----

func mathIsNaN(i *interpreter, fr *frame, a []value) (value, bool) {
	if f, ok := a[0].(symFloat); ok {
		return i.mkBool(i.tc.op1(oFIsNaN, kBool, 0, f.t)), true
	}
	return math.IsNaN(a[0].(float64)), true
}

func mathIsInf(i *interpreter, fr *frame, a []value) (value, bool) {
	if f, ok := a[0].(symFloat); ok {
		tc := i.tc
		sign := asInt64(i.concretizeInt(a[1]))
		pinf := tc.op2(oFEq, kBool, 0, f.t, tc.fpConst(math.Inf(1)))
		ninf := tc.op2(oFEq, kBool, 0, f.t, tc.fpConst(math.Inf(-1)))
		switch {
		case sign > 0:
			return i.mkBool(pinf), true
		case sign < 0:
			return i.mkBool(ninf), true
		}
		return i.mkBool(tc.or(pinf, ninf)), true
	}
	return math.IsInf(a[0].(float64), int(asInt64(a[1]))), true
}

func mathFloat64bits(i *interpreter, fr *frame, a []value) (value, bool) {
	if f, ok := a[0].(symFloat); ok {
		if f.t.op == oFromBits {
			return i.mkInt(types.Typ[types.Uint64], 64, false, f.t.a), true
		}
		panic(pathAbort{"unsupported: math.Float64bits of a computed symbolic float"})
	}
	return math.Float64bits(a[0].(float64)), true
}

func mathFloat64frombits(i *interpreter, fr *frame, a []value) (value, bool) {
	if b, ok := a[0].(symInt); ok {
		return i.mkFloat(i.tc.op1(oFromBits, kFP, 0, b.t)), true
	}
	return math.Float64frombits(a[0].(uint64)), true
}

// ---- reflect.DeepEqual over interpreter values ----

func libDeepEqual(i *interpreter, fr *frame, a []value) (value, bool) {
	return i.deepEqual(a[0], a[1], 0), true
}

func (i *interpreter) deepEqual(x, y value, depth int) value {
	if depth > 50 {
		panic(pathAbort{"unsupported: DeepEqual recursion"})
	}
	switch xv := x.(type) {
	case iface:
		yv, ok := y.(iface)
		if !ok {
			return false
		}
		if xv.t == nil || yv.t == nil {
			return xv.t == nil && yv.t == nil
		}
		if !types.Identical(xv.t, yv.t) {
			return false
		}
		switch xv.v.(type) {
		case []value, *omap, *value, structure, array:
			return i.deepEqualTyped(xv.t, xv.v, yv.v, depth+1)
		}
		return symEquals(i, xv.t, xv.v, yv.v)
	}
	panic(pathAbort{fmt.Sprintf("unsupported: DeepEqual on %T", x)})
}

func (i *interpreter) deepEqualTyped(t types.Type, x, y value, depth int) value {
	switch ut := t.Underlying().(type) {
	case *types.Slice:
		xs, ys := x.([]value), y.([]value)
		if (xs == nil) != (ys == nil) || len(xs) != len(ys) {
			return false
		}
		var acc value = true
		for k := range xs {
			acc = i.symAnd(acc, i.deepEqualElem(ut.Elem(), xs[k], ys[k], depth))
			if b, ok := acc.(bool); ok && !b {
				return false
			}
		}
		return acc
	case *types.Map:
		xm, ym := x.(*omap), y.(*omap)
		if (xm == nil) != (ym == nil) || xm.len() != ym.len() {
			return false
		}
		var acc value = true
		for k, key := range xm.keys {
			v2, ok := ym.lookup(i, key)
			if !ok {
				return false
			}
			acc = i.symAnd(acc, i.deepEqualElem(ut.Elem(), xm.vals[k], v2, depth))
			if b, ok := acc.(bool); ok && !b {
				return false
			}
		}
		return acc
	case *types.Pointer:
		xp, yp := x.(*value), y.(*value)
		if xp == yp {
			return true
		}
		if xp == nil || yp == nil {
			return false
		}
		return i.deepEqualElem(ut.Elem(), *xp, *yp, depth)
	case *types.Struct:
		xs, ys := x.(structure), y.(structure)
		var acc value = true
		for k := range xs {
			acc = i.symAnd(acc, i.deepEqualElem(ut.Field(k).Type(), xs[k], ys[k], depth))
		}
		return acc
	case *types.Array:
		xs, ys := x.(array), y.(array)
		var acc value = true
		for k := range xs {
			acc = i.symAnd(acc, i.deepEqualElem(ut.Elem(), xs[k], ys[k], depth))
		}
		return acc
	}
	return symEquals(i, t, x, y)
}

func (i *interpreter) deepEqualElem(t types.Type, x, y value, depth int) value {
	if _, ok := t.Underlying().(*types.Interface); ok {
		return i.deepEqual(x, y, depth+1)
	}
	return i.deepEqualTyped(t, x, y, depth+1)
}
