package symexec

// Ownership monitor for C16: after verifnd.Freeze, every heap location reachable from the
// frozen roots and from package-level variables is "shared"; a store into one of them is
// recorded as a SHAREDWRITE finding. Runs that only read shared memory cannot race.

import (
	"strings"
)

func (i *interpreter) freeze(roots []value) {
	if i.frozen == nil {
		i.frozen = map[*value]bool{}
		i.frozenMap = map[*omap]bool{}
	}
	seenSlices := map[*value]bool{}
	var walk func(v value)
	walkCell := func(p *value) {
		if p == nil || i.frozen[p] {
			return
		}
		i.frozen[p] = true
		walk(*p)
	}
	walk = func(v value) {
		switch x := v.(type) {
		case *value:
			walkCell(x)
		case structure:
			for k := range x {
				walkCell(&x[k])
			}
		case array:
			for k := range x {
				walkCell(&x[k])
			}
		case []value:
			full := x[:cap(x)]
			if len(full) == 0 || seenSlices[&full[0]] {
				return
			}
			seenSlices[&full[0]] = true
			for k := range full {
				walkCell(&full[k])
			}
		case *omap:
			if x == nil || i.frozenMap[x] {
				return
			}
			i.frozenMap[x] = true
			for k := range x.keys {
				walk(x.keys[k])
				walk(x.vals[k])
			}
		case iface:
			walk(x.v)
		case tuple:
			for _, e := range x {
				walk(e)
			}
		case *closure:
			if x != nil {
				for _, e := range x.Env {
					walk(e)
				}
			}
		}
	}
	for _, r := range roots {
		walk(r)
	}
	for g, cell := range i.globals {
		// package-level variables of the module and of the libraries it uses; the engine's own
		// harness globals (verif*, vTrace ...) are the harness's private state
		name := g.Name()
		if g.Pkg != nil && strings.Contains(g.Pkg.Pkg.Path(), "internal/verifnd") {
			continue
		}
		if strings.HasPrefix(name, "v") && len(name) > 1 && name[1] >= 'A' && name[1] <= 'Z' {
			continue
		}
		if strings.HasPrefix(name, "verif") || strings.HasPrefix(name, "Verif") {
			continue
		}
		walkCell(cell)
	}
}

func (i *interpreter) sharedWrite(what string, fr *frame) {
	if i.lockDepth > 0 {
		return
	}
	where := ""
	if fr != nil && fr.fn != nil {
		where = strings.TrimPrefix(fr.fn.String(), "github.com/GuanceCloud/platypus/")
	}
	i.abortStack = append([]string{}, i.callStack...)
	i.addFinding("SHAREDWRITE", what+" @"+where, true)
}
