package symexec

// Symbolic scalar values and the operators on them.

import (
	"fmt"
	"go/token"
	"go/types"
	"math"
)

type symInt struct {
	w      int
	signed bool
	t      *Term
}
type symBool struct{ t *Term }
type symFloat struct{ t *Term } // float64
type symStr struct{ b []value } // elements: uint8 or symInt{8}

// symRuntimeError is a Go run-time panic raised by the engine on behalf of the target.
type symRuntimeError string

func (e symRuntimeError) Error() string { return "runtime error: " + string(e) }
func (e symRuntimeError) RuntimeError() {}

func isSym(v value) bool {
	switch v.(type) {
	case symInt, symBool, symFloat, symStr:
		return true
	}
	return false
}

func containsSym(v value) bool {
	switch x := v.(type) {
	case symInt, symBool, symFloat, symStr:
		return true
	case structure:
		for _, e := range x {
			if containsSym(e) {
				return true
			}
		}
	case array:
		for _, e := range x {
			if containsSym(e) {
				return true
			}
		}
	case iface:
		return containsSym(x.v)
	}
	return false
}

func intInfo(t types.Type) (w int, signed bool, ok bool) {
	b, isb := t.Underlying().(*types.Basic)
	if !isb {
		return 0, false, false
	}
	switch b.Kind() {
	case types.Int, types.Int64, types.UntypedInt:
		return 64, true, true
	case types.Int32, types.UntypedRune:
		return 32, true, true
	case types.Int16:
		return 16, true, true
	case types.Int8:
		return 8, true, true
	case types.Uint, types.Uint64, types.Uintptr:
		return 64, false, true
	case types.Uint32:
		return 32, false, true
	case types.Uint16:
		return 16, false, true
	case types.Uint8:
		return 8, false, true
	}
	return 0, false, false
}

func isFloat64Type(t types.Type) bool {
	b, ok := t.Underlying().(*types.Basic)
	return ok && (b.Kind() == types.Float64 || b.Kind() == types.UntypedFloat)
}

func concreteIntBits(v value) (uint64, int, bool, bool) {
	switch x := v.(type) {
	case int:
		return uint64(x), 64, true, true
	case int8:
		return uint64(x), 8, true, true
	case int16:
		return uint64(x), 16, true, true
	case int32:
		return uint64(x), 32, true, true
	case int64:
		return uint64(x), 64, true, true
	case uint:
		return uint64(x), 64, false, true
	case uint8:
		return uint64(x), 8, false, true
	case uint16:
		return uint64(x), 16, false, true
	case uint32:
		return uint64(x), 32, false, true
	case uint64:
		return x, 64, false, true
	case uintptr:
		return uint64(x), 64, false, true
	}
	return 0, 0, false, false
}

// iterm returns the term of an integer value (concrete or symbolic) at width w.
func (i *interpreter) iterm(v value, w int) *Term {
	if x, ok := v.(symInt); ok {
		if x.w != w {
			panic(fmt.Sprintf("iterm: width mismatch %d vs %d", x.w, w))
		}
		return x.t
	}
	bits, _, _, ok := concreteIntBits(v)
	if !ok {
		panic(fmt.Sprintf("iterm: %T", v))
	}
	return i.tc.bvConst(w, bits)
}

func (i *interpreter) bterm(v value) *Term {
	switch x := v.(type) {
	case bool:
		return i.tc.boolConst(x)
	case symBool:
		return x.t
	}
	panic(fmt.Sprintf("bterm: %T", v))
}

func (i *interpreter) fterm(v value) *Term {
	switch x := v.(type) {
	case float64:
		return i.tc.fpConst(x)
	case symFloat:
		return x.t
	}
	panic(fmt.Sprintf("fterm: %T", v))
}

// concrete Go value of integer type (w, signed) from bits
func intValueOf(t types.Type, bits uint64) value {
	b := t.Underlying().(*types.Basic)
	switch b.Kind() {
	case types.Int, types.UntypedInt:
		return int(int64(bits))
	case types.Int8:
		return int8(bits)
	case types.Int16:
		return int16(bits)
	case types.Int32, types.UntypedRune:
		return int32(bits)
	case types.Int64:
		return int64(bits)
	case types.Uint:
		return uint(bits)
	case types.Uint8:
		return uint8(bits)
	case types.Uint16:
		return uint16(bits)
	case types.Uint32:
		return uint32(bits)
	case types.Uint64:
		return bits
	case types.Uintptr:
		return uintptr(bits)
	}
	panic("intValueOf: " + t.String())
}

func (i *interpreter) mkInt(t types.Type, w int, signed bool, tm *Term) value {
	if tm.isConst() {
		return intValueOf(t, tm.val)
	}
	return symInt{w, signed, tm}
}
func (i *interpreter) mkBool(tm *Term) value {
	if tm.isConst() {
		return tm.val == 1
	}
	return symBool{tm}
}
func (i *interpreter) mkFloat(tm *Term) value {
	if tm.isConst() {
		return math.Float64frombits(tm.val)
	}
	return symFloat{tm}
}

// symBinop evaluates x op y where at least one operand contains a symbolic part.
// t is the static type of x.
func (i *interpreter) symBinop(op token.Token, t types.Type, yt types.Type, x, y value) value {
	tc := i.tc
	if op == token.EQL {
		return symEquals(i, t, x, y)
	}
	if op == token.NEQ {
		return i.symNot(symEquals(i, t, x, y))
	}
	if isSymBoolOrBool(x) && isSymBoolOrBool(y) {
		switch op {
		case token.AND, token.LAND:
			return i.mkBool(tc.and(i.bterm(x), i.bterm(y)))
		case token.OR, token.LOR:
			return i.mkBool(tc.or(i.bterm(x), i.bterm(y)))
		}
		panic("symBinop bool " + op.String())
	}
	if isStrLike(x) && isStrLike(y) {
		return i.symStrOp(op, toSymStr(x), toSymStr(y))
	}
	if isFloat64Type(t) {
		a, b := i.fterm(x), i.fterm(y)
		switch op {
		case token.ADD:
			return i.mkFloat(tc.op2(oFAdd, kFP, 0, a, b))
		case token.SUB:
			return i.mkFloat(tc.op2(oFSub, kFP, 0, a, b))
		case token.MUL:
			return i.mkFloat(tc.op2(oFMul, kFP, 0, a, b))
		case token.QUO:
			return i.mkFloat(tc.op2(oFDiv, kFP, 0, a, b))
		case token.LSS:
			return i.mkBool(tc.op2(oFLt, kBool, 0, a, b))
		case token.LEQ:
			return i.mkBool(tc.op2(oFLe, kBool, 0, a, b))
		case token.GTR:
			return i.mkBool(tc.op2(oFLt, kBool, 0, b, a))
		case token.GEQ:
			return i.mkBool(tc.op2(oFLe, kBool, 0, b, a))
		}
		panic("symBinop float " + op.String())
	}
	w, signed, ok := intInfo(t)
	if !ok {
		panic(pathAbort{fmt.Sprintf("unsupported: symbolic %s on %s (%T,%T)", op, t, x, y)})
	}
	if op == token.SHL || op == token.SHR {
		// shift count: its own type
		yw, ysigned, _ := intInfo(yt)
		var ytm *Term
		if sy, ok := y.(symInt); ok {
			ytm = sy.t
			yw = sy.w
		} else {
			bits, cw, _, _ := concreteIntBits(y)
			yw = cw
			ytm = tc.bvConst(cw, bits)
		}
		if ysigned {
			neg := tc.op2(oSlt, kBool, 0, ytm, tc.bvConst(yw, 0))
			if i.decide(neg) {
				panic(symRuntimeError("negative shift amount"))
			}
		}
		// bring count to width w, saturating at w
		var cnt *Term
		if yw > w {
			big := tc.op2(oUle, kBool, 0, tc.bvConst(yw, uint64(w)), ytm)
			cnt = tc.ite(big, tc.bvConst(w, uint64(w)), tc.extract(ytm, 0, w))
		} else {
			cnt = tc.zext(ytm, w)
		}
		xt := i.iterm(x, w)
		switch {
		case op == token.SHL:
			return i.mkInt(t, w, signed, tc.op2(oShl, kBV, w, xt, cnt))
		case signed:
			return i.mkInt(t, w, signed, tc.op2(oAShr, kBV, w, xt, cnt))
		default:
			return i.mkInt(t, w, signed, tc.op2(oLShr, kBV, w, xt, cnt))
		}
	}
	xt, yt2 := i.iterm(x, w), i.iterm(y, w)
	ar := func(o top) value { return i.mkInt(t, w, signed, tc.op2(o, kBV, w, xt, yt2)) }
	cmp := func(os, ou top, swap bool) value {
		o := ou
		if signed {
			o = os
		}
		if swap {
			return i.mkBool(tc.op2(o, kBool, 0, yt2, xt))
		}
		return i.mkBool(tc.op2(o, kBool, 0, xt, yt2))
	}
	switch op {
	case token.ADD:
		return ar(oAdd)
	case token.SUB:
		return ar(oSub)
	case token.MUL:
		return ar(oMul)
	case token.QUO, token.REM:
		if i.decide(tc.eq(yt2, tc.bvConst(w, 0))) {
			panic(symRuntimeError("integer divide by zero"))
		}
		switch {
		case op == token.QUO && signed:
			return ar(oSDiv)
		case op == token.QUO:
			return ar(oUDiv)
		case signed:
			return ar(oSRem)
		default:
			return ar(oURem)
		}
	case token.AND:
		return ar(oAnd)
	case token.OR:
		return ar(oOr)
	case token.XOR:
		return ar(oXor)
	case token.AND_NOT:
		return i.mkInt(t, w, signed, tc.op2(oAnd, kBV, w, xt, tc.op1(oNot, kBV, w, yt2)))
	case token.LSS:
		return cmp(oSlt, oUlt, false)
	case token.LEQ:
		return cmp(oSle, oUle, false)
	case token.GTR:
		return cmp(oSlt, oUlt, true)
	case token.GEQ:
		return cmp(oSle, oUle, true)
	}
	panic("symBinop: " + op.String())
}

func isSymBoolOrBool(v value) bool {
	switch v.(type) {
	case bool, symBool:
		return true
	}
	return false
}

func isStrLike(v value) bool {
	switch v.(type) {
	case string, symStr:
		return true
	}
	return false
}

func toSymStr(v value) symStr {
	switch x := v.(type) {
	case symStr:
		return x
	case string:
		b := make([]value, len(x))
		for k := 0; k < len(x); k++ {
			b[k] = x[k]
		}
		return symStr{b}
	}
	panic(fmt.Sprintf("toSymStr %T", v))
}

// normStr turns a symStr whose bytes are all concrete back into a Go string.
func normStr(s symStr) value {
	for _, e := range s.b {
		if _, ok := e.(symInt); ok {
			return s
		}
	}
	bs := make([]byte, len(s.b))
	for k, e := range s.b {
		bs[k] = e.(uint8)
	}
	return string(bs)
}

func (i *interpreter) symStrEqTerm(x, y symStr) *Term {
	tc := i.tc
	if len(x.b) != len(y.b) {
		return tc.boolConst(false)
	}
	acc := tc.boolConst(true)
	for k := range x.b {
		acc = tc.and(acc, tc.eq(i.iterm(x.b[k], 8), i.iterm(y.b[k], 8)))
	}
	return acc
}

func (i *interpreter) symStrLtTerm(x, y symStr, k int, orEq bool) *Term {
	tc := i.tc
	if k == len(x.b) {
		if k < len(y.b) {
			return tc.boolConst(true)
		}
		return tc.boolConst(orEq)
	}
	if k == len(y.b) {
		return tc.boolConst(false)
	}
	a, b := i.iterm(x.b[k], 8), i.iterm(y.b[k], 8)
	return tc.ite(tc.op2(oUlt, kBool, 0, a, b), tc.boolConst(true),
		tc.ite(tc.eq(a, b), i.symStrLtTerm(x, y, k+1, orEq), tc.boolConst(false)))
}

func (i *interpreter) symStrOp(op token.Token, x, y symStr) value {
	switch op {
	case token.ADD:
		return normStr(symStr{append(append([]value{}, x.b...), y.b...)})
	case token.LSS:
		return i.mkBool(i.symStrLtTerm(x, y, 0, false))
	case token.LEQ:
		return i.mkBool(i.symStrLtTerm(x, y, 0, true))
	case token.GTR:
		return i.mkBool(i.symStrLtTerm(y, x, 0, false))
	case token.GEQ:
		return i.mkBool(i.symStrLtTerm(y, x, 0, true))
	}
	panic("symStrOp " + op.String())
}

func (i *interpreter) symNot(v value) value {
	switch x := v.(type) {
	case bool:
		return !x
	case symBool:
		return i.mkBool(i.tc.not(x.t))
	}
	panic("symNot")
}

func (i *interpreter) symAnd(a, b value) value {
	if ab, ok := a.(bool); ok {
		if !ab {
			return false
		}
		return b
	}
	if bb, ok := b.(bool); ok {
		if !bb {
			return false
		}
		return a
	}
	return i.mkBool(i.tc.and(i.bterm(a), i.bterm(b)))
}

// symEquals is structural equality that may yield a symbolic boolean.
func symEquals(i *interpreter, t types.Type, x, y value) value {
	if !containsSym(x) && !containsSym(y) {
		return equals(t, x, y)
	}
	switch xs := x.(type) {
	case structure:
		ys := y.(structure)
		st := t.Underlying().(*types.Struct)
		var acc value = true
		for k := range xs {
			acc = i.symAnd(acc, symEquals(i, st.Field(k).Type(), xs[k], ys[k]))
		}
		return acc
	case array:
		ys := y.(array)
		et := t.Underlying().(*types.Array).Elem()
		var acc value = true
		for k := range xs {
			acc = i.symAnd(acc, symEquals(i, et, xs[k], ys[k]))
		}
		return acc
	case iface:
		ys, ok := y.(iface)
		if !ok {
			panic(fmt.Sprintf("symEquals iface vs %T", y))
		}
		if xs.t == nil || ys.t == nil {
			return xs.t == nil && ys.t == nil
		}
		if !types.Identical(xs.t, ys.t) {
			return false
		}
		return symEquals(i, xs.t, xs.v, ys.v)
	}
	if isStrLike(x) && isStrLike(y) {
		return i.mkBool(i.symStrEqTerm(toSymStr(x), toSymStr(y)))
	}
	if isSymBoolOrBool(x) && isSymBoolOrBool(y) {
		return i.mkBool(i.tc.eq(i.bterm(x), i.bterm(y)))
	}
	if isFloat64Type(t) {
		return i.mkBool(i.tc.op2(oFEq, kBool, 0, i.fterm(x), i.fterm(y)))
	}
	if w, _, ok := intInfo(t); ok {
		return i.mkBool(i.tc.eq(i.iterm(x, w), i.iterm(y, w)))
	}
	// fall back on dynamic kinds (t may be an interface's dynamic type alias)
	if sx, ok := x.(symInt); ok {
		return i.mkBool(i.tc.eq(sx.t, i.iterm(y, sx.w)))
	}
	if sy, ok := y.(symInt); ok {
		return i.mkBool(i.tc.eq(i.iterm(x, sy.w), sy.t))
	}
	panic(pathAbort{fmt.Sprintf("unsupported: symbolic equality on %s (%T,%T)", t, x, y)})
}

// symConv converts x from tsrc to tdst when x is symbolic. ok=false means "not handled".
func (i *interpreter) symConv(tdst, tsrc types.Type, x value) (value, bool) {
	tc := i.tc
	switch xv := x.(type) {
	case symInt:
		if isFloat64Type(tdst) {
			a := xv.t
			if xv.signed {
				return i.mkFloat(tc.op1(oSIToFP, kFP, 0, tc.sextT(a, 64))), true
			}
			return i.mkFloat(tc.op1(oUIToFP, kFP, 0, tc.zext(a, 64))), true
		}
		if b, ok := tdst.Underlying().(*types.Basic); ok && b.Info()&types.IsString != 0 {
			return i.runeToString(xv), true
		}
		w, signed, ok := intInfo(tdst)
		if !ok {
			panic(pathAbort{fmt.Sprintf("unsupported: symConv int -> %s", tdst)})
		}
		switch {
		case w == xv.w:
			return symInt{w, signed, xv.t}, true
		case w < xv.w:
			return i.mkInt(tdst, w, signed, tc.extract(xv.t, 0, w)), true
		default:
			if xv.signed {
				return i.mkInt(tdst, w, signed, tc.sextT(xv.t, w)), true
			}
			return i.mkInt(tdst, w, signed, tc.zext(xv.t, w)), true
		}
	case symFloat:
		if isFloat64Type(tdst) {
			return xv, true
		}
		w, signed, ok := intInfo(tdst)
		if !ok || !signed || w != 64 {
			// other widths: go through int64 (amd64 semantics for in-range values)
			if ok && signed {
				v64 := i.fpToInt64(xv.t)
				return i.mkInt(tdst, w, signed, tc.extract(v64, 0, w)), true
			}
			panic(pathAbort{fmt.Sprintf("unsupported: symConv float64 -> %s", tdst)})
		}
		return i.mkInt(tdst, 64, true, i.fpToInt64(xv.t)), true
	case symStr:
		if sl, ok := tdst.Underlying().(*types.Slice); ok {
			if eb, ok := sl.Elem().Underlying().(*types.Basic); ok && eb.Kind() == types.Uint8 {
				return append([]value{}, xv.b...), true
			}
			// []rune
			var res []value
			it := &symStrIter{i: i, s: xv}
			for {
				tp := it.next()
				if !tp[0].(bool) {
					break
				}
				res = append(res, tp[2])
			}
			return res, true
		}
		return xv, true
	case []value:
		if b, ok := tdst.Underlying().(*types.Basic); ok && b.Info()&types.IsString != 0 {
			anySym := false
			for _, e := range xv {
				if isSym(e) {
					anySym = true
				}
			}
			if anySym {
				et := tsrc.Underlying().(*types.Slice).Elem().Underlying().(*types.Basic)
				if et.Kind() == types.Uint8 {
					return symStr{append([]value{}, xv...)}, true
				}
				// []rune -> string
				var out []value
				for _, e := range xv {
					switch r := e.(type) {
					case symInt:
						out = append(out, toSymStr(i.runeToString(r)).b...)
					default:
						out = append(out, toSymStr(string(rune(asInt64(r)))).b...)
					}
				}
				return normStr(symStr{out}), true
			}
		}
	}
	return nil, false
}

// fpToInt64 implements Go's float64->int64 on amd64 (cvttsd2si): out of range and NaN give MinInt64.
func (i *interpreter) fpToInt64(f *Term) *Term {
	tc := i.tc
	lo := tc.fpConst(-9223372036854775808.0)
	hi := tc.fpConst(9223372036854775808.0)
	inr := tc.and(tc.op2(oFLe, kBool, 0, lo, f), tc.op2(oFLt, kBool, 0, f, hi))
	return tc.ite(inr, tc.op1(oFPToSBV, kBV, 64, f), tc.bvConst(64, 0x8000000000000000))
}

// runeToString implements string(r) for a symbolic integer: forks on the encoding length.
func (i *interpreter) runeToString(r symInt) value {
	tc := i.tc
	// widen to 32 bits as a rune (values beyond int32 are invalid -> U+FFFD)
	var x *Term
	valid := tc.boolConst(true)
	if r.w > 32 {
		var ext *Term
		lowT := tc.extract(r.t, 0, 32)
		if r.signed {
			ext = tc.sextT(lowT, r.w)
		} else {
			ext = tc.zext(lowT, r.w)
		}
		valid = tc.eq(ext, r.t)
		x = lowT
	} else if r.signed {
		x = tc.sextT(r.t, 32)
	} else {
		x = tc.zext(r.t, 32)
	}
	c := func(v uint64) *Term { return tc.bvConst(32, v) }
	ult := func(a, b *Term) *Term { return tc.op2(oUlt, kBool, 0, a, b) }
	b8 := func(t *Term) value { return i.mkInt(types.Typ[types.Uint8], 8, false, tc.extract(t, 0, 8)) }
	or := func(a *Term, v uint64) *Term { return tc.op2(oOr, kBV, 32, a, c(v)) }
	and := func(a *Term, v uint64) *Term { return tc.op2(oAnd, kBV, 32, a, c(v)) }
	shr := func(a *Term, n uint64) *Term { return tc.op2(oLShr, kBV, 32, a, c(n)) }
	bad := tc.or(tc.not(valid), tc.or(tc.not(ult(x, c(0x110000))), tc.and(tc.not(ult(x, c(0xD800))), ult(x, c(0xE000)))))
	if i.decide(bad) {
		return "�"
	}
	if i.decide(ult(x, c(0x80))) {
		return normStr(symStr{[]value{b8(x)}})
	}
	if i.decide(ult(x, c(0x800))) {
		return normStr(symStr{[]value{b8(or(shr(x, 6), 0xC0)), b8(or(and(x, 0x3F), 0x80))}})
	}
	if i.decide(ult(x, c(0x10000))) {
		return normStr(symStr{[]value{b8(or(shr(x, 12), 0xE0)), b8(or(and(shr(x, 6), 0x3F), 0x80)), b8(or(and(x, 0x3F), 0x80))}})
	}
	return normStr(symStr{[]value{b8(or(shr(x, 18), 0xF0)), b8(or(and(shr(x, 12), 0x3F), 0x80)), b8(or(and(shr(x, 6), 0x3F), 0x80)), b8(or(and(x, 0x3F), 0x80))}})
}

func (i *interpreter) symUnop(fr *frame, op token.Token, instrType types.Type, x value) (value, bool) {
	tc := i.tc
	switch xv := x.(type) {
	case symElemPtr:
		if op == token.MUL {
			return i.tableSelect(xv), true
		}
	case symInt:
		switch op {
		case token.SUB:
			return i.mkInt(instrType, xv.w, xv.signed, tc.op1(oNeg, kBV, xv.w, xv.t)), true
		case token.XOR:
			return i.mkInt(instrType, xv.w, xv.signed, tc.op1(oNot, kBV, xv.w, xv.t)), true
		}
		panic("symUnop int " + op.String())
	case symFloat:
		if op == token.SUB {
			return i.mkFloat(tc.op1(oFNeg, kFP, 0, xv.t)), true
		}
	case symBool:
		if op == token.NOT {
			return i.mkBool(tc.not(xv.t)), true
		}
	}
	return nil, false
}

// ---- constant table select ----

// pointer to an element of a constant integer table selected by a symbolic index
type symElemPtr struct {
	arr array
	idx symInt
	et  types.Type
}

func (i *interpreter) tableSelect(p symElemPtr) value {
	w, signed, ok := intInfo(p.et)
	if !ok {
		panic("tableSelect: non-int element " + p.et.String())
	}
	key := &p.arr[0]
	tb := i.tables[key]
	if tb == nil {
		tb = &table{name: fmt.Sprintf("tbl%d", len(i.tables)), iw: p.idx.w, w: w}
		tb.vals = make([]uint64, len(p.arr))
		for k, e := range p.arr {
			bits, _, _, ok := concreteIntBits(e)
			if !ok {
				panic(pathAbort{"unsupported: symbolic index into table with non-concrete element"})
			}
			tb.vals[k] = bits & mask(w)
		}
		i.tables[key] = tb
	}
	res := i.tc.sel(tb, p.idx.t)
	if i.cfg.EagerTables {
		v := i.concretize(res)
		return intValueOf(p.et, v)
	}
	return i.mkInt(p.et, w, signed, res)
}
