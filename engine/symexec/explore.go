package symexec

// Path exploration: decision-prefix re-execution, model reuse, findings, tapes.

import (
	"fmt"
	"go/token"
	"go/types"
	"os"
	"regexp"
	"runtime"
	"runtime/debug"
	"sort"
	"strings"
	"sync"
	"time"

	"golang.org/x/tools/go/ssa"
)

type decision struct {
	b       bool
	v       uint64
	implied bool // only one side was feasible when first explored: no need to assert
}

type pathAbort struct{ why string }

// ndVar is one nondeterministic input of the harness, in call order (the "tape").
type ndVar struct {
	kind string // int64, byte, bool, float64, int (concretised)
	t    *Term  // nil when concrete
	c    uint64
}

// pathState is the per-path symbolic state hanging off the interpreter.
type pathState struct {
	prefix         []decision
	decisions      []decision
	alts           [][]decision
	nd             []ndVar
	vars           []*Term
	model          map[string]uint64
	modelValid     bool
	trace          []string
	instrs         int64
	nondetMapOrder bool
	unknownBranch  int
	obligations    int
	nasserted      int
	failedAssert   bool
}

type Config struct {
	Workers     int
	MaxPaths    int
	Deadline    time.Time
	MaxInstr    int64 // per path; exceeding it is an UNWIND finding
	SolverBin   []string
	QueryMs     int
	Params      map[string]int64
	EagerTables bool
	MaxSamples  int
	Verbose     bool
	InitPkgs    []string // packages whose init functions are interpreted (others skipped)
	DumpDir     string   // when set, sampled property obligations are written there as .smt2 files
	DumpEvery   int
	DumpMax     int
}

type Finding struct {
	Kind  string   `json:"kind"` // ASSERT PANIC UNWIND
	Label string   `json:"label"`
	Key   string   `json:"key"`
	Tape  []int64  `json:"tape"`
	Trace []string `json:"trace,omitempty"`
	Stack []string `json:"stack,omitempty"`
	Count int      `json:"count"`
}

type PathSample struct {
	Tape    []int64  `json:"tape"`
	Trace   []string `json:"trace"`
	Outcome string   `json:"outcome"`
}

type Result struct {
	Paths        int
	Nontrivial   int // paths that discharged at least one obligation
	Remaining    int
	Findings     []*Finding
	Reach        map[string]int
	Obligations  int
	Discharged   int
	Inconclusive map[string]int
	Stats        solverStats
	Instrs       int64
	Samples      []PathSample
	Funcs        map[string]int64
	Wall         time.Duration
	Decisions    int64
	MaxDepth     int
	TimedOut     bool
	DumpVerdicts map[int]string // obligation file number -> z3 verdict
}

type shared struct {
	prog               *ssa.Program
	sizes              types.Sizes
	cfg                *Config
	inits              []*ssa.Function
	entry              *ssa.Function
	mu                 sync.Mutex
	work               [][]decision
	active             int
	res                *Result
	findIdx            map[string]*Finding
	cond               *sync.Cond
	stop               bool
	dumpSeen, dumped   int
	dumpLast           map[*interpreter]int
	DumpVerdicts       map[int]string
	reflectOnce        sync.Once
	reflectPackage     *ssa.Package
	errorMethods       methodSet
	rtypeMethods       methodSet
	runtimeErrorString types.Type
}

func (i *interpreter) newVarTerm(kind string, w int) *Term {
	ps := i.ps
	name := fmt.Sprintf("nd%d", len(ps.vars))
	var t *Term
	if w == 0 {
		t = i.tc.boolVar(name)
		i.sol.send("(declare-const " + name + " Bool)")
	} else {
		t = i.tc.bvVar(name, w)
		i.sol.send(fmt.Sprintf("(declare-const %s (_ BitVec %d))", name, w))
	}
	ps.vars = append(ps.vars, t)
	return t
}

func (i *interpreter) ensureModel() {
	ps := i.ps
	if ps.modelValid {
		return
	}
	r := i.sol.check(nil)
	if r != "sat" {
		i.sol.pop()
		if r == "unsat" {
			panic(pathAbort{"infeasible"})
		}
		panic(pathAbort{"solver: " + r})
	}
	ps.model = i.sol.getModel(ps.vars)
	i.sol.pop()
	ps.modelValid = true
	i.tc.ver++
}

func (i *interpreter) addConstraint(t *Term) {
	if t.isTrue() {
		return
	}
	ps := i.ps
	i.sol.assert(t)
	ps.nasserted++
	if ps.modelValid && i.tc.eval(t, ps.model) != 1 {
		ps.modelValid = false
	}
}

// decide resolves a symbolic condition, forking when both sides are feasible.
func (i *interpreter) decide(c *Term) bool {
	if c.isConst() {
		return c.val == 1
	}
	ps := i.ps
	d := len(ps.decisions)
	if d < len(ps.prefix) {
		pd := ps.prefix[d]
		ps.decisions = append(ps.decisions, pd)
		if !pd.implied {
			if pd.b {
				i.addConstraint(c)
			} else {
				i.addConstraint(i.tc.not(c))
			}
		}
		return pd.b
	}
	i.ensureModel()
	b := i.tc.eval(c, ps.model) == 1
	i.sol.st.Saved++
	var other *Term
	if b {
		other = i.tc.not(c)
	} else {
		other = c
	}
	r := i.sol.check(other)
	i.sol.pop()
	dec := decision{b: b, v: i.curV}
	switch r {
	case "sat":
		alt := make([]decision, len(ps.decisions)+1)
		copy(alt, ps.decisions)
		alt[len(ps.decisions)] = decision{b: !b, v: i.curV}
		ps.alts = append(ps.alts, alt)
		if b {
			i.addConstraint(c)
		} else {
			i.addConstraint(i.tc.not(c))
		}
	case "unsat":
		dec.implied = true
	default:
		ps.unknownBranch++
		if b {
			i.addConstraint(c)
		} else {
			i.addConstraint(i.tc.not(c))
		}
	}
	ps.decisions = append(ps.decisions, dec)
	return b
}

// concretize enumerates the feasible values of a symbolic bit-vector by forking.
func (i *interpreter) concretize(x *Term) uint64 {
	if x.isConst() {
		return x.val
	}
	ps := i.ps
	for n := 0; n < 4096; n++ {
		var v uint64
		d := len(ps.decisions)
		if d < len(ps.prefix) {
			v = ps.prefix[d].v
		} else {
			i.ensureModel()
			v = i.tc.eval(x, ps.model)
		}
		i.curV = v
		cond := i.tc.eq(x, i.tc.bvConst(x.w, v))
		if i.decide(cond) {
			i.curV = 0
			return v
		}
	}
	panic(pathAbort{"concretize: too many values"})
}

func (i *interpreter) concretizeInt(v value) value {
	if s, ok := v.(symInt); ok {
		bits := i.concretize(s.t)
		if s.signed {
			return sext(bits, s.w)
		}
		return int64(bits)
	}
	return v
}

// chooseInt returns a concretised integer in [lo,hi] recorded on the tape.
func (i *interpreter) chooseInt(lo, hi int64, kind string) int64 {
	if lo > hi {
		panic(pathAbort{"assume false"})
	}
	if lo == hi {
		i.ps.nd = append(i.ps.nd, ndVar{kind: "int", c: uint64(lo)})
		return lo
	}
	t := i.newVarTerm("int", 64)
	tc := i.tc
	i.addConstraint(tc.and(tc.op2(oSle, kBool, 0, tc.bvConst(64, uint64(lo)), t), tc.op2(oSle, kBool, 0, t, tc.bvConst(64, uint64(hi)))))
	v := i.concretize(t)
	i.ps.nd = append(i.ps.nd, ndVar{kind: "int", c: v})
	return int64(v)
}

func (i *interpreter) tape() []int64 {
	ps := i.ps
	out := make([]int64, len(ps.nd))
	for k, n := range ps.nd {
		if n.t == nil {
			out[k] = int64(n.c)
			continue
		}
		v := i.tc.eval(n.t, ps.model)
		switch n.kind {
		case "byte":
			out[k] = int64(v & 0xff)
		default:
			out[k] = int64(v)
		}
	}
	return out
}

var numRe = regexp.MustCompile(`-?\b\d+\b|0x[0-9a-f]+`)

func (i *interpreter) addFinding(kind, label string, withModel bool) {
	if kind == "ASSERT" {
		i.ps.failedAssert = true
	}
	if withModel {
		i.ensureModel()
	}
	tape := i.tape()
	key := kind + ":" + label
	sh := i.sh
	sh.mu.Lock()
	defer sh.mu.Unlock()
	if os.Getenv("GOSYM_ALLTAPES") != "" && len(sh.findIdx) < 400 {
		key = fmt.Sprintf("%s#%d", key, len(sh.findIdx))
	}
	if f, ok := sh.findIdx[key]; ok {
		f.Count++
		return
	}
	f := &Finding{Kind: kind, Label: label, Key: key, Tape: tape, Trace: append([]string{}, i.ps.trace...), Count: 1}
	if kind == "PANIC" || kind == "UNWIND" {
		f.Stack = append([]string{}, i.abortStack...)
	}
	sh.findIdx[key] = f
	sh.res.Findings = append(sh.res.Findings, f)
}

func (i *interpreter) inconclusive(why string) {
	sh := i.sh
	sh.mu.Lock()
	sh.res.Inconclusive[why]++
	sh.mu.Unlock()
}

// checkAssert discharges one property obligation.
func (i *interpreter) checkAssert(c value, label string) {
	ps := i.ps
	ps.trace = append(ps.trace, "A:"+label)
	ps.obligations++
	switch c := c.(type) {
	case bool:
		if !c {
			i.addFinding("ASSERT", label, true)
		}
	case symBool:
		i.ensureModel()
		if i.tc.eval(c.t, ps.model) == 0 {
			i.addFinding("ASSERT", label, false)
		} else {
			neg := i.tc.not(c.t)
			if i.cfg.DumpDir != "" {
				i.dumpObligation(neg, label)
			}
			r := i.sol.check(neg)
			if i.cfg.DumpDir != "" {
				i.recordDumpVerdict(r)
			}
			switch r {
			case "sat":
				ps.model = i.sol.getModel(ps.vars)
				i.tc.ver++
				i.sol.pop()
				i.addFinding("ASSERT", label, false)
				ps.modelValid = false
			case "unsat":
				i.sol.pop()
			default:
				i.sol.pop()
				i.inconclusive("assert " + label + ": solver " + r)
			}
		}
		// continue under the assumption that it holds
		r := i.sol.check(c.t)
		i.sol.pop()
		if r == "unsat" {
			panic(pathAbort{"assert-always-fails"})
		}
		i.addConstraint(c.t)
	}
}

// dumpObligation writes one property obligation (path condition and negated assertion) as a
// standalone SMT-LIB2 file so that other solvers can re-decide it.
func (i *interpreter) dumpObligation(neg *Term, label string) {
	sh := i.sh
	sh.mu.Lock()
	sh.dumpSeen++
	n := sh.dumpSeen
	take := sh.dumped < sh.cfg.DumpMax && (n <= 20 || n%sh.cfg.DumpEvery == 0)
	if take {
		sh.dumped++
	}
	k := sh.dumped
	sh.mu.Unlock()
	if !take {
		return
	}
	negStr := i.sol.pr.str(neg) // may emit definitions (recorded in hist)
	var sb strings.Builder
	sb.WriteString("; obligation " + label + "\n")
	for _, l := range i.sol.hist {
		sb.WriteString(l + "\n")
	}
	sb.WriteString("(assert " + negStr + ")\n(check-sat)\n")
	os.WriteFile(fmt.Sprintf("%s/ob%05d.smt2", sh.cfg.DumpDir, k), []byte(sb.String()), 0o644)
	i.lastDump = k
}

// recordDumpVerdict remembers z3's verdict for the obligation just dumped by this interpreter.
func (i *interpreter) recordDumpVerdict(r string) {
	if i.lastDump == 0 {
		return
	}
	i.sh.mu.Lock()
	i.sh.res.DumpVerdicts[i.lastDump] = r
	i.sh.mu.Unlock()
	i.lastDump = 0
}

const ndPkg = "github.com/GuanceCloud/platypus/internal/verifnd."

// intrinsic intercepts verifnd.*, stubs and symbolic-aware library functions.
func (i *interpreter) intrinsic(fr *frame, fn *ssa.Function, args []value) (value, bool) {
	name := fn.String()
	if strings.HasPrefix(name, ndPkg) && fn.Signature.Recv() == nil {
		if fn.Name() == "init" {
			return nil, true
		}
		return i.ndIntrinsic(name[len(ndPkg):], args), true
	}
	if fn.Name() == "init" && fn.Pkg != nil && fn.Signature.Recv() == nil && fn.Parent() == nil {
		if i.wantInit(fn.Pkg.Pkg.Path()) {
			return nil, false
		}
		return nil, true
	}
	if f, ok := libIntrinsics[name]; ok {
		return f(i, fr, args)
	}
	return nil, false
}

func (i *interpreter) wantInit(path string) bool {
	for _, p := range i.cfg.InitPkgs {
		if p == path {
			return true
		}
	}
	return false
}

func (i *interpreter) ndIntrinsic(name string, args []value) value {
	ps := i.ps
	if strings.HasPrefix(name, "VFS") {
		if v, ok := i.vfsIntrinsic(name, args); ok {
			return v
		}
	}
	switch name {
	case "Int64":
		t := i.newVarTerm("int64", 64)
		ps.nd = append(ps.nd, ndVar{kind: "int64", t: t})
		return symInt{64, true, t}
	case "Byte":
		t := i.newVarTerm("byte", 8)
		ps.nd = append(ps.nd, ndVar{kind: "byte", t: t})
		return symInt{8, false, t}
	case "Bool":
		t := i.newVarTerm("bool", 0)
		ps.nd = append(ps.nd, ndVar{kind: "bool", t: t})
		return symBool{t}
	case "Float64":
		t := i.newVarTerm("float64", 64)
		ps.nd = append(ps.nd, ndVar{kind: "float64", t: t})
		return symFloat{i.tc.op1(oFromBits, kFP, 0, t)}
	case "Int", "IntRange":
		return int(i.chooseInt(asInt64(args[0]), asInt64(args[1]), "int"))
	case "Choice":
		return int(i.chooseInt(0, asInt64(args[0])-1, "int"))
	case "Bytes":
		n := int(asInt64(args[0]))
		b := make([]value, n)
		for k := range b {
			t := i.newVarTerm("byte", 8)
			ps.nd = append(ps.nd, ndVar{kind: "byte", t: t})
			b[k] = symInt{8, false, t}
		}
		if n == 0 {
			return ""
		}
		return symStr{b}
	case "Pick":
		return i.concretizeInt(args[0])
	case "PickByte":
		if s, ok := args[0].(symInt); ok {
			return uint8(i.concretize(s.t))
		}
		return args[0]
	case "PickBool":
		if s, ok := args[0].(symBool); ok {
			return i.decide(s.t)
		}
		return args[0]
	case "PickString":
		if s, ok := args[0].(symStr); ok {
			bs := make([]byte, len(s.b))
			for k, e := range s.b {
				if se, ok := e.(symInt); ok {
					bs[k] = byte(i.concretize(se.t))
				} else {
					bs[k] = e.(uint8)
				}
			}
			return string(bs)
		}
		return args[0]
	case "Param":
		if v, ok := i.cfg.Params[args[0].(string)]; ok {
			return int(v)
		}
		return args[1]
	case "Assume":
		switch c := args[0].(type) {
		case bool:
			if !c {
				panic(pathAbort{"assume false"})
			}
		case symBool:
			i.addConstraint(c.t)
			if !ps.modelValid {
				r := i.sol.check(nil)
				if r == "sat" {
					ps.model = i.sol.getModel(ps.vars)
					ps.modelValid = true
					i.tc.ver++
				}
				i.sol.pop()
				if r == "unsat" {
					panic(pathAbort{"assume false"})
				}
				if r != "sat" {
					panic(pathAbort{"solver: " + r})
				}
			}
		}
		return nil
	case "Assert":
		i.checkAssert(args[0], args[1].(string))
		return nil
	case "And", "Or":
		var acc value = name == "And"
		for _, x := range args[0].([]value) {
			if name == "And" {
				acc = i.symAnd(acc, x)
			} else {
				acc = i.symNot(i.symAnd(i.symNot(acc), i.symNot(x)))
			}
		}
		return acc
	case "Implies":
		return i.symNot(i.symAnd(args[0], i.symNot(args[1])))
	case "Reach":
		ps.trace = append(ps.trace, "R:"+args[0].(string))
		return nil
	case "NondetMapOrder":
		ps.nondetMapOrder = args[0].(bool)
		return nil
	case "Freeze":
		// everything reachable from the arguments and from every package-level variable is
		// shared from now on: a later store into it is a SHAREDWRITE finding (C16)
		i.freeze(args[0].([]value))
		return nil
	case "Symbolic":
		return true
	case "IsSymbolic":
		return containsSym(args[0]) || isSymIface(args[0])
	}
	panic("unknown verifnd intrinsic " + name)
}

func isSymIface(v value) bool {
	if f, ok := v.(iface); ok {
		return containsSym(f.v)
	}
	return false
}

// symbolic string iterator: decodes through the real utf8.DecodeRuneInString SSA
type symStrIter struct {
	i   *interpreter
	fr  *frame
	s   symStr
	pos int
}

func (it *symStrIter) next() tuple {
	okv := make(tuple, 3)
	if it.pos >= len(it.s.b) {
		okv[0] = false
		return okv
	}
	dec := it.i.prog.ImportedPackage("unicode/utf8").Func("DecodeRuneInString")
	res := callSSA(it.i, it.fr, token.NoPos, dec, []value{symStr{it.s.b[it.pos:]}}, nil).(tuple)
	okv[0] = true
	okv[1] = it.pos
	okv[2] = res[0]
	it.pos += int(asInt64(it.i.concretizeInt(res[1])))
	return okv
}

// ---------------------------------------------------------------- driver

func (sh *shared) initReflectOnce(i *interpreter) {
	sh.reflectOnce.Do(func() {
		initReflect(i)
		sh.reflectPackage = i.reflectPackage
		sh.errorMethods = i.errorMethods
		sh.rtypeMethods = i.rtypeMethods
		sh.runtimeErrorString = sh.prog.ImportedPackage("runtime").Type("errorString").Object().Type()
	})
	i.reflectPackage = sh.reflectPackage
	i.errorMethods = sh.errorMethods
	i.rtypeMethods = sh.rtypeMethods
	i.runtimeErrorString = sh.runtimeErrorString
}

// Explore runs entry over all feasible paths.
func Explore(prog *ssa.Program, entry *ssa.Function, inits []*ssa.Function, cfg *Config) *Result {
	t0 := time.Now()
	if cfg.Workers <= 0 {
		cfg.Workers = runtime.NumCPU()
	}
	if cfg.MaxInstr == 0 {
		cfg.MaxInstr = 50_000_000
	}
	if cfg.QueryMs == 0 {
		cfg.QueryMs = 30000
	}
	if len(cfg.SolverBin) == 0 {
		cfg.SolverBin = []string{"z3", "-in"}
	}
	if cfg.MaxSamples == 0 {
		cfg.MaxSamples = 24
	}
	sh := &shared{prog: prog, sizes: &types.StdSizes{WordSize: 8, MaxAlign: 8}, cfg: cfg, inits: inits, entry: entry,
		res: &Result{Reach: map[string]int{}, Inconclusive: map[string]int{}, Funcs: map[string]int64{}, DumpVerdicts: map[int]string{}}, findIdx: map[string]*Finding{}}
	if cfg.DumpDir != "" {
		if cfg.DumpEvery <= 0 {
			cfg.DumpEvery = 50
		}
		if cfg.DumpMax <= 0 {
			cfg.DumpMax = 150
		}
	}
	sh.cond = sync.NewCond(&sh.mu)
	sh.work = [][]decision{{}}
	var wg sync.WaitGroup
	for w := 0; w < cfg.Workers; w++ {
		wg.Add(1)
		go func() {
			defer wg.Done()
			sh.worker()
		}()
	}
	wg.Wait()
	sh.res.Remaining = len(sh.work)
	sh.res.Wall = time.Since(t0)
	sort.Slice(sh.res.Findings, func(a, b int) bool { return sh.res.Findings[a].Key < sh.res.Findings[b].Key })
	return sh.res
}

func (sh *shared) worker() {
	sol := newSolver(sh.cfg.SolverBin, sh.cfg.QueryMs)
	sol.keep = sh.cfg.DumpDir != ""
	defer sol.close()
	defer func() {
		sh.mu.Lock()
		st := &sh.res.Stats
		st.Queries += sol.st.Queries
		st.Sat += sol.st.Sat
		st.Unsat += sol.st.Unsat
		st.Unknown += sol.st.Unknown
		st.Errors += sol.st.Errors
		st.Wall += sol.st.Wall
		st.Saved += sol.st.Saved
		sh.mu.Unlock()
	}()
	for {
		sh.mu.Lock()
		for len(sh.work) == 0 && sh.active > 0 && !sh.stop {
			sh.cond.Wait()
		}
		if sh.stop || len(sh.work) == 0 {
			sh.mu.Unlock()
			sh.cond.Broadcast()
			return
		}
		if (sh.cfg.MaxPaths > 0 && sh.res.Paths >= sh.cfg.MaxPaths) || (!sh.cfg.Deadline.IsZero() && time.Now().After(sh.cfg.Deadline)) {
			sh.stop = true
			sh.res.TimedOut = true
			sh.mu.Unlock()
			sh.cond.Broadcast()
			return
		}
		pre := sh.work[len(sh.work)-1]
		sh.work = sh.work[:len(sh.work)-1]
		sh.active++
		pathNo := sh.res.Paths
		sh.res.Paths++
		sh.mu.Unlock()

		alts, ps, funcs := sh.runPath(sol, pre, pathNo)

		sh.mu.Lock()
		sh.work = append(sh.work, alts...)
		sh.active--
		sh.res.Instrs += ps.instrs
		sh.res.Obligations += ps.obligations
		if ps.obligations > 0 {
			sh.res.Nontrivial++
		}
		sh.res.Decisions += int64(len(ps.decisions))
		if len(ps.decisions) > sh.res.MaxDepth {
			sh.res.MaxDepth = len(ps.decisions)
		}
		for _, l := range ps.trace {
			sh.res.Reach[l]++
		}
		for k, n := range funcs {
			sh.res.Funcs[k] += n
		}
		if ps.unknownBranch > 0 {
			sh.res.Inconclusive["branch feasibility unknown"] += ps.unknownBranch
		}
		sh.mu.Unlock()
		sh.cond.Broadcast()
	}
}

func (sh *shared) runPath(sol *solver, pre []decision, pathNo int) (alts [][]decision, ps *pathState, funcs map[string]int64) {
	ps = &pathState{prefix: pre}
	sol.reset()
	i := &interpreter{prog: sh.prog, globals: make(map[*ssa.Global]*value), sizes: sh.sizes, goroutines: 1,
		sol: sol, ps: ps, sh: sh, cfg: sh.cfg, tc: &termCtx{ver: 1}, tables: map[*value]*table{}, funcs: map[string]int64{}}
	sh.initReflectOnce(i)
	for _, pkg := range sh.prog.AllPackages() {
		for _, m := range pkg.Members {
			if g, ok := m.(*ssa.Global); ok {
				cell := zero(typeparams.MustDeref(g.Type()))
				i.globals[g] = &cell
			}
		}
	}
	outcome := "ok"
	func() {
		defer func() {
			if r := recover(); r != nil {
				switch p := r.(type) {
				case pathAbort:
					switch {
					case p.why == "assume false" || p.why == "infeasible" || p.why == "assert-always-fails":
						outcome = "pruned"
					case p.why == "UNWIND":
						outcome = "unwind"
						safely(func() { i.addFinding("UNWIND", "instruction budget exceeded", true) })
					default:
						outcome = "aborted"
						i.inconclusive(p.why)
						if sh.cfg.Verbose {
							fmt.Fprintln(os.Stderr, "ABORT", p.why, "stack:", strings.Join(tail(i.abortStack, 6), " > "))
						}
					}
				case targetPanic:
					outcome = "panic"
					msg := toString(p.v)
					if f, ok := p.v.(iface); ok && f.t != nil {
						msg = f.t.String() + ": " + msg
					}
					safely(func() { i.addFinding("PANIC", panicLabel(i, msg), true) })
				case runtime.Error:
					outcome = "panic"
					safely(func() { i.addFinding("PANIC", panicLabel(i, p.Error()), true) })
				case exitPanic:
					outcome = "exit"
				default:
					outcome = "aborted"
					msg := fmt.Sprint(r)
					if len(msg) > 200 {
						msg = msg[:200]
					}
					i.inconclusive("engine: " + msg)
					if sh.cfg.Verbose {
						fmt.Fprintln(os.Stderr, "ENGINE PANIC", msg, "stack:", strings.Join(tail(i.abortStack, 6), " > "))
						if os.Getenv("GOSYM_DEBUG") != "" {
							os.Stderr.Write(debug.Stack())
						}
					}
				}
			}
		}()
		for _, f := range sh.inits {
			call(i, nil, token.NoPos, f, nil)
		}
		call(i, nil, token.NoPos, sh.entry, nil)
	}()
	if outcome == "ok" || outcome == "panic" {
		sh.mu.Lock()
		want := len(sh.res.Samples) < sh.cfg.MaxSamples && (pathNo < 8 || pathNo%53 == 0)
		sh.mu.Unlock()
		if want {
			safely(func() {
				i.ensureModel()
				if ps.failedAssert {
					return // its tape is replayed as a finding already
				}
				s := PathSample{Tape: i.tape(), Trace: append([]string{}, ps.trace...), Outcome: outcome}
				sh.mu.Lock()
				sh.res.Samples = append(sh.res.Samples, s)
				sh.mu.Unlock()
			})
		}
	}
	return ps.alts, ps, i.funcs
}

func safely(f func()) {
	defer func() { recover() }()
	f()
}

func tail(s []string, n int) []string {
	if len(s) > n {
		return s[len(s)-n:]
	}
	return s
}

// panicLabel normalises a panic message and adds the innermost repository function.
func panicLabel(i *interpreter, msg string) string {
	msg = numRe.ReplaceAllString(msg, "N")
	if len(msg) > 120 {
		msg = msg[:120]
	}
	where := ""
	for k := len(i.abortStack) - 1; k >= 0; k-- {
		if strings.Contains(i.abortStack[k], "GuanceCloud/platypus") && !strings.Contains(i.abortStack[k], "verifnd") {
			where = i.abortStack[k]
			where = strings.TrimPrefix(where, "github.com/GuanceCloud/platypus/")
			break
		}
	}
	return msg + " @" + where
}
