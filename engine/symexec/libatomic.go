package symexec

// sync/atomic on a single goroutine: plain loads, stores and read-modify-writes.
// (Atomic writes to shared memory are not data races, so the ownership monitor ignores them.)

import (
	"fmt"
	"go/token"
	"go/types"
	"os"
	"strings"

	"golang.org/x/tools/go/ssa"
)

func init() {
	ld := func(i *interpreter, fr *frame, a []value) (value, bool) {
		p, ok := a[0].(*value)
		if !ok || p == nil {
			panic(symRuntimeError("invalid memory address or nil pointer dereference"))
		}
		return *p, true
	}
	st := func(i *interpreter, fr *frame, a []value) (value, bool) {
		*a[0].(*value) = a[1]
		return nil, true
	}
	swap := func(i *interpreter, fr *frame, a []value) (value, bool) {
		p := a[0].(*value)
		old := *p
		*p = a[1]
		return old, true
	}
	add := func(t types.Type) libFn {
		return func(i *interpreter, fr *frame, a []value) (value, bool) {
			p := a[0].(*value)
			*p = binop(token.ADD, t, *p, a[1])
			return *p, true
		}
	}
	cas := func(t types.Type) libFn {
		return func(i *interpreter, fr *frame, a []value) (value, bool) {
			p := a[0].(*value)
			eq := symEquals(i, t, *p, a[1])
			same := false
			switch e := eq.(type) {
			case bool:
				same = e
			case symBool:
				same = i.decide(e.t)
			}
			if same {
				*p = a[2]
			}
			return same, true
		}
	}
	kinds := map[string]types.Type{
		"Int32": types.Typ[types.Int32], "Int64": types.Typ[types.Int64],
		"Uint32": types.Typ[types.Uint32], "Uint64": types.Typ[types.Uint64],
		"Uintptr": types.Typ[types.Uintptr], "Pointer": types.Typ[types.UnsafePointer],
	}
	for k, t := range kinds {
		libIntrinsics["sync/atomic.Load"+k] = ld
		libIntrinsics["sync/atomic.Store"+k] = st
		libIntrinsics["sync/atomic.Swap"+k] = swap
		libIntrinsics["sync/atomic.CompareAndSwap"+k] = cas(t)
		if k != "Pointer" {
			libIntrinsics["sync/atomic.Add"+k] = add(t)
		}
	}
	libIntrinsics["time.runtimeNano"] = func(i *interpreter, fr *frame, a []value) (value, bool) { return int64(0), true }
	// only used to pre-fill a Location's lookup cache
	libIntrinsics["time.now"] = func(i *interpreter, fr *frame, a []value) (value, bool) {
		return tuple{int64(0), int32(0), int64(0)}, true
	}
	libIntrinsics["time.initLocal"] = func(i *interpreter, fr *frame, a []value) (value, bool) {
		return nil, true // the local zone is UTC (the zero Location)
	}
}

// time.LoadLocation: the tzdata file is read natively (input data of the sandbox, the same
// file the native replay reads); its parsing (time.LoadLocationFromTZData) runs from SSA.
func init() {
	libIntrinsics["time.LoadLocation"] = func(i *interpreter, fr *frame, a []value) (value, bool) {
		name := strArg(a[0])
		tp := i.prog.ImportedPackage("time")
		glob := func(n string) value {
			g, _ := tp.Members[n].(*ssa.Global)
			if g == nil {
				panic(pathAbort{"unsupported: time." + n})
			}
			return *i.globals[g]
		}
		switch name {
		case "", "UTC":
			return tuple{glob("UTC"), iface{}}, true
		case "Local":
			return tuple{glob("Local"), iface{}}, true
		}
		bad := strings.Contains(name, "..") || name[0] == '/' || name[0] == '\\'
		if bad {
			return tuple{(*value)(nil), i.mkError(fr, fmt.Errorf("time: invalid location name"))}, true
		}
		var data []byte
		var err error
		for _, dir := range []string{"/usr/share/zoneinfo/", "/usr/share/lib/zoneinfo/", "/usr/lib/locale/TZ/"} {
			if data, err = os.ReadFile(dir + name); err == nil {
				break
			}
		}
		if err != nil {
			return tuple{(*value)(nil), i.mkError(fr, fmt.Errorf("unknown time zone %s", name))}, true
		}
		fn := tp.Func("LoadLocationFromTZData")
		return callSSA(i, fr, token.NoPos, fn, []value{name, bytesToValues(data)}, nil), true
	}
}

// influxdb1-client/models builds strings from byte slices through reflect.SliceHeader and
// unsafe.Pointer; semantically that is string(b).
func init() {
	libIntrinsics["github.com/influxdata/influxdb1-client/models.unsafeBytesToString"] = func(i *interpreter, fr *frame, a []value) (value, bool) {
		tb := types.NewSlice(types.Typ[types.Byte])
		if v, ok := i.symConv(types.Typ[types.String], tb, a[0]); ok {
			return v, true
		}
		return conv(types.Typ[types.String], tb, a[0]), true
	}
}

// bytealg.Compare / CompareString on concrete bytes (symbolic input aborts the path).
func init() {
	cmp := func(i *interpreter, fr *frame, a []value) (value, bool) {
		x, y := bytesOf(a[0]), bytesOf(a[1])
		for k := 0; k < len(x) && k < len(y); k++ {
			bx, ok1 := x[k].(uint8)
			by, ok2 := y[k].(uint8)
			if !ok1 || !ok2 {
				panic(pathAbort{"unsupported: bytealg.Compare on symbolic bytes"})
			}
			if bx != by {
				if bx < by {
					return int(-1), true
				}
				return int(1), true
			}
		}
		switch {
		case len(x) < len(y):
			return int(-1), true
		case len(x) > len(y):
			return int(1), true
		}
		return int(0), true
	}
	libIntrinsics["internal/bytealg.Compare"] = cmp
	libIntrinsics["internal/bytealg.CompareString"] = cmp
}
