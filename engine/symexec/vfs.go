package symexec

// A tiny in-engine file system and output bridge for the command-line runner (C20).
// The harness populates it through verifnd.VFS*; os.ReadFile / os.ReadDir read from it.
// Natively the same verifnd functions write real files under a temporary directory.

import (
	"io/fs"
	"path/filepath"
	"testing/fstest"
	"golang.org/x/tools/go/ssa"
	"time"
	"encoding/json"
	"fmt"
	"go/token"
	"go/types"
	"sort"
	"strings"
)

type vfsEntry struct {
	isDir   bool
	content string
}

func (i *interpreter) vfs() map[string]*vfsEntry {
	if i.vfsFiles == nil {
		i.vfsFiles = map[string]*vfsEntry{"/vfs": {isDir: true}}
	}
	return i.vfsFiles
}

// vfsStat implements os.Stat / os.Lstat over the in-engine file system.
func (i *interpreter) vfsStat(fr *frame, path string) value {
	path = strings.TrimSuffix(path, "/")
	e, ok := i.vfs()[path]
	if !ok {
		return tuple{iface{}, i.osError(fr, "stat "+path+": no such file or directory")}
	}
	nd := i.prog.ImportedPackage(strings.TrimSuffix(ndPkg, "."))
	if nd == nil || nd.Type("FileInf") == nil {
		panic(pathAbort{"unsupported: os.Stat needs verifnd.FileInf"})
	}
	name := path[strings.LastIndex(path, "/")+1:]
	return tuple{iface{t: nd.Type("FileInf").Type(), v: structure{name, e.isDir, int64(len(e.content))}}, iface{}}
}

func (i *interpreter) osError(fr *frame, msg string) value {
	return i.mkError(fr, fmt.Errorf("%s", msg))
}

func (i *interpreter) vfsIntrinsic(name string, args []value) (value, bool) {
	switch name {
	case "VFSRoot":
		i.vfs()
		return "/vfs", true
	case "VFSWrite":
		i.vfs()[strArg(args[0])] = &vfsEntry{content: strArg(args[1])}
		return nil, true
	case "VFSMkdir":
		i.vfs()[strArg(args[0])] = &vfsEntry{isDir: true}
		return nil, true
	case "VFSCleanup":
		return nil, true
	}
	return nil, false
}

func init() {
	vf := map[string]libFn{
		"os.ReadFile": func(i *interpreter, fr *frame, a []value) (value, bool) {
			e, ok := i.vfs()[strArg(a[0])]
			if !ok {
				return tuple{[]value(nil), i.osError(fr, "open "+strArg(a[0])+": no such file or directory")}, true
			}
			if e.isDir {
				return tuple{[]value(nil), i.osError(fr, "read "+strArg(a[0])+": is a directory")}, true
			}
			i.ps.trace = append(i.ps.trace, "OUT:read:"+strArg(a[0]))
			return tuple{bytesToValues([]byte(e.content)), iface{}}, true
		},
		"os.Getwd": func(i *interpreter, fr *frame, a []value) (value, bool) {
			return tuple{"/vfs", iface{}}, true
		},
		"os.Chdir": func(i *interpreter, fr *frame, a []value) (value, bool) {
			if strArg(a[0]) != "/vfs" {
				panic(pathAbort{"unsupported: os.Chdir to a directory other than the VFS root"})
			}
			return iface{}, true
		},
		"os.Stat": func(i *interpreter, fr *frame, a []value) (value, bool) { return i.vfsStat(fr, strArg(a[0])), true },
		"os.Lstat": func(i *interpreter, fr *frame, a []value) (value, bool) { return i.vfsStat(fr, strArg(a[0])), true },
		"path/filepath.Glob": func(i *interpreter, fr *frame, a []value) (value, bool) {
			// the real matcher (io/fs.Glob has filepath.Glob's semantics) over the in-engine files
			m := fstest.MapFS{}
			for p, e := range i.vfs() {
				if p == "/" || !strings.HasPrefix(p, "/") {
					continue
				}
				if e.isDir {
					m[p[1:]] = &fstest.MapFile{Mode: fs.ModeDir | 0o755}
				} else {
					m[p[1:]] = &fstest.MapFile{Data: []byte(e.content)}
				}
			}
			pat := strArg(a[0])
			if !strings.HasPrefix(pat, "/") {
				panic(pathAbort{"unsupported: filepath.Glob on a relative pattern"})
			}
			res, err := fs.Glob(m, pat[1:])
			if err != nil {
				return tuple{[]value(nil), i.mkError(fr, filepath.ErrBadPattern)}, true
			}
			for k := range res {
				res[k] = "/" + res[k]
			}
			return tuple{strSlice(res), iface{}}, true
		},
		"os.ReadDir": func(i *interpreter, fr *frame, a []value) (value, bool) {
			dir := strings.TrimSuffix(strArg(a[0]), "/")
			e, ok := i.vfs()[dir]
			if !ok || !e.isDir {
				return tuple{[]value(nil), i.osError(fr, "open "+dir+": no such file or directory")}, true
			}
			var names []string
			for p := range i.vfs() {
				if strings.HasPrefix(p, dir+"/") && !strings.Contains(p[len(dir)+1:], "/") {
					names = append(names, p[len(dir)+1:])
				}
			}
			sort.Strings(names)
			nd := i.prog.ImportedPackage(strings.TrimSuffix(ndPkg, "."))
			if nd == nil || nd.Type("DirEnt") == nil {
				panic(pathAbort{"unsupported: os.ReadDir needs verifnd.DirEnt"})
			}
			dt := nd.Type("DirEnt").Type()
			var out []value
			for _, n := range names {
				ent := i.vfs()[dir+"/"+n]
				out = append(out, iface{t: dt, v: structure{n, ent.isDir}})
			}
			return tuple{out, iface{}}, true
		},
		"time.Now": func(i *interpreter, fr *frame, a []value) (value, bool) {
			// an arbitrary fixed instant: 2001-09-09T01:46:40Z, wall clock only, in time.Local
			tp := i.prog.ImportedPackage("time")
			t := zero(tp.Type("Time").Type()).(structure)
			t[1] = int64(1000000000 + (1969*365+1969/4-1969/100+1969/400)*86400)
			if g, _ := tp.Members["Local"].(*ssa.Global); g != nil && i.globals[g] != nil {
				t[2] = *i.globals[g]
			}
			return t, true
		},
		"encoding/json.NewEncoder": func(i *interpreter, fr *frame, a []value) (value, bool) {
			return newNative(&jsonEnc{w: a[0]}), true
		},
		"(*encoding/json.Encoder).SetEscapeHTML": func(i *interpreter, fr *frame, a []value) (value, bool) {
			getNative(a[0]).(*jsonEnc).escapeOff = !a[1].(bool)
			return nil, true
		},
		"(*encoding/json.Encoder).SetIndent": func(i *interpreter, fr *frame, a []value) (value, bool) {
			e := getNative(a[0]).(*jsonEnc)
			e.prefix, e.indent = strArg(a[1]), strArg(a[2])
			return nil, true
		},
		"(*encoding/json.Encoder).Encode": func(i *interpreter, fr *frame, a []value) (value, bool) {
			e := getNative(a[0]).(*jsonEnc)
			gv := toGoLoose(a[1])
			var sb strings.Builder
			enc := json.NewEncoder(&sb)
			enc.SetEscapeHTML(!e.escapeOff)
			enc.SetIndent(e.prefix, e.indent)
			if err := enc.Encode(gv); err != nil {
				return i.mkError(fr, err), true
			}
			// write into the target's io.Writer through its own Write method
			w := e.w.(iface)
			m := i.prog.LookupMethod(w.t, nil, "Write")
			if m == nil {
				panic(pathAbort{"unsupported: json.Encoder writer without Write"})
			}
			callSSA(i, fr, token.NoPos, m, []value{w.v, bytesToValues([]byte(sb.String()))}, nil)
			return iface{}, true
		},
	}
	for k, v := range vf {
		libIntrinsics[k] = v
	}
}

type jsonEnc struct {
	w              value
	escapeOff      bool
	prefix, indent string
}

// toGoLoose is toGo that also accepts map[string]string and replaces structs (time.Time) by a
// placeholder string: what is rendered for them is outside the claim.
func toGoLoose(v value) any {
	switch x := v.(type) {
	case iface:
		if x.t == nil {
			return nil
		}
		if _, isStruct := x.t.Underlying().(*types.Struct); isStruct {
			if x.t.String() == "time.Time" {
				return nativeTime(x.v.(structure))
			}
			return "<" + x.t.String() + ">"
		}
		return toGoLoose(x.v)
	case structure:
		return "<struct>"
	case *omap:
		if x == nil {
			return map[string]any(nil)
		}
		out := map[string]any{}
		for k, key := range x.keys {
			ks, ok := key.(string)
			if !ok {
				panic(pathAbort{"unsupported: bridge on symbolic map key"})
			}
			out[ks] = toGoLoose(x.vals[k])
		}
		return out
	case []value:
		out := make([]any, len(x))
		for k, e := range x {
			out[k] = toGoLoose(e)
		}
		return out
	}
	return toGo(v)
}

// nativeTime converts an interpreter time.Time{wall, ext, loc} into a native one. Only UTC and
// the local zone (which is UTC in the engine, see time.initLocal) are supported.
func nativeTime(st structure) time.Time {
	wall, ok1 := st[0].(uint64)
	ext, ok2 := st[1].(int64)
	if !ok1 || !ok2 {
		panic(pathAbort{"unsupported: bridge on symbolic time"})
	}
	if loc, ok := st[2].(*value); ok && loc != nil {
		if ls, ok := (*loc).(structure); ok {
			if name, _ := ls[0].(string); name != "" && name != "UTC" && name != "Local" {
				panic(pathAbort{"unsupported: bridge on a time in zone " + name})
			}
		}
	}
	const (
		hasMonotonic   = 1 << 63
		nsecMask       = 1<<30 - 1
		nsecShift      = 30
		wallToInternal = (1884*365 + 1884/4 - 1884/100 + 1884/400) * 86400
		unixToInternal = (1969*365 + 1969/4 - 1969/100 + 1969/400) * 86400
	)
	sec := ext
	if wall&hasMonotonic != 0 {
		sec = int64(wall<<1>>(nsecShift+1)) + wallToInternal
	}
	return time.Unix(sec-unixToInternal, int64(wall&nsecMask)).UTC()
}
