package symexec

// Native bridge: third-party / reflection-heavy library functions are run
// natively on concrete arguments; their results are converted back into
// interpreter values. A symbolic argument aborts the path (INCONCLUSIVE),
// it is never guessed.

import (
	"strings"
	"os"
	"encoding/json"
	"fmt"
	"go/types"
	"net/url"
	"reflect"
	"regexp"
)

// native wraps an opaque Go object carried through the target program by pointer.
type native struct{ v any }

var (
	tEmptyIface = types.NewInterfaceType(nil, nil).Complete()
	tAnySlice   = types.NewSlice(tEmptyIface)
	tStrAnyMap  = types.NewMap(types.Typ[types.String], tEmptyIface)
)

func mustConcrete(name string, args ...value) {
	for _, a := range args {
		if containsSym(a) || containsSymBytes(a) {
			panic(pathAbort{"unsupported: " + name + " on symbolic input"})
		}
	}
}

// toGo converts an Inv-value (inside an interface) to a plain Go value.
func toGo(v value) any {
	switch x := v.(type) {
	case iface:
		if x.t == nil {
			return nil
		}
		return toGo(x.v)
	case bool, int64, float64, string, int, int32, uint8, uint64, uint32, float32, int8, int16, uint, uint16:
		return x
	case []value:
		if x == nil {
			return []any(nil)
		}
		out := make([]any, len(x))
		for k, e := range x {
			out[k] = toGo(e)
		}
		return out
	case *omap:
		if x == nil {
			return map[string]any(nil)
		}
		out := map[string]any{}
		for k, key := range x.keys {
			ks, ok := key.(string)
			if !ok {
				panic(pathAbort{"unsupported: bridge on symbolic map key"})
			}
			out[ks] = toGo(x.vals[k])
		}
		return out
	case symInt, symBool, symFloat, symStr:
		panic(pathAbort{"unsupported: bridge on symbolic value"})
	}
	panic(pathAbort{fmt.Sprintf("unsupported: bridge toGo %T", v)})
}

// fromGo converts a decoded JSON-like Go value to an interface-typed interpreter value.
func fromGo(v any) value {
	switch x := v.(type) {
	case nil:
		return iface{}
	case bool:
		return iface{types.Typ[types.Bool], x}
	case float64:
		return iface{types.Typ[types.Float64], x}
	case int64:
		return iface{types.Typ[types.Int64], x}
	case string:
		return iface{types.Typ[types.String], x}
	case []any:
		out := make([]value, len(x))
		for k, e := range x {
			out[k] = fromGo(e)
		}
		return iface{tAnySlice, out}
	case map[string]any:
		m := &omap{keyType: types.Typ[types.String], idx: map[value]int{}}
		// deterministic order
		keys := make([]string, 0, len(x))
		for k := range x {
			keys = append(keys, k)
		}
		sortStrings(keys)
		for _, k := range keys {
			m.insert(nil, k, fromGo(x[k]))
		}
		return iface{tStrAnyMap, m}
	}
	panic(pathAbort{fmt.Sprintf("unsupported: bridge fromGo %T", v)})
}

func sortStrings(s []string) {
	for i := 1; i < len(s); i++ {
		for j := i; j > 0 && s[j] < s[j-1]; j-- {
			s[j], s[j-1] = s[j-1], s[j]
		}
	}
}

func bytesToValues(b []byte) []value {
	out := make([]value, len(b))
	for k, c := range b {
		out[k] = c
	}
	return out
}

func valuesToBytes(v value) []byte {
	s := v.([]value)
	out := make([]byte, len(s))
	for k, c := range s {
		out[k] = c.(uint8)
	}
	return out
}

func newNative(v any) *value {
	p := new(value)
	*p = native{v}
	return p
}

func getNative(v value) any {
	p, ok := v.(*value)
	if !ok || p == nil {
		panic(symRuntimeError("invalid memory address or nil pointer dereference"))
	}
	n, ok := (*p).(native)
	if !ok {
		panic(pathAbort{"unsupported: native handle expected"})
	}
	return n.v
}

func strArg(v value) string {
	s, ok := v.(string)
	if !ok {
		panic(pathAbort{"unsupported: bridge on symbolic string"})
	}
	return s
}

func strSlice(ss []string) value {
	if ss == nil {
		return []value(nil)
	}
	out := make([]value, len(ss))
	for k, s := range ss {
		out[k] = s
	}
	return out
}

// jsonAssign stores a decoded JSON value into the destination pointer of Unmarshal / Decode.
func jsonAssign(dstv value, out any) {
	// destination must be *any or a pointer to a map / slice / scalar variable
	dst, ok := dstv.(iface)
	if !ok || dst.t == nil {
		panic(pathAbort{"unsupported: json destination"})
	}
	p, ok := dst.v.(*value)
	if !ok {
		panic(pathAbort{"unsupported: json destination"})
	}
	res := fromGo(out)
	if pt, ok := dst.t.Underlying().(*types.Pointer); ok {
		if _, isIface := pt.Elem().Underlying().(*types.Interface); !isIface {
			rf, _ := res.(iface)
			if rf.t == nil {
				res = zero(pt.Elem())
			} else if types.Identical(rf.t.Underlying(), pt.Elem().Underlying()) {
				res = rf.v
			} else {
				panic(pathAbort{"unsupported: json decode into " + pt.Elem().String()})
			}
		}
	}
	*p = res
}

// jsonDec is the engine's json.Decoder over a *strings.Reader of the target program.
type jsonDec struct{ r *value }

func init() {
	br := map[string]libFn{
		"encoding/json.NewDecoder": func(i *interpreter, fr *frame, a []value) (value, bool) {
			rd, ok := a[0].(iface)
			if !ok || rd.t == nil || rd.t.String() != "*strings.Reader" {
				panic(pathAbort{"unsupported: json.NewDecoder on a reader other than *strings.Reader"})
			}
			return newNative(&jsonDec{r: rd.v.(*value)}), true
		},
		"(*encoding/json.Decoder).Decode": func(i *interpreter, fr *frame, a []value) (value, bool) {
			d := getNative(a[0]).(*jsonDec)
			st := (*d.r).(structure) // strings.Reader{s string, i int64, prevRune int}
			str, ok1 := st[0].(string)
			pos, ok2 := st[1].(int64)
			if !ok1 || !ok2 {
				panic(pathAbort{"unsupported: json.Decoder on symbolic text"})
			}
			dec := json.NewDecoder(strings.NewReader(str[pos:]))
			var out any
			err := dec.Decode(&out)
			if err == nil {
				jsonAssign(a[1], out)
				st[1] = pos + dec.InputOffset()
			}
			return i.mkError(fr, err), true
		},
		"encoding/json.Marshal": func(i *interpreter, fr *frame, a []value) (value, bool) {
			mustConcrete("json.Marshal", a[0])
			var b []byte
			var err error
			if x, ok := a[0].(iface); ok && needsTypedJSON(x.t, 0) {
				b, err = json.Marshal(typedJSONValue(x))
			} else {
				b, err = json.Marshal(toGo(a[0]))
			}
			return tuple{bytesToValues(b), i.mkError(fr, err)}, true
		},
		"encoding/json.Unmarshal": func(i *interpreter, fr *frame, a []value) (value, bool) {
			mustConcrete("json.Unmarshal", a[0])
			if dst, ok := a[1].(iface); ok && dst.t != nil {
				if pt, ok := dst.t.Underlying().(*types.Pointer); ok && needsTypedJSON(pt.Elem(), 0) {
					p, _ := dst.v.(*value)
					if p == nil {
						return i.mkError(fr, json.Unmarshal(valuesToBytes(a[0]), (*int)(nil))), true
					}
					mustConcrete("json.Unmarshal", *p)
					rv := reflect.New(goTypeOf(pt.Elem(), 0))
					toGoTyped(*p, pt.Elem(), rv.Elem())
					err := json.Unmarshal(valuesToBytes(a[0]), rv.Interface())
					*p = fromGoTyped(rv.Elem(), pt.Elem(), *p)
					return i.mkError(fr, err), true
				}
			}
			var out any
			err := json.Unmarshal(valuesToBytes(a[0]), &out)
			if err == nil {
				jsonAssign(a[1], out)
			}
			return i.mkError(fr, err), true
		},
		"regexp.Compile": func(i *interpreter, fr *frame, a []value) (value, bool) {
			if os.Getenv("GOSYM_DEBUG_RE") != "" {
				fmt.Fprintf(os.Stderr, "regexp.Compile(%q)\n", strArg(a[0]))
			}
			re, err := regexp.Compile(strArg(a[0]))
			if err != nil {
				return tuple{(*value)(nil), i.mkError(fr, err)}, true
			}
			return tuple{newNative(re), iface{}}, true
		},
		"regexp.MustCompile": func(i *interpreter, fr *frame, a []value) (value, bool) {
			re, err := regexp.Compile(strArg(a[0]))
			if err != nil {
				panic(targetPanic{"regexp: Compile: " + err.Error()})
			}
			return newNative(re), true
		},
		"(*regexp.Regexp).MatchString": func(i *interpreter, fr *frame, a []value) (value, bool) {
			return getNative(a[0]).(*regexp.Regexp).MatchString(strArg(a[1])), true
		},
		"(*regexp.Regexp).ReplaceAllString": func(i *interpreter, fr *frame, a []value) (value, bool) {
			return getNative(a[0]).(*regexp.Regexp).ReplaceAllString(strArg(a[1]), strArg(a[2])), true
		},
		"(*regexp.Regexp).FindStringSubmatch": func(i *interpreter, fr *frame, a []value) (value, bool) {
			return strSlice(getNative(a[0]).(*regexp.Regexp).FindStringSubmatch(strArg(a[1]))), true
		},
		"(*regexp.Regexp).FindAllStringSubmatch": func(i *interpreter, fr *frame, a []value) (value, bool) {
			res := getNative(a[0]).(*regexp.Regexp).FindAllStringSubmatch(strArg(a[1]), int(asInt64(a[2])))
			if os.Getenv("GOSYM_DEBUG_RE") != "" {
				fmt.Fprintf(os.Stderr, "FindAll re=%q s=%q n=%d -> %v\n", getNative(a[0]).(*regexp.Regexp).String(), strArg(a[1]), asInt64(a[2]), res)
			}
			if res == nil {
				return []value(nil), true
			}
			out := make([]value, len(res))
			for k, r := range res {
				out[k] = strSlice(r)
			}
			return out, true
		},
		"(*regexp.Regexp).SubexpNames": func(i *interpreter, fr *frame, a []value) (value, bool) {
			return strSlice(getNative(a[0]).(*regexp.Regexp).SubexpNames()), true
		},
		"(*regexp.Regexp).String": func(i *interpreter, fr *frame, a []value) (value, bool) {
			return getNative(a[0]).(*regexp.Regexp).String(), true
		},
		"net/url.QueryUnescape": func(i *interpreter, fr *frame, a []value) (value, bool) {
			s, err := url.QueryUnescape(strArg(a[0]))
			return tuple{s, i.mkError(fr, err)}, true
		},
		"github.com/GuanceCloud/grok.CopyDenormalizedDefalutPatterns": func(i *interpreter, fr *frame, a []value) (value, bool) {
			if i.wantInit("github.com/GuanceCloud/grok") {
				return nil, false // the grok package is initialised: use its real table
			}
			return (*omap)(nil), true // global grok patterns are outside the encoded part
		},
	}
	for k, v := range br {
		libIntrinsics[k] = v
	}
}
