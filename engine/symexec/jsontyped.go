package symexec

// Typed JSON bridge: json.Marshal / json.Unmarshal on values of struct types of the target
// program. The struct type is rebuilt natively with reflect.StructOf (field names, types and
// tags as in the source, read from go/types on every run), the interpreter value is copied into
// it, encoding/json runs natively on that value and the result is copied back. Concrete values
// only; a type that has its own MarshalJSON/UnmarshalJSON/MarshalText/UnmarshalText method
// aborts the path (the rebuilt type would not carry the method).

import (
	"fmt"
	"go/types"
	"reflect"
)

func hasJSONMethods(t types.Type) bool {
	for _, tt := range []types.Type{t, types.NewPointer(t)} {
		ms := types.NewMethodSet(tt)
		for _, n := range []string{"MarshalJSON", "UnmarshalJSON", "MarshalText", "UnmarshalText"} {
			if ms.Lookup(nil, n) != nil {
				return true
			}
		}
	}
	return false
}

// needsTypedJSON reports whether t (behind pointers) is or contains a struct, i.e. whether the
// untyped bridge cannot represent it.
func needsTypedJSON(t types.Type, depth int) bool {
	if t == nil || depth > 6 {
		return false
	}
	switch u := t.Underlying().(type) {
	case *types.Struct:
		return t.String() != "time.Time"
	case *types.Pointer:
		return needsTypedJSON(u.Elem(), depth+1)
	case *types.Slice:
		return needsTypedJSON(u.Elem(), depth+1)
	case *types.Array:
		return needsTypedJSON(u.Elem(), depth+1)
	case *types.Map:
		return needsTypedJSON(u.Elem(), depth+1)
	}
	return false
}

var basicReflect = map[types.BasicKind]reflect.Type{
	types.Bool: reflect.TypeOf(false), types.String: reflect.TypeOf(""),
	types.Int: reflect.TypeOf(int(0)), types.Int8: reflect.TypeOf(int8(0)), types.Int16: reflect.TypeOf(int16(0)),
	types.Int32: reflect.TypeOf(int32(0)), types.Int64: reflect.TypeOf(int64(0)),
	types.Uint: reflect.TypeOf(uint(0)), types.Uint8: reflect.TypeOf(uint8(0)), types.Uint16: reflect.TypeOf(uint16(0)),
	types.Uint32: reflect.TypeOf(uint32(0)), types.Uint64: reflect.TypeOf(uint64(0)),
	types.Float64: reflect.TypeOf(float64(0)), types.Float32: reflect.TypeOf(float32(0)),
}

func goTypeOf(t types.Type, depth int) reflect.Type {
	if depth > 8 {
		panic(pathAbort{"unsupported: typed json bridge on a recursive type"})
	}
	if _, named := t.(*types.Named); named && hasJSONMethods(t) {
		panic(pathAbort{"unsupported: typed json bridge on " + t.String() + " (has its own JSON/Text methods)"})
	}
	switch u := t.Underlying().(type) {
	case *types.Basic:
		if rt, ok := basicReflect[u.Kind()]; ok {
			return rt
		}
	case *types.Interface:
		if u.NumMethods() == 0 {
			return reflect.TypeOf((*any)(nil)).Elem()
		}
	case *types.Pointer:
		return reflect.PointerTo(goTypeOf(u.Elem(), depth+1))
	case *types.Slice:
		return reflect.SliceOf(goTypeOf(u.Elem(), depth+1))
	case *types.Array:
		return reflect.ArrayOf(int(u.Len()), goTypeOf(u.Elem(), depth+1))
	case *types.Map:
		return reflect.MapOf(goTypeOf(u.Key(), depth+1), goTypeOf(u.Elem(), depth+1))
	case *types.Struct:
		var fs []reflect.StructField
		for k := 0; k < u.NumFields(); k++ {
			f := u.Field(k)
			if f.Embedded() {
				panic(pathAbort{"unsupported: typed json bridge on an embedded field of " + t.String()})
			}
			sf := reflect.StructField{Name: f.Name(), Type: goTypeOf(f.Type(), depth+1), Tag: reflect.StructTag(u.Tag(k))}
			if !f.Exported() {
				sf.PkgPath = "verif/unexported"
				if f.Pkg() != nil {
					sf.PkgPath = f.Pkg().Path()
				}
			}
			fs = append(fs, sf)
		}
		return reflect.StructOf(fs)
	}
	panic(pathAbort{"unsupported: typed json bridge on type " + t.String()})
}

// toGoTyped copies the interpreter value v of static type t into the native value dst.
func toGoTyped(v value, t types.Type, dst reflect.Value) {
	switch u := t.Underlying().(type) {
	case *types.Basic:
		switch x := v.(type) {
		case bool:
			dst.SetBool(x)
		case string:
			dst.SetString(x)
		case int, int8, int16, int32, int64:
			dst.SetInt(reflect.ValueOf(x).Int())
		case uint, uint8, uint16, uint32, uint64:
			dst.SetUint(reflect.ValueOf(x).Uint())
		case float64:
			dst.SetFloat(x)
		case float32:
			dst.SetFloat(float64(x))
		default:
			panic(pathAbort{fmt.Sprintf("unsupported: typed json bridge on symbolic or unknown value %T", v)})
		}
	case *types.Interface:
		if g := toGo(v); g != nil {
			dst.Set(reflect.ValueOf(g))
		}
	case *types.Pointer:
		p, _ := v.(*value)
		if p == nil {
			return
		}
		n := reflect.New(dst.Type().Elem())
		toGoTyped(*p, u.Elem(), n.Elem())
		dst.Set(n)
	case *types.Slice:
		s, _ := v.([]value)
		if s == nil {
			return
		}
		n := reflect.MakeSlice(dst.Type(), len(s), len(s))
		for k, e := range s {
			toGoTyped(e, u.Elem(), n.Index(k))
		}
		dst.Set(n)
	case *types.Array:
		for k, e := range v.(array) {
			toGoTyped(e, u.Elem(), dst.Index(k))
		}
	case *types.Map:
		m, _ := v.(*omap)
		if m == nil {
			return
		}
		n := reflect.MakeMap(dst.Type())
		for k, key := range m.keys {
			kv := reflect.New(dst.Type().Key()).Elem()
			toGoTyped(key, u.Key(), kv)
			ev := reflect.New(dst.Type().Elem()).Elem()
			toGoTyped(m.vals[k], u.Elem(), ev)
			n.SetMapIndex(kv, ev)
		}
		dst.Set(n)
	case *types.Struct:
		st := v.(structure)
		for k := 0; k < u.NumFields(); k++ {
			if !u.Field(k).Exported() {
				continue // invisible to encoding/json
			}
			toGoTyped(st[k], u.Field(k).Type(), dst.Field(k))
		}
	default:
		panic(pathAbort{"unsupported: typed json bridge on type " + t.String()})
	}
}

// fromGoTyped converts the native value rv back into an interpreter value of static type t.
// old is the previous interpreter value (kept for unexported struct fields).
func fromGoTyped(rv reflect.Value, t types.Type, old value) value {
	switch u := t.Underlying().(type) {
	case *types.Basic:
		switch u.Kind() {
		case types.Bool:
			return rv.Bool()
		case types.String:
			return rv.String()
		case types.Int:
			return int(rv.Int())
		case types.Int8:
			return int8(rv.Int())
		case types.Int16:
			return int16(rv.Int())
		case types.Int32:
			return int32(rv.Int())
		case types.Int64:
			return rv.Int()
		case types.Uint:
			return uint(rv.Uint())
		case types.Uint8:
			return uint8(rv.Uint())
		case types.Uint16:
			return uint16(rv.Uint())
		case types.Uint32:
			return uint32(rv.Uint())
		case types.Uint64:
			return rv.Uint()
		case types.Float64:
			return rv.Float()
		case types.Float32:
			return float32(rv.Float())
		}
	case *types.Interface:
		if rv.IsNil() {
			return iface{}
		}
		return fromGo(rv.Interface())
	case *types.Pointer:
		if rv.IsNil() {
			return (*value)(nil)
		}
		p := new(value)
		*p = fromGoTyped(rv.Elem(), u.Elem(), nil)
		return p
	case *types.Slice:
		if rv.IsNil() {
			return []value(nil)
		}
		out := make([]value, rv.Len())
		for k := range out {
			out[k] = fromGoTyped(rv.Index(k), u.Elem(), nil)
		}
		return out
	case *types.Array:
		out := make(array, rv.Len())
		for k := range out {
			out[k] = fromGoTyped(rv.Index(k), u.Elem(), nil)
		}
		return out
	case *types.Map:
		if rv.IsNil() {
			return (*omap)(nil)
		}
		m := &omap{keyType: u.Key(), idx: map[value]int{}}
		keys := rv.MapKeys()
		// deterministic order: by formatted key
		for a := 1; a < len(keys); a++ {
			for b := a; b > 0 && fmt.Sprint(keys[b].Interface()) < fmt.Sprint(keys[b-1].Interface()); b-- {
				keys[b], keys[b-1] = keys[b-1], keys[b]
			}
		}
		for _, k := range keys {
			m.insert(nil, fromGoTyped(k, u.Key(), nil), fromGoTyped(rv.MapIndex(k), u.Elem(), nil))
		}
		return m
	case *types.Struct:
		out := make(structure, u.NumFields())
		oldst, _ := old.(structure)
		for k := range out {
			if !u.Field(k).Exported() {
				if oldst != nil {
					out[k] = oldst[k]
				} else {
					out[k] = zero(u.Field(k).Type())
				}
				continue
			}
			out[k] = fromGoTyped(rv.Field(k), u.Field(k).Type(), nil)
		}
		return out
	}
	panic(pathAbort{"unsupported: typed json bridge on type " + t.String()})
}

// typedJSONValue builds the native counterpart of an interface-typed argument of json.Marshal.
func typedJSONValue(x iface) any {
	rt := goTypeOf(x.t, 0)
	rv := reflect.New(rt).Elem()
	toGoTyped(x.v, x.t, rv)
	return rv.Interface()
}
