package symexec

// Insertion-ordered map used for every Go map of the target program.
// Deterministic iteration order is required because paths are re-executed from
// their decision prefix; keys may be symbolic strings (lookups then fork on
// equality with each candidate key).

import (
	"go/types"
)

type hashable interface {
	hash(t types.Type) int
	eq(t types.Type, x interface{}) bool
}

type omap struct {
	keyType types.Type
	keys    []value
	vals    []value
	idx     map[value]int // concrete, natively comparable keys -> position
	nsym    int           // number of keys not in idx (symbolic or structured)
}

func makeMap(kt types.Type, reserve int64) value {
	return &omap{keyType: kt, idx: map[value]int{}}
}

func nativeKey(k value) bool {
	switch k.(type) {
	case bool, int, int8, int16, int32, int64, uint, uint8, uint16, uint32, uint64, uintptr, float32, float64, string, *value:
		return true
	}
	return false
}

func (m *omap) len() int {
	if m == nil {
		return 0
	}
	return len(m.keys)
}

// find returns the position of key k or -1.
func (m *omap) find(i *interpreter, k value) int {
	if m == nil {
		return -1
	}
	if nativeKey(k) {
		if p, ok := m.idx[k]; ok {
			return p
		}
		if m.nsym == 0 {
			return -1
		}
	}
	for j, kj := range m.keys {
		if nativeKey(kj) && nativeKey(k) {
			continue // already answered by idx
		}
		e := symEquals(i, m.keyType, k, kj)
		switch e := e.(type) {
		case bool:
			if e {
				return j
			}
		case symBool:
			if i.decide(e.t) {
				return j
			}
		}
	}
	return -1
}

func (m *omap) lookup(i *interpreter, k value) (value, bool) {
	p := m.find(i, k)
	if p < 0 {
		return nil, false
	}
	return m.vals[p], true
}

func (m *omap) insert(i *interpreter, k, v value) {
	if m == nil {
		panic(symRuntimeError("assignment to entry in nil map"))
	}
	if p := m.find(i, k); p >= 0 {
		m.vals[p] = v
		return
	}
	if s, ok := k.(symStr); ok {
		// keep a private copy of the byte slice
		k = symStr{append([]value{}, s.b...)}
	}
	m.keys = append(m.keys, k)
	m.vals = append(m.vals, v)
	if nativeKey(k) {
		m.idx[k] = len(m.keys) - 1
	} else {
		m.nsym++
	}
}

func (m *omap) delete(i *interpreter, k value) {
	p := m.find(i, k)
	if p < 0 {
		return
	}
	if nativeKey(m.keys[p]) {
		delete(m.idx, m.keys[p])
	} else {
		m.nsym--
	}
	m.keys = append(m.keys[:p:p], m.keys[p+1:]...)
	m.vals = append(m.vals[:p:p], m.vals[p+1:]...)
	for j := p; j < len(m.keys); j++ {
		if nativeKey(m.keys[j]) {
			m.idx[m.keys[j]] = j
		}
	}
}

// omapIter iterates over a snapshot of the keys, skipping entries deleted meanwhile.
type omapIter struct {
	i    *interpreter
	m    *omap
	keys []value
	vals []value
	pos  int
}

func (it *omapIter) next() tuple {
	for it.pos < len(it.keys) {
		k := it.keys[it.pos]
		it.pos++
		// still present? (identity for non-native keys)
		if nativeKey(k) {
			if p, ok := it.m.idx[k]; ok {
				return tuple{true, k, it.m.vals[p]}
			}
			continue
		}
		for j, kj := range it.m.keys {
			if nativeKey(kj) {
				continue
			}
			if sameKeyIdentity(kj, k) {
				return tuple{true, k, it.m.vals[j]}
			}
			if !containsSym(kj) && !containsSym(k) && equals(it.m.keyType, kj, k) {
				return tuple{true, k, it.m.vals[j]}
			}
		}
	}
	return tuple{false, nil, nil}
}

func sameKeyIdentity(a, b value) bool {
	sa, ok1 := a.(symStr)
	sb, ok2 := b.(symStr)
	if ok1 && ok2 {
		return len(sa.b) == len(sb.b) && (len(sa.b) == 0 || &sa.b[0] == &sb.b[0])
	}
	if ok1 || ok2 {
		return false
	}
	return false
}

func (i *interpreter) newMapIter(m *omap) iter {
	if m == nil {
		return &omapIter{i: i, m: &omap{idx: map[value]int{}}}
	}
	keys := append([]value{}, m.keys...)
	vals := append([]value{}, m.vals...)
	if i.ps != nil && i.ps.nondetMapOrder && len(keys) > 1 {
		// choose a permutation by symbolic choices (forks over all n! orders)
		n := len(keys)
		for a := 0; a < n-1; a++ {
			c := i.chooseInt(0, int64(n-1-a), "maporder")
			b := a + int(c)
			keys[a], keys[b] = keys[b], keys[a]
			vals[a], vals[b] = vals[b], vals[a]
		}
	}
	return &omapIter{i: i, m: m, keys: keys, vals: vals}
}
