package symexec

// One persistent SMT solver process per worker, spoken to in SMT-LIB2 text.

import (
	"bufio"
	"fmt"
	"io"
	"os"
	"os/exec"
	"strings"
	"time"
)

type solverStats struct {
	Queries int
	Sat     int
	Unsat   int
	Unknown int
	Errors  int
	Wall    time.Duration
	Saved   int // branch sides answered by the cached model
}

type solver struct {
	cmd   *exec.Cmd
	in    io.WriteCloser
	out   *bufio.Reader
	st    solverStats
	log   io.Writer
	pr    *printer
	bin   []string
	tmo   int // per query timeout ms
	dead  bool
	nsent int
	hist  []string // declarations, definitions and assertions of the current path (for .smt2 dumps)
	keep  bool
}

func newSolver(bin []string, timeoutMs int) *solver {
	s := &solver{bin: bin, tmo: timeoutMs}
	s.start()
	return s
}

func (s *solver) start() {
	cmd := exec.Command(s.bin[0], s.bin[1:]...)
	in, _ := cmd.StdinPipe()
	out, _ := cmd.StdoutPipe()
	cmd.Stderr = io.Discard
	if err := cmd.Start(); err != nil {
		panic(err)
	}
	s.cmd, s.in, s.out = cmd, in, bufio.NewReaderSize(out, 1<<16)
	s.dead = false
	if p := os.Getenv("GOSYM_SMTLOG"); p != "" && s.log == nil {
		f, _ := os.Create(fmt.Sprintf("%s.%d", p, cmd.Process.Pid))
		s.log = f
	}
	s.preamble()
}

func (s *solver) preamble() {
	s.hist = s.hist[:0]
	s.pr = newPrinter(s.send)
	if strings.Contains(s.bin[0], "z3") {
		s.send(fmt.Sprintf("(set-option :timeout %d)", s.tmo))
	}
}

func (s *solver) send(line string) {
	if s.keep && (strings.HasPrefix(line, "(declare") || strings.HasPrefix(line, "(define") || strings.HasPrefix(line, "(assert")) {
		s.hist = append(s.hist, line)
	}
	if s.log != nil {
		fmt.Fprintln(s.log, line)
	}
	s.nsent++
	io.WriteString(s.in, line+"\n")
}

func (s *solver) close() {
	s.in.Close()
	done := make(chan struct{})
	go func() { s.cmd.Wait(); close(done) }()
	select {
	case <-done:
	case <-time.After(2 * time.Second):
		s.cmd.Process.Kill()
	}
}

func (s *solver) reset() {
	if s.dead {
		s.cmd.Process.Kill()
		s.cmd.Wait()
		s.start()
		return
	}
	s.send("(reset)")
	s.preamble()
}

func (s *solver) readLine() string {
	line, err := s.out.ReadString('\n')
	if err != nil {
		s.dead = true
		panic(pathAbort{"solver died: " + err.Error()})
	}
	return strings.TrimSpace(line)
}

func (s *solver) assert(t *Term) {
	str := s.pr.str(t)
	s.send("(assert " + str + ")")
}

// check asks whether the current assertions plus extra (may be nil) are satisfiable.
// It leaves the solver inside a (push) scope: the caller must call pop() after
// optionally reading model values.
func (s *solver) check(extra *Term) string {
	var str string
	if extra != nil {
		str = s.pr.str(extra) // definitions go out before the push
	}
	t0 := time.Now()
	s.st.Queries++
	s.send("(push 1)")
	if extra != nil {
		s.send("(assert " + str + ")")
	}
	s.send("(check-sat)")
	line := s.readLine()
	for strings.HasPrefix(line, "(error") {
		s.st.Errors++
		line = s.readLine()
		if line == "sat" || line == "unsat" || line == "unknown" {
			line = "error"
			break
		}
	}
	s.st.Wall += time.Since(t0)
	switch line {
	case "sat":
		s.st.Sat++
	case "unsat":
		s.st.Unsat++
	default:
		s.st.Unknown++
		if line != "unknown" && line != "timeout" {
			line = "error:" + line
		}
	}
	return line
}

func (s *solver) pop() { s.send("(pop 1)") }

// getModel reads the values of the named bit-vector / bool variables.
func (s *solver) getModel(vars []*Term) map[string]uint64 {
	m := map[string]uint64{}
	if len(vars) == 0 {
		return m
	}
	names := make([]string, len(vars))
	for i, v := range vars {
		names[i] = v.name
	}
	s.send("(get-value (" + strings.Join(names, " ") + "))")
	var sb strings.Builder
	depth := 0
	started := false
	for {
		r, err := s.out.ReadByte()
		if err != nil {
			s.dead = true
			panic(pathAbort{"solver died in get-value"})
		}
		sb.WriteByte(r)
		if r == '(' {
			depth++
			started = true
		}
		if r == ')' {
			depth--
		}
		if started && depth == 0 {
			break
		}
	}
	s.out.ReadString('\n')
	txt := sb.String()
	if strings.Contains(txt, "error") {
		panic(pathAbort{"get-value error: " + txt})
	}
	// ((nd0 #x..) (nd1 true) ...)
	txt = strings.NewReplacer("(", " ", ")", " ").Replace(txt)
	f := strings.Fields(txt)
	for i := 0; i+1 < len(f); i += 2 {
		m[f[i]] = parseSMTVal(f[i+1])
	}
	return m
}

func parseSMTVal(tok string) uint64 {
	var v uint64
	switch {
	case tok == "true":
		return 1
	case tok == "false":
		return 0
	case strings.HasPrefix(tok, "#x"):
		fmt.Sscanf(tok[2:], "%x", &v)
	case strings.HasPrefix(tok, "#b"):
		for _, ch := range tok[2:] {
			v = v<<1 | uint64(ch-'0')
		}
	default:
		panic(pathAbort{"cannot parse model value " + tok})
	}
	return v
}
